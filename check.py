#!/usr/bin/env python3
"""Driver: ./check <ID> --tier quick|thorough [--repo /repo] [--replay file]

exit 0: every obligation discharged or listed as known finding
exit 1: VIOLATION property=<id> replay=<path>
exit 2: ANALYSIS-ERROR (anchor vanished, traceback caught, construct not modelled)
"""
import argparse
import importlib
import json
import os
import sys
import time
import traceback

HERE = os.path.dirname(os.path.abspath(__file__))
sys.path.insert(0, HERE)

from sa.source import SourceTree, AnalysisError  # noqa: E402
from sa import report  # noqa: E402


def run_rules(prop, tree, tier):
    mod = importlib.import_module("sa.rules.%s" % prop)
    ctx = report.Ctx(prop, tree, tier)
    mod.run(ctx)
    return ctx


def main(argv=None):
    ap = argparse.ArgumentParser()
    ap.add_argument("prop")
    ap.add_argument("--tier", default=os.environ.get("VERIF_TIER", "quick"), choices=["quick", "thorough"])
    ap.add_argument("--repo", default="/repo")
    ap.add_argument("--replay", default=None)
    ap.add_argument("--no-evidence", action="store_true")
    a = ap.parse_args(argv)
    seed = int(os.environ.get("VERIF_SEED", "0") or 0)
    t0 = time.time()
    try:
        tree = SourceTree(a.repo)
        ctx = run_rules(a.prop, tree, a.tier)
        if a.replay:
            with open(a.replay) as f:
                rp = json.load(f)
            hit = [o for o in ctx.obligations
                   if o.rule == rp["rule"] and o.file == rp["file"] and o.unit == rp["unit"] and o.construct == rp["construct"]]
            if not hit:
                print("replay: the obligation %s on %s::%s no longer exists on this tree" % (rp["rule"], rp["file"], rp["unit"]))
                return 0
            rc = 0
            for o in hit:
                print(json.dumps(o.as_dict(), indent=1))
                if not o.ok:
                    print("VIOLATION property=%s replay=%s" % (a.prop, a.replay))
                    rc = 1
            return rc
        armed = None
        if a.tier == "thorough":
            from selftest import runner
            armed = runner.armed_pass(a.prop, tree)
            ctx.stat("armed_rules", armed["summary"])
            for f in armed["failures"]:
                ctx.check("armed", "selftest/variants", f["variant"], f["variant"], False,
                          "armed-rule pass: seeded break %s did not fire rule %s (the rule has stopped matching)" % (f["variant"], f["expect"]))
        rc, viol, kf = report.finish(ctx, t0, seed=seed, write=not a.no_evidence)
        return rc
    except AnalysisError as e:
        print("ANALYSIS-ERROR property=%s anchor=%s" % (a.prop, e.anchor))
        print("  %s" % e)
        return 2
    except Exception:
        print("ANALYSIS-ERROR property=%s anchor=internal" % a.prop)
        traceback.print_exc()
        return 2


if __name__ == "__main__":
    sys.exit(main())
