#!/bin/sh
# tools/autoref_all.sh [transform...]: every mechanical rewrite x every quick check; prints only deviations (alarm, analysis error, or a known finding lost/duplicated)
cd /verif
for p in C01 C02 C03 C04 C05 C06 C07 C08 C09 C10 C11 C12 C13 C14 C15 C16 C17 C18 C19 C20; do ./check $p --tier quick --no-evidence > /tmp/q_$p.log 2>&1; done
ts="$@"; [ -z "$ts" ] && ts="rename-locals swap-if merge-if split-and ret-temp aug"
for t in $ts; do
  d=/tmp/auto1_$t; rm -rf $d; mkdir $d; git -C /repo archive HEAD nemoguardrails docs | tar -x -C $d; python3 tools/autorefactor.py $d $t > /dev/null || { echo "$t: transform failed"; continue; }
  for p in C01 C02 C03 C04 C05 C06 C07 C08 C09 C10 C11 C12 C13 C14 C15 C16 C17 C18 C19 C20; do
    ./check $p --tier quick --no-evidence --repo $d > /tmp/ar_${t}_$p.log 2>&1; rc=$?
    k1=$(grep -c '^KNOWN-FINDING' /tmp/ar_${t}_$p.log); k0=$(grep -c '^KNOWN-FINDING' /tmp/q_$p.log)
    [ $rc = 0 ] && [ $k1 = $k0 ] || echo "$t $p rc=$rc viol=$(grep -c '^VIOLATION' /tmp/ar_${t}_$p.log) err=$(grep -c 'ANALYSIS-ERROR' /tmp/ar_${t}_$p.log) known=$k1/$k0"
  done
done
echo "autoref_all done"
