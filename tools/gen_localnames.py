#!/usr/bin/env python3
"""tools/gen_localnames.py [repo]: records the spelling + signature of the locals of every function of the repository (sa/localnames.json).
Run after every commit to /repo that the rules were re-confirmed against; see sa/localnames.py."""
import ast, json, os, sys
HERE = os.path.dirname(os.path.dirname(os.path.abspath(__file__)))
sys.path.insert(0, HERE)
from sa import localnames, canon
repo = sys.argv[1] if len(sys.argv) > 1 else "/repo"
out = {}
for dp, dn, fns in os.walk(os.path.join(repo, "nemoguardrails")):
    dn[:] = sorted(d for d in dn if d != "__pycache__")
    for f in sorted(fns):
        if not f.endswith(".py"):
            continue
        p = os.path.join(dp, f)
        rel = os.path.relpath(p, repo)
        tree = ast.parse(open(p, encoding="utf-8").read())
        canon.canonicalise(tree)
        for node in ast.walk(tree):
            for ch in ast.iter_child_nodes(node):
                ch._parent = node
        tree._parent = None
        t = localnames.table_for_tree(tree)
        t = {k: v for k, v in t.items() if v["locals"] or v["params"] or v.get("body")}
        # every name the module defines at top level (an imported name that is not among them is new: possibly a renamed function)
        top = set()
        for st in tree.body:
            for n in ast.walk(st) if not isinstance(st, (ast.FunctionDef, ast.AsyncFunctionDef, ast.ClassDef)) else [st]:
                if isinstance(n, (ast.FunctionDef, ast.AsyncFunctionDef, ast.ClassDef)):
                    top.add(n.name)
                elif isinstance(n, ast.Name) and isinstance(n.ctx, ast.Store):
                    top.add(n.id)
                elif isinstance(n, ast.alias):
                    top.add((n.asname or n.name).split(".")[0])
        t["__toplevel__"] = sorted(top)
        out[rel] = t
json.dump(out, open(localnames.TABLE, "w"), indent=0, sort_keys=True)
print("functions:", sum(len(v) for v in out.values()), "files:", len(out), "bytes:", os.path.getsize(localnames.TABLE))
