#!/usr/bin/env python3
"""Regenerates MANIFEST.json from the table below (kept valid at all times)."""
import json, os
HERE = os.path.dirname(os.path.dirname(os.path.abspath(__file__)))

CLAIMED = {
 "C01": dict(tech="Colang front-end + CFG paths with three-valued guard evaluation; induction-variable recogniser; reject=>stop typestate; Python CFG must-pass-through; who-may-read/who-may-match tables",
             text="Decides the structure of the input-rails gate for all abstract configurations (flows empty/non-empty x options) and all paths of the shipped flows: gate-iff, order/once, rewritten-text def-use, reject=>stop in every shipped rail, stop clears next steps, Colang-2 overrides. Does not decide verdict values or interpreter faithfulness.",
             ref="DESIGN.md C01"),
 "C02": dict(tech="Colang front-end + CFG paths with three-valued guard evaluation; one-shot flag typestate; flag pairing over normal and failure exits; who-may-write + reachability/taint for the skip flag; reject=>stop typestate",
             text="Decides the structure of the output-rails gate for all abstract configurations (skip x flows x options) and all paths of the shipped flows, the one-shot consumption of the skip flag and its single untainted writer, reject=>stop in every shipped output rail, and in Colang 2 the gate in `_bot_say` plus reset of the re-entrancy flag on every exit including failure exits. Found and repaired F1, F2.",
             ref="DESIGN.md C02"),
 "C03": dict(tech="exception-containment query over lexical try nesting + handler CFG; def-use dominance (must-pass-through) of the failed-status replacement; abstract evaluation of every shipped Colang 2 rail under action result None; flag pairing over failure exits; swallow-handler search around every expression evaluation of slide()",
             text="Decides containment of every expression that can run user action code in the dispatcher (all call sites, not sampled faults), the failed=>internal-error dominance in both runtimes, and fail-closed behaviour of every shipped Colang 2 blocking rail when its action fails. Found and repaired F3; F4 (5 rails that pass on a failed action) are listed known findings. Also decides that an evaluation error in a rail's condition cannot be swallowed inside slide() (the premise of the fail-closed argument).",
             ref="DESIGN.md C03"),
 "C16": dict(tech="table agreement (model fields / translation keys / Colang guards / docs); abstract guard evaluation per category over the Colang CFG; complete path enumeration of the loop-free UserMessage flow against the documented decision table; producer/consumer marker protocol",
             text="Decides that each rail category's runner is guarded by its own option and no other (all abstract option combinations), the rails-only decision table of the UserMessage flow (complete, the flow is loop-free), the bot_message hand-over guard, and the marker protocol that makes `stop` land on exactly the open rail. Does not decide the concrete activated_rails list for a verdict combination.",
             ref="DESIGN.md C16"),
 "C04": dict(tech="sibling cross-check of the dict/list/set branches of the matcher against the documented rule template; dispatch exhaustiveness; CFG dominance of identity tests over argument scoring; return-value shape; path rule (name test on every positive path for internal events); predicate agreement of the expected/received action-event classifiers",
             text="Decides the shape of the recursive matcher that the documentation states per container kind (size guard, recursion order, no-partner=>0.0, single specificity factor, loop over the expected container), the dominance of the action/flow instance and name tests over argument scoring, and the comparison primitives. The matching relation over all values is not decided. Found and repaired F5. For internal events every path to a positive score takes the name comparison, and both sides classify action events by the same name predicate.",
             ref="DESIGN.md C04"),
 "C05": dict(tech="CFG path enumeration of one group iteration / one competing-head iteration of _resolve_action_conflicts (emission count, fate count); def-use of the grouping key; shape of sort order and tie prefix; reaching definition of the filtered head list; value provenance of FlowState.loop_id; two-sidedness of the identity predicate Event.is_equal",
             text="Decides on every path: one action emission per interaction-loop group, none for co-winners, exactly one fate (co-win under is_equal / caught / abort) per competing head, grouping by the head's own loop_id, descending score order with the winner drawn from the exact-tie prefix, and the active-flow filter before resolution. The order over score vectors for all values is not decided. Loop ids stored on instances come only from fresh ids, the instance's own declared loop (literal NEW excluded) or a live instance; the co-win predicate compares the argument sets of both sides.",
             ref="DESIGN.md C05"),
 "C06": dict(tech="typestate rule on every action Stop emission site (guard set, shared-count decrement, STOPPING before emit, via CFG must-pass-through); effect-set sibling cross-check of _finish_flow/_abort_flow; who-may-write table for `activated`; scope pairing on emission traces (emit2); who-may-shrink action_uids; necessary conjunct of the garbage-collection condition",
             text="Decides the Stop-event discipline at every emission site (exactly-one / never for non-running actions / shared actions), that finishing and aborting a flow perform the same set of lifetime effects in the semantically required order, the writers of the activation count and the immediate-finish guard. The lifetime invariant over all hierarchies and histories is not decided. No code removes an action from a live flow's action list, and an ended instance is collected only when activated == 0.",
             ref="DESIGN.md C06"),
 "C09": dict(tech="who-may-write rules (raw head fields, matching index); construct->bind->use typestate per FlowHead construction site via CFG must-pass-through; de-register-before-delete dominance at every deletion site; drain structure of run_to_completion",
             text="Decides the mechanisms without which the incremental event->heads index cannot be exact: only the notifying setters move a head, every constructed or deserialised head has both callbacks bound to its own flow before it moves, every deletion of heads/flow states de-registers first, the index has exactly two symmetric maintainers, and the event loop ends only with an empty queue. The invariant over all reachable states is not decided. Found and repaired F7.",
             ref="DESIGN.md C09"),
 "C10": dict(tech="resolved call graph from run_to_completion with exception-containment cut: frontier edges into evaluator-reaching functions must lie inside the per-flow try or be triaged table entries; handler shape; API-level try in process_events",
             text="Claims the ISOLATION clause, plus the named termination guards (immediate finish/failure of activated flows - F20 known -, cumulative event cap, escaping in ColangError handler flows): every call edge from the uncontained event loop into a function that can evaluate Colang expressions (or raise Colang errors) is either inside the per-flow try whose handler fails only that flow, a benign edge with a stated reason, or a demonstrated known finding (F8.1-F8.4); process_events converts escaping exceptions into a ColangError event with a handler that cannot raise. Termination in general is not decided by this family.",
             ref="DESIGN.md C10"),
 "C13": dict(tech="exception-conversion totality: lexical try coverage of the parse call, per-handler raise discipline, guarded-read / bounded-index analysis of everything the handler evaluates on the caught exception (through the resolved call graph); grammar-text facts; regex AST star-height check (thorough)",
             text="Decides the error-path clause: reading and parsing a Colang file happen inside a try with a handler for Exception, every handler ends by raising ColangParsingError naming the path, and everything evaluated on the caught exception tolerates an arbitrary exception object. Layout invariance is only backed by grammar-level necessary facts; parser termination is not decided. Found and repaired F11.",
             ref="DESIGN.md C13"),
 "C15": dict(tech="writer/reader table agreement between the cache-key builder and the message->event converter + injectivity shape of the key; await-marking of every `with llm_params` region on the serving path; enter/exit inverse check; who-may-write on instance attributes along the request path (call graph) vs ContextVar publication",
             text="Decides the structural conditions of isolation on a shared instance: the history cache key covers, in full and injectively, everything the converter turns into events (F12 known: not injective, pinned by tests); no task switch inside the mutate/restore region of the shared LLM (F13 known at all 28 sites; any new site is a new violation); restore is the inverse of set (F14 known, pinned by tests); request-scoped data only in context variables. Replies under real interleavings are not decided.",
             ref="DESIGN.md C15"),
 "C20": dict(tech="taint of request ids to the config-load sink with CFG dominance of the raw-id rejection and root-containment tests (both raising); try/except conversion at the caller; who-may-write on the instance cache; reaching-definition (same SSA value) analysis of the thread key and message list; sibling check of the DataStore implementations",
             text="Decides for every config id string at once (not sampled ids) that the only file-system sink on a request-derived path is dominated by a rejection of separators/dot-dot on the RAW id and by a containment test of the normalised path, both raising ValueError that the endpoint turns into the fixed reply; that thread get/set use one key definition, generate receives stored+new in order and what is stored is that very list plus the returned reply; and that every store implementation is key- and value-faithful.",
             ref="DESIGN.md C20"),
 "C19": dict(tech="await-marking of CFG regions (cooperative-scheduling atomicity) in the batching code; index/value pairing by def-use; sibling agreement of the cache's get/set key derivation",
             text="Decides, for all interleavings at once, that the enqueue region and the snapshot region of the request batching contain no task switch, that batch position i belongs to request id i on both the text and the result side, that results are stored before the event is set, and that the cache wrapper computes/stores/returns paired and in input order. Model values, hash collisions and timing are not decided.",
             ref="DESIGN.md C19"),
 "C11": dict(tech="writer/reader table agreement of the state (de)serialiser: emitted tags vs decoder branches; type coverage from dataclass field annotations reachable from State and from the return types of the expression-function table; recursive-encoding shape of every encoder branch; field agreement of the hand-written Action pair; index maintenance of the clean-up via CFG",
             text="Decides necessary conditions of 'serialising succeeds for every reachable state and restores every field': tag agreement, encoder coverage of every type a State can hold (found F9a regex: repaired; F9b ComparisonExpression: known), recursive encoding in every branch (F10: repaired), Action field agreement, and that the age-based clean-up keeps flow_id_states / child lists / actions in step and only collects done, inactive, old instances. Behavioural equality after restore or ageing is not decided.",
             ref="DESIGN.md C11"),
 "C17": dict(tech="forward may-taint over each function's CFG from LLM completions to template/expression/code evaluators (with a planted positive example on every run); decorator-based who-may-consume rule; exception-containment of the non-action consumers; handler totality through the call graph; taint from turn data to the template source; depth-disjointness of the two `$name` resolvers; must-pass of the emptiness fallback before next_events[-1]; accepted-type subset of the generated-value validator vs. the state encoder",
             text="Decides for all LLM outputs at once that no completion-derived value reaches a template, expression or code evaluator (literal_eval only for generated values), that every consumer of a completion runs as an @action under the dispatcher's containment (C03.a), and that the two consumers outside actions (v1 dynamic flow start: F15 repaired; v2 AddFlowsAction) are protected and total. 'Every hostile text gives a well-formed reply' beyond that containment argument is not decided. Additionally: turn data never enters the Jinja source, `$name` references are resolved once, an LLM-generated flow with no next step cannot index an empty list (F26, repaired), generated literals are restricted to types the state encoder handles (F27, repaired); execution errors of LLM-generated multi-step flows are uncontained (F25, known finding).",
             ref="DESIGN.md C17"),
 "C07": dict(tech="abstract interpretation (emit2) of the group expanders in expansion.py: emission traces over symbolic inputs, all branch-choice paths, several size assignments; wait-placement / count / handler-balance obligations on the generated control flow; AST shape of the DNF normaliser",
             text="Decides on the code generator (i.e. for every program it will ever expand) that and-groups wait for all heads on success and fail at once, or-groups succeed at once and fail only after all alternatives failed, that every WaitForHeads counts exactly the heads of its fork, every forked branch returns to the end label, and failure handlers are pushed/popped in balance on every path. DNF equivalence for all formulas and the run-time merge dynamics are not decided.",
             ref="DESIGN.md C07"),
 "C12": dict(tech="abstract interpretation of both code generators: emit2 (Colang 2.x expanders: label/fork closure, scope pairing on the generated CFG), dispatch-exhaustiveness tables (grammar ops / element classes / slide branches), emit1 (Colang 1.0: affine identities of relative jump offsets)",
             text="Decides the property on the generators rather than on sampled programs: every label/fork reference of every template resolves inside the template, scopes are closed on every exit (F6: `when...else` - known finding), composite elements and ops never survive the fixpoint, break/continue labels are filled without writing per-compilation labels into the shared parsed elements (F23, repaired), the label table has one writer and every flow config entering a State has passed it, the Colang 1.0 offsets land on their intended targets and no later compiler pass moves an element. Facts about individual shipped .co files are subsumed by the generator-level result.",
             ref="DESIGN.md C12"),
 "C14": dict(tech="affine layout interpretation (emit1) of the Colang 1.0 offset computer with symbolic block lengths, case split on else, universally quantified loop index, unrolled branches; offset-key writer/reader agreement; opcode exhaustiveness; effect analysis (fresh state, stores into shared flow elements only under never-read keys) over the call graph of compute_next_steps",
             text="Decides, as algebraic identities valid for all block lengths, that every relative offset the Colang 1.0 compiler emits for if/else, while/break/continue, branch blocks and gotos equals the distance to the element the source construct designates; that the passes after the offset computation keep every element at its index; that the runtime reads exactly the keys the compiler writes; that every emitted element type has a consumer; and that deciding the next step cannot observably mutate shared configuration. The replay semantics of compute_next_state is not decided.",
             ref="DESIGN.md C14"),
 "C08": dict(tech="protocol-constant agreement across components: positional key producer (zero-based counter, +1 after use) vs consumers (plain enumerate index) ; binding-order shape of create_flow_instance; four-site agreement of the return-value channel; value comparison in every clause that re-uses an activated reference instance; who-may-assign a foreign context; who-may-write module-level state in the interpreter modules",
             text="Decides only the protocol facts three components must agree on: the `$<n>` key format and base between the transformer and every consumer, named-before-default-before-positional binding with the default evaluated only when absent, the Return -> _return_value -> FlowFinished.return_value -> await-assignment channel, that an `activate` call re-uses an instance only when named, positional and defaulted values all compare equal, that a context is shared only under the explicit `context` argument while every new instance gets fresh containers, and that no module-level cache can hand one instance's evaluated (mutable) default to another. Value identity for all signatures is not decided.",
             ref="DESIGN.md C08"),
}
NA = {
 "C18": "equality of string results over all chunkings of a stateful transducer; no structural necessary condition that is not a brittle proxy (DESIGN.md C18)",
}
PENDING_REASON = "static check not built yet in this tree (planned in DESIGN.md); not claimed until its checker exists"

def main():
    props = [json.loads(l)["id"] for l in open(os.path.join(HERE, "properties.jsonl"))]
    checks = []
    for p in props:
        if p in CLAIMED:
            c = CLAIMED[p]
            checks.append({
                "property_id": p,
                "quick_cmd": "./check %s --tier quick" % p,
                "thorough_cmd": "./check %s --tier thorough" % p,
                "evidence_file": "evidence/%s.json" % p,
                "replay_cmd_template": "./check %s --replay {path}" % p,
                "engine": "sa",
                "level_claimed": {"category": "other", "text": c["text"], "design_ref": c["ref"]},
                "level_note": "trusted base: CPython ast, /verif/sa engines (pycfg, pyflow, pycalls, Colang front-ends, coflow, emit1/emit2); approximations in DESIGN.md appendix A; decides structural necessary conditions, not the whole behaviour",
                "technique": "static analysis: " + c["tech"],
            })
    na = [{"property_id": p, "reason": NA.get(p, PENDING_REASON)} for p in props if p not in CLAIMED]
    m = {
        "version": 1,
        "setup_cmd": "python3 -m compileall -q sa selftest check.py",
        "hooks": {
            "guard": "NEMO_GUARDRAILS_VERIF",
            "enable": "no hooks: every check is static analysis of /repo's working tree; nothing is instrumented",
            "baseline_off_cmd": "cd /repo && /venv/bin/python -m pytest -ra -q -p no:cacheprovider --timeout=900 --continue-on-collection-errors",
            "source_commits": [],
            "add_only": True,
        },
        "engines": [
            {"name": "sa", "path": "sa/", "serves_properties": sorted(CLAIMED),
             "kind_free_text": "repository-specific static analysis in pure Python stdlib: statement CFG + dominators (pycfg), reaching definitions/taint (pyflow), import-table call graph (pycalls), independent structural Colang 1.0/2.x parsers + abstract guard evaluation (colang1, colang2, coflow), abstract interpreters of the two code generators (emit2, emit1); one rules module per property"},
            {"name": "selftest", "path": "selftest/", "serves_properties": sorted(CLAIMED),
             "kind_free_text": "seeded must-fire and must-stay-silent variants applied as in-memory overlays; re-run by the thorough tier (armed-rule pass)"},
        ],
        "checks": checks,
        "notes": "All checks read /repo's working tree on every run and execute no repository code. Known findings: known_findings.json. See DESIGN.md.",
        "not_applicable": na,
    }
    json.dump(m, open(os.path.join(HERE, "MANIFEST.json"), "w"), indent=1)
    print("claimed:", sorted(CLAIMED), "na:", [x["property_id"] for x in na])

if __name__ == "__main__":
    main()
