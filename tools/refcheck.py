#!/usr/bin/env python3
"""Applies one behaviour-preserving refactoring (a directory with patch.diff) to /repo, runs EVERY claimed quick check, undoes the patch.
Any VIOLATION is a false alarm of the checks, any ANALYSIS-ERROR a fragility.  Usage: refcheck.py <dir> [<dir> ...]"""
import json, os, subprocess, sys
HERE = os.path.dirname(os.path.dirname(os.path.abspath(__file__)))
REPO = "/repo"
PROPS = [c["property_id"] if "property_id" in c else c.get("id") for c in json.load(open(os.path.join(HERE, "MANIFEST.json"))).get("checks", [])] or \
    ["C%02d" % i for i in range(1, 21) if i != 18]
PROPS = sorted({p for p in PROPS if p})
if subprocess.run(["git", "-C", REPO, "status", "--porcelain"], capture_output=True, text=True).stdout.strip():
    print("refusing: /repo has uncommitted changes")
    sys.exit(2)
total_bad = 0
for d in sys.argv[1:]:
    sid = os.path.basename(d.rstrip("/"))
    a = subprocess.run(["git", "-C", REPO, "apply", os.path.abspath(os.path.join(d, "patch.diff"))], capture_output=True, text=True)
    if a.returncode != 0:
        print("%-8s PATCH DOES NOT APPLY: %s" % (sid, a.stderr.strip()[:100]))
        continue
    try:
        alarms, errors = [], []
        for p in PROPS:
            r = subprocess.run([os.path.join(HERE, "check"), p, "--tier", "quick", "--no-evidence"], capture_output=True, text=True, cwd=HERE)
            lines = r.stdout.splitlines()
            if r.returncode == 1:
                alarms += [l.strip() for l in lines if l.strip().startswith("rule=")]
            elif r.returncode == 2:
                errors += [l.strip()[:160] for l in lines if "ANALYSIS-ERROR" in l]
        print("%-8s %s" % (sid, "silent" if not alarms and not errors else ""))
        for x in alarms:
            print("         FALSE ALARM  " + x[:170])
        for x in errors:
            print("         FRAGILE      " + x)
        total_bad += len(alarms) + len(errors)
    finally:
        subprocess.run(["git", "-C", REPO, "checkout", "HEAD", "--", "."], capture_output=True)
        subprocess.run(["git", "-C", REPO, "clean", "-fdq"], capture_output=True)
print("alarms+errors:", total_bad)
