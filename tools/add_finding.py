#!/usr/bin/env python3
"""tools/add_finding.py <id> <status known|fixed> <property> <rule> <file> <unit> <construct> <what_fails> <demonstrated_by> [commit]"""
import json, sys
a = sys.argv[1:]
k = json.load(open('/verif/known_findings.json'))
e = {"id": a[0], "status": a[1], "property": a[2], "rule": a[3], "key": {"file": a[4], "unit": a[5], "construct": a[6]},
     "what_fails": (("fixed: property=%s %s " % (a[2], a[9])) if a[1] == "fixed" else "") + a[7], "demonstrated_by": a[8]}
if a[1] == "fixed":
    e["commit"] = a[9]
k["findings"] = [f for f in k["findings"] if f["id"] != a[0]] + [e]
json.dump(k, open('/verif/known_findings.json', 'w'), indent=1)
print("added", a[0])
