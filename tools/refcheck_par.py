#!/usr/bin/env python3
"""Like refcheck.py, but every refactoring is applied to its own scratch copy of /repo HEAD (git archive) and the refactorings are
processed in parallel; /repo itself is not touched.  Usage: refcheck_par.py [-j N] <dir> [<dir> ...]"""
import json, os, shutil, subprocess, sys, tempfile
from concurrent.futures import ThreadPoolExecutor
HERE = os.path.dirname(os.path.dirname(os.path.abspath(__file__)))
REPO = "/repo"
args = sys.argv[1:]
jobs = 12
if args and args[0] == "-j":
    jobs = int(args[1])
    args = args[2:]
PROPS = sorted({c.get("property_id") or c.get("id") for c in json.load(open(os.path.join(HERE, "MANIFEST.json"))).get("checks", [])} - {None})


def one(d):
    sid = os.path.basename(d.rstrip("/"))
    tmp = tempfile.mkdtemp(prefix="refchk_")
    try:
        ar = subprocess.Popen(["git", "-C", REPO, "archive", "HEAD", "nemoguardrails", "docs"], stdout=subprocess.PIPE)
        subprocess.run(["tar", "-x", "-C", tmp], stdin=ar.stdout, check=True)
        ar.wait()
        subprocess.run(["git", "init", "-q", "."], cwd=tmp, capture_output=True)
        a = subprocess.run(["git", "-C", tmp, "apply", os.path.abspath(os.path.join(d, "patch.diff"))], capture_output=True, text=True)
        if a.returncode != 0:
            return sid, ["PATCH DOES NOT APPLY: %s" % a.stderr.strip()[:100]], 1
        out = []
        for p in PROPS:
            r = subprocess.run([os.path.join(HERE, "check"), p, "--tier", "quick", "--no-evidence", "--repo", tmp], capture_output=True, text=True, cwd=HERE)
            lines = r.stdout.splitlines()
            if r.returncode == 1:
                out += ["FALSE ALARM  " + l.strip()[:170] for l in lines if l.strip().startswith("rule=")]
            elif r.returncode == 2:
                out += ["FRAGILE      " + l.strip()[:160] for l in lines if "ANALYSIS-ERROR" in l]
            elif r.returncode != 0:
                out += ["CHECK FAILED %s rc=%d" % (p, r.returncode)]
        return sid, out, len(out)
    finally:
        shutil.rmtree(tmp, ignore_errors=True)


total = 0
with ThreadPoolExecutor(jobs) as ex:
    for sid, out, bad in ex.map(one, args):
        print("%-8s %s" % (sid, "silent" if not out else ""))
        for x in out:
            print("         " + x)
        total += bad
print("alarms+errors:", total)
