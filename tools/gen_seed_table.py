#!/usr/bin/env python3
"""Prints the markdown table of seeded changes (DESIGN.md section 10) from seeded/*/meta.json."""
import json, glob, os
HERE = os.path.dirname(os.path.dirname(os.path.abspath(__file__)))
rows = []
for p in sorted(glob.glob(os.path.join(HERE, "seeded", "*", "meta.json"))):
    m = json.load(open(p))
    s = (m.get("summary") or "").replace("|", "/").replace("\n", " ")
    n = (m.get("needs_to_manifest") or "").replace("|", "/").replace("\n", " ")
    det = m["detected_by"]
    rows.append("| %s | %s | %s | %s |" % (m["id"], s[:170] + ("..." if len(s) > 170 else ""), n[:150] + ("..." if len(n) > 150 else ""),
                                            ", ".join("`%s`" % d for d in det) if isinstance(det, list) else "**%s**" % det))
print("| seed | change | needs, to manifest | caught by |")
print("|---|---|---|---|")
print("\n".join(rows))
