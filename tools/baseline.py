#!/usr/bin/env python3
"""Runs the repository baseline (guard OFF) on a tree and compares with stable_pass.
usage: /venv/bin/python tools/baseline.py [repo_dir]   (default /repo)"""
import json, subprocess, sys, os, tempfile, xml.etree.ElementTree as ET
repo = sys.argv[1] if len(sys.argv) > 1 else "/repo"
out = tempfile.mktemp(suffix=".xml", dir="/tmp")
env = dict(os.environ, PYTHONPATH=repo)
env.pop("NEMO_GUARDRAILS_VERIF", None)
subprocess.run(["/venv/bin/python", "-m", "pytest", "-q", "-p", "no:cacheprovider", "--timeout=900",
                "--continue-on-collection-errors", "--junitxml=" + out],
               cwd=repo, env=env, stdout=subprocess.DEVNULL, stderr=subprocess.DEVNULL)
passed = set()
for tc in ET.parse(out).getroot().iter("testcase"):
    if not any(ch.tag in ("failure", "error", "skipped") for ch in tc):
        passed.add(tc.get("classname") + "::" + tc.get("name"))
os.unlink(out)
stable = set(json.load(open("/root/.vp/BASELINE.json"))["stable_pass"])
missing = sorted(stable - passed)
print("passed=%d stable=%d stable-now-failing=%d" % (len(passed), len(stable), len(missing)))
for m in missing:
    print("  REGRESSION", m)
sys.exit(1 if missing else 0)
