#!/usr/bin/env python3
"""mkprompt.py seed|hunt|refactor ID N [files...] -> creates worktree /tmp/wt_ID, prompt /tmp/prompts/ID.md"""
import json, os, subprocess, sys
kind, ID, N = sys.argv[1], sys.argv[2], sys.argv[3]
wt = "/tmp/wt_" + ID
out = "/tmp/out/" + ID
os.makedirs(out, exist_ok=True)
if not os.path.isdir(wt):
    subprocess.run(["git", "-C", "/repo", "worktree", "add", "-q", "--detach", wt, "HEAD"], check=True)
tpl = open("/verif/tools/%s_prompt_template.md" % kind).read()
prop = ""
pid = ID.split("-")[0].split("_")[0][:3]
for l in open("/verif/properties.jsonl"):
    d = json.loads(l)
    if d["id"] == pid:
        prop = "%s - %s\n\n%s\n\nAnchors (where the mechanism lives): %s" % (d["id"], d["title"], d["statement"], json.dumps(d["anchors"], indent=1))
files = "\n".join(" - " + f for f in sys.argv[4:])
extra = os.environ.get("EXTRA", "")
txt = tpl.replace("{{", "\x00").replace("}}", "\x01")
for k, v in dict(WT=wt, OUT=out, PROP=prop, N=N, ID=ID, FILES=files).items():
    txt = txt.replace("{" + k + "}", v)
txt = txt.replace("\x00", "{").replace("\x01", "}")
if extra:
    txt += "\n\n## Additional guidance for this round\n\n" + extra + "\n"
open("/tmp/prompts/%s.md" % ID, "w").write(txt)
print(wt, out, "/tmp/prompts/%s.md" % ID)
