#!/usr/bin/env python3
"""Regenerates the rows F98.. of DESIGN.md section 5 from known_findings.json (between the markers <!-- F98+ --> and <!-- /F98+ -->)."""
import json, re
p = '/verif/DESIGN.md'
s = open(p).read()
k = json.load(open('/verif/known_findings.json'))['findings']
rows = []
for f in k:
    m = re.match(r"^F(\d+)", f['id'])
    if not m or int(m.group(1)) < 98:
        continue
    what = f['what_fails']
    if f['status'] == 'fixed':
        what = re.sub(r"^fixed: property=\S+ \S+ ", "", what)
        st = "**fixed** `%s`" % f.get('commit', '')
    else:
        st = "known"
    rows.append("| %s | %s | %s | %s (%s; rule %s) |" % (f['id'], f['property'], what.replace('|', '/'), st, f['demonstrated_by'].replace('|', '/'), f['rule']))
block = "<!-- F98+ -->\n" + "\n".join(rows) + "\n<!-- /F98+ -->"
if "<!-- F98+ -->" in s:
    s = re.sub(r"<!-- F98\+ -->.*?<!-- /F98\+ -->", lambda _: block, s, flags=re.S)
else:
    # first time: replace the rows that were pasted by hand
    lines = s.split("\n")
    idx = [i for i, l in enumerate(lines) if re.match(r"^\| F(9[89]|1[0-9][0-9])b? \|", l)]
    lines[idx[0]:idx[-1] + 1] = [block]
    s = "\n".join(lines)
open(p, 'w').write(s)
print(len(rows), "rows")
