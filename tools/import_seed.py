#!/usr/bin/env python3
"""tools/import_seed.py <seed_dir> <detected_by...>: copy a CONFIRMED seed into /verif/seeded/<id>/ with meta.json"""
import json, os, shutil, sys, glob, subprocess
VERIF = os.path.dirname(os.path.dirname(os.path.abspath(__file__)))
seed = sys.argv[1].rstrip("/")
sid = os.path.basename(seed)
log = open(os.path.join(seed, "confirm.log")).read()
assert "\nCONFIRMED" in "\n" + log, "seed not confirmed"
dst = os.path.join(VERIF, "seeded", sid)
os.makedirs(dst, exist_ok=True)
shutil.copy(os.path.join(seed, "patch.diff"), dst)
for d in glob.glob(os.path.join(seed, "demo*.py")):
    shutil.copy(d, dst)
meta = {}
mp = os.path.join(seed, "meta.json")
if os.path.exists(mp):
    meta = json.load(open(mp))
det = subprocess.run([sys.executable, os.path.join(VERIF, "tools", "seedcheck.py"), "detect", seed] + sys.argv[2:], capture_output=True, text=True).stdout
rules = sorted({l.split()[0].replace("rule=", "") for l in det.splitlines() if l.strip().startswith("rule=")})
out = {
    "id": sid,
    "property": meta.get("property", sid.split("-")[0]),
    "summary": meta.get("summary"),
    "needs_to_manifest": meta.get("needs_to_manifest"),
    "files": meta.get("files"),
    "author": "independent sub-agent given only the property text and a scratch worktree",
    "confirmed_by_me": {
        "how": "tools/seedcheck.py confirm: fresh worktree of /repo HEAD; demo exit 0 without the patch, non-zero with it; full baseline with the patch compared with BASELINE.json stable_pass",
        "log": [l for l in log.splitlines() if l.strip()],
    },
    "detected_by": rules if rules else "NOT DETECTED",
    "detection_run": "tools/seedcheck.py detect (git -C /repo apply patch.diff; every claimed quick check; git checkout HEAD -- .)",
    "agent_ran": meta.get("ran"),
}
json.dump(out, open(os.path.join(dst, "meta.json"), "w"), indent=1)
print(sid, "->", out["detected_by"])
