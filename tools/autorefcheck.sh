#!/bin/sh
# tools/autorefcheck.sh <transform> [--baseline]: scratch copy of /repo HEAD, mechanical rewrite, every quick check against the copy
t=$1; d=/tmp/auto_$t
rm -rf $d && mkdir $d && git -C /repo archive HEAD | tar -x -C $d || exit 2
python3 /verif/tools/autorefactor.py $d $t || exit 2
cd /verif
for p in C01 C02 C03 C04 C05 C06 C07 C08 C09 C10 C11 C12 C13 C14 C15 C16 C17 C18 C19 C20; do
  ./check $p --tier quick --no-evidence --repo $d > $d.$p.log 2>&1; rc=$?
  echo "$t $p rc=$rc viol=$(grep -c '^VIOLATION' $d.$p.log) err=$(grep -c 'ANALYSIS-ERROR' $d.$p.log) known=$(grep -c '^KNOWN-FINDING' $d.$p.log)"
done
if [ "$2" = "--baseline" ]; then /venv/bin/python /verif/tools/baseline.py $d | head -5; fi
rm -rf $d
