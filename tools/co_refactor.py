#!/usr/bin/env python3
"""Mechanical behaviour-preserving rewrites of the shipped Colang files (.co) of a scratch copy, the Colang counterpart of tools/autorefactor.py.

  tools/co_refactor.py <scratch_repo_dir> <transform>

  swap-if     `if C` A `else` B  (no elif / else-if chain)   ->  `if not (C)` B `else` A
  merge-if    `if A` whose whole body is one `if B` (no else on either)  ->  `if (A) and (B)`
  split-and   `if A and B` without else (top-level `and`, no `or`)      ->  `if A` / `if B` nested
  rename-vars (Colang 2.x only) every variable of a flow that is not a parameter, not declared global in ANY flow of the file, not a `$ref` of `as $ref`
              read through a member access elsewhere, gets the suffix `_rn` inside that flow
"""
import os, re, sys


def indent_of(l):
    return len(l) - len(l.lstrip(" "))


def is_code(l):
    s = l.strip()
    return bool(s) and not s.startswith("#")


def block_end(lines, i):
    """index after the block that the header line i opens (lines indented deeper; blank/comment lines inside count)"""
    n = indent_of(lines[i])
    j = i + 1
    last = i
    while j < len(lines):
        if is_code(lines[j]):
            if indent_of(lines[j]) <= n:
                break
            last = j
        j += 1
    return last + 1


def docstring_mask(lines):
    mask, ind = [], False
    for l in lines:
        q = l.count('"""')
        mask.append(ind or q > 0)
        if q % 2 == 1:
            ind = not ind
    return mask


def cond_of(line):
    s = line.strip()
    m = re.match(r"^if\s+(.*?)\s*:?\s*$", s)
    return m.group(1) if m else None


def reindent(block, delta):
    out = []
    for l in block:
        if l.strip():
            out.append((" " * (indent_of(l) + delta)) + l.lstrip(" ") if delta >= 0 else l[-delta:] if l[:-delta].strip() == "" else l)
        else:
            out.append(l)
    return out


def swap_if(lines):
    mask = docstring_mask(lines)
    i = 0
    changed = 0
    while i < len(lines):
        l = lines[i]
        if not mask[i] and l.strip().startswith("if ") and cond_of(l) is not None:
            n = indent_of(l)
            e = block_end(lines, i)
            if e < len(lines) and is_code(lines[e]) and indent_of(lines[e]) == n and re.match(r"^else\s*:?\s*$", lines[e].strip()):
                e2 = block_end(lines, e)
                nxt = lines[e2].strip() if e2 < len(lines) else ""
                colon = ":" if l.rstrip().endswith(":") else ""
                body, ebody = lines[i + 1:e], lines[e + 1:e2]
                # trailing blank lines stay where they are
                if any(is_code(x) for x in body) and any(is_code(x) for x in ebody) and not any(mask[i:e2]):
                    new = [" " * n + "if not (%s)%s" % (cond_of(l), colon)] + ebody + [lines[e]] + body
                    lines[i:e2] = new
                    mask = docstring_mask(lines)
                    changed += 1
        i += 1
    return changed


def merge_if(lines):
    mask = docstring_mask(lines)
    changed = 0
    i = 0
    while i < len(lines):
        l = lines[i]
        if not mask[i] and l.strip().startswith("if ") and cond_of(l) is not None:
            n = indent_of(l)
            e = block_end(lines, i)
            has_else = e < len(lines) and is_code(lines[e]) and indent_of(lines[e]) == n and re.match(r"^(else|elif)\b", lines[e].strip())
            body = [k for k in range(i + 1, e) if is_code(lines[k])]
            if not has_else and body and lines[body[0]].strip().startswith("if ") and cond_of(lines[body[0]]) is not None and not any(mask[i:e]):
                k = body[0]
                ke = block_end(lines, k)
                inner_else = ke < e and is_code(lines[ke]) and indent_of(lines[ke]) == indent_of(lines[k])
                if ke >= e and not inner_else and all(not is_code(lines[x]) for x in range(i + 1, k)):
                    colon = ":" if l.rstrip().endswith(":") else ""
                    d = indent_of(lines[k]) - n
                    inner = lines[k + 1:e]
                    new = [" " * n + "if (%s) and (%s)%s" % (cond_of(l), cond_of(lines[k]), colon)] + [(x[d:] if x.strip() else x) for x in inner]
                    lines[i:e] = new
                    mask = docstring_mask(lines)
                    changed += 1
                    continue
        i += 1
    return changed


def split_and(lines):
    mask = docstring_mask(lines)
    changed = 0
    i = 0
    while i < len(lines):
        l = lines[i]
        c = cond_of(l) if (not mask[i] and l.strip().startswith("if ")) else None
        if c and " and " in c and " or " not in c and "(" not in c and '"' not in c and "'" not in c:
            n = indent_of(l)
            e = block_end(lines, i)
            has_else = e < len(lines) and is_code(lines[e]) and indent_of(lines[e]) == n and re.match(r"^(else|elif)\b", lines[e].strip())
            if not has_else and not any(mask[i:e]):
                a, b = c.split(" and ", 1)
                colon = ":" if l.rstrip().endswith(":") else ""
                body = lines[i + 1:e]
                step = 2
                new = [" " * n + "if %s%s" % (a, colon), " " * (n + step) + "if %s%s" % (b, colon)] + [(" " * step + x if x.strip() else x) for x in body]
                lines[i:e] = new
                mask = docstring_mask(lines)
                changed += 1
                i += 2
                continue
        i += 1
    return changed


def rename_vars_v2(lines):
    text = "\n".join(lines)
    if re.search(r"^define\s", text, re.M):
        return 0
    globals_ = set(re.findall(r"^\s*global\s+\$(\w+)", text, re.M))
    member_read = set(re.findall(r"\$(\w+)\.", text))
    changed = 0
    i = 0
    while i < len(lines):
        m = re.match(r"^(@.*\n)?flow\s+(.*)$", lines[i])
        if lines[i].startswith("flow "):
            e = block_end(lines, i)
            header = lines[i]
            params = set(re.findall(r"\$(\w+)", header))
            body = "\n".join(lines[i + 1:e])
            assigned = set(re.findall(r"^\s*\$(\w+)\s*=", body, re.M))
            cands = {v for v in assigned if v not in params and v not in globals_ and v not in member_read and not v.endswith("_rn")}
            # a name that also appears inside a string literal (interpolation "{$x}") is fine: renamed there too; names used as keyword `as $x` are refs
            refs = set(re.findall(r"\bas\s+\$(\w+)", body))
            cands -= refs
            for v in sorted(cands, key=len, reverse=True):
                for k in range(i + 1, e):
                    lines[k] = re.sub(r"\$%s\b" % re.escape(v), "$%s_rn" % v, lines[k])
                changed += 1
            i = e
            continue
        i += 1
    return changed


T = {"swap-if": swap_if, "merge-if": merge_if, "split-and": split_and, "rename-vars": rename_vars_v2}

if __name__ == "__main__":
    root, tname = sys.argv[1], sys.argv[2]
    total = files = 0
    for dp, dn, fns in os.walk(os.path.join(root, "nemoguardrails")):
        for f in fns:
            if f.endswith(".co"):
                p = os.path.join(dp, f)
                lines = open(p, encoding="utf-8").read().split("\n")
                v1 = any(l.startswith("define ") for l in lines)
                if tname == "swap-if" and v1 and not os.environ.get("CO_SWAP_V1"):
                    continue    # swapping the branches of a Colang 1.0 `if` is not behaviour-preserving in practice (the stable tests fail), see DESIGN 12
                c = T[tname](lines)
                if c:
                    open(p, "w", encoding="utf-8").write("\n".join(lines))
                    total += c
                    files += 1
    print("%s: %d rewrites in %d files" % (tname, total, files))
