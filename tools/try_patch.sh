#!/bin/sh
# tools/try_patch.sh <patch> <Cxx...>: applies a patch to a scratch copy and runs the named quick checks against it
pt=$(readlink -f $1); shift; d=/tmp/try_$$; rm -rf $d; mkdir $d && git -C /repo archive HEAD nemoguardrails docs | tar -x -C $d && (cd $d && git init -q . 2>/dev/null; git -C $d apply $pt) || { echo "patch failed"; rm -rf $d; exit 2; }
cd /verif; for p in "$@"; do ./check $p --tier quick --no-evidence --repo $d 2>&1 | grep -v '^KNOWN' | cut -c1-${W:-300}; done; rm -rf $d
