#!/bin/sh
# tools/coref_all.sh: every mechanical Colang rewrite (tools/co_refactor.py) x every quick check; prints only deviations
cd /verif
for p in C01 C02 C03 C04 C05 C06 C07 C08 C09 C10 C11 C12 C13 C14 C15 C16 C17 C18 C19 C20; do ./check $p --tier quick --no-evidence > /tmp/q_$p.log 2>&1; done
for t in swap-if swap-if-v1 merge-if split-and rename-vars; do
  d=/tmp/co1_$t; rm -rf $d; mkdir $d; git -C /repo archive HEAD nemoguardrails docs | tar -x -C $d
  if [ $t = swap-if-v1 ]; then CO_SWAP_V1=1 python3 tools/co_refactor.py $d swap-if > /dev/null; else python3 tools/co_refactor.py $d $t > /dev/null; fi
  for p in C01 C02 C03 C04 C05 C06 C07 C08 C09 C10 C11 C12 C13 C14 C15 C16 C17 C18 C19 C20; do
    ./check $p --tier quick --no-evidence --repo $d > /tmp/co_${t}_$p.log 2>&1; rc=$?
    k1=$(grep -c '^KNOWN-FINDING' /tmp/co_${t}_$p.log); k0=$(grep -c '^KNOWN-FINDING' /tmp/q_$p.log)
    [ $rc = 0 ] && [ $k1 = $k0 ] || echo "$t $p rc=$rc viol=$(grep -c '^VIOLATION' /tmp/co_${t}_$p.log) err=$(grep -c 'ANALYSIS-ERROR' /tmp/co_${t}_$p.log) known=$k1/$k0"
  done
  rm -rf $d
done
echo "coref_all done"
