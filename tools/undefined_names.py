#!/usr/bin/env python3
"""tools/undefined_names.py [repo]: names loaded in a module of nemoguardrails/ that are neither bound anywhere in that module (any scope), nor builtins - a cheap guard for fix commits."""
import ast, builtins, os, sys
root = sys.argv[1] if len(sys.argv) > 1 else "/repo"
bad = 0
top = os.path.join(root, "nemoguardrails") if os.path.isdir(os.path.join(root, "nemoguardrails")) else root
for dp, dn, fns in os.walk(top):
    for f in fns:
        if not f.endswith(".py"):
            continue
        p = os.path.join(dp, f)
        t = ast.parse(open(p, encoding="utf-8").read())
        bound = set(dir(builtins)) | {"__file__", "__name__", "__doc__", "__path__", "__spec__", "__class__"}
        star = False
        for n in ast.walk(t):
            if isinstance(n, ast.Name) and isinstance(n.ctx, (ast.Store, ast.Del)):
                bound.add(n.id)
            elif isinstance(n, (ast.FunctionDef, ast.AsyncFunctionDef, ast.ClassDef)):
                bound.add(n.name)
            elif isinstance(n, ast.arg):
                bound.add(n.arg)
            elif isinstance(n, (ast.Import, ast.ImportFrom)):
                for a in n.names:
                    if a.name == "*":
                        star = True
                    bound.add((a.asname or a.name).split(".")[0])
            elif isinstance(n, ast.ExceptHandler) and n.name:
                bound.add(n.name)
            elif isinstance(n, (ast.Global, ast.Nonlocal)):
                bound.update(n.names)
            elif hasattr(ast, "MatchAs") and isinstance(n, (ast.MatchAs, ast.MatchStar)) and n.name:
                bound.add(n.name)
        if star:
            continue
        for n in ast.walk(t):
            if isinstance(n, ast.Name) and isinstance(n.ctx, ast.Load) and n.id not in bound:
                print("%s:%d undefined name %s" % (os.path.relpath(p, root), n.lineno, n.id))
                bad += 1
print("undefined names:", bad)
sys.exit(1 if bad else 0)
