#!/usr/bin/env python3
"""Rewrites the seed table of DESIGN.md section 10 from seeded/*/meta.json (tools/gen_seed_table.py) and the count sentence."""
import os, re, subprocess, glob, json
HERE = os.path.dirname(os.path.dirname(os.path.abspath(__file__)))
table = subprocess.run(["python3", os.path.join(HERE, "tools", "gen_seed_table.py")], capture_output=True, text=True, check=True).stdout.rstrip("\n")
p = os.path.join(HERE, "DESIGN.md")
s = open(p).read()
i = s.index("| seed | change | needs, to manifest | caught by |")
j = s.index("\n\n", i)
s = s[:i] + table + s[j:]
n = len(glob.glob(os.path.join(HERE, "seeded", "*", "meta.json")))
s = re.sub(r"Of the (first )?\d+ changes, [^.]*\.", "Of the %d changes kept so far, every one is caught by the checks as committed; roughly half were caught by the rules as first written and the others only after the strengthening listed in §9." % n, s, count=1)
open(p, "w").write(s)
print("seeds:", n)
