#!/usr/bin/env python3
"""Re-applies every kept seeded change to /repo (one at a time, undone straight afterwards) and verifies that the checks
recorded in its meta.json still report it.  Prints one line per seed; exit 1 if any seed is no longer detected."""
import glob, json, os, subprocess, sys
HERE = os.path.dirname(os.path.dirname(os.path.abspath(__file__)))
REPO = "/repo"
if subprocess.run(["git", "-C", REPO, "status", "--porcelain"], capture_output=True, text=True).stdout.strip():
    print("refusing: /repo has uncommitted changes")
    sys.exit(2)
bad = 0
only = sys.argv[1:]
for d in sorted([d for d in glob.glob(os.path.join(HERE, "seeded", "*")) if not os.path.basename(d).startswith("_")]):
    sid = os.path.basename(d)
    if only and not any(sid.startswith(o) for o in only):
        continue
    m = json.load(open(os.path.join(d, "meta.json")))
    rules = m.get("detected_by") or []
    props = sorted({r.split(".")[0] for r in rules}) or [m.get("property")]
    a = subprocess.run(["git", "-C", REPO, "apply", os.path.join(d, "patch.diff")], capture_output=True, text=True)
    if a.returncode != 0:
        print("%-8s PATCH DOES NOT APPLY" % sid)
        bad += 1
        continue
    try:
        hit = set()
        rcs = {}
        for p in props:
            r = subprocess.run([os.path.join(HERE, "check"), p, "--tier", "quick", "--no-evidence"], capture_output=True, text=True, cwd=HERE)
            rcs[p] = r.returncode
            for line in r.stdout.splitlines():
                if line.strip().startswith("rule="):
                    hit.add(line.strip().split()[0][5:])
        still = [r for r in rules if r in hit or r.replace(".floor", "") in hit]
        ok = any(v == 1 for v in rcs.values()) and bool(hit)
        print("%-8s %s  now: %s" % (sid, "detected" if ok else "NOT DETECTED (rc %s)" % rcs, sorted(hit)[:4]))
        bad += 0 if ok else 1
    finally:
        subprocess.run(["git", "-C", REPO, "checkout", "HEAD", "--", "."], capture_output=True)
        subprocess.run(["git", "-C", REPO, "clean", "-fdq"], capture_output=True)
print("seeds no longer detected:", bad)
sys.exit(1 if bad else 0)
