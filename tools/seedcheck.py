#!/usr/bin/env python3
"""Evaluate a seeded defect directory (patch.diff + demo + meta.json).

  tools/seedcheck.py detect <seed_dir> [Cxx ...]   apply the patch to /repo, run the quick checks, undo; print what fired
  tools/seedcheck.py confirm <seed_dir>            in a scratch worktree: demo passes without / fails with the patch, baseline still green
"""
import json, os, subprocess, sys, tempfile, shutil, glob

VERIF = os.path.dirname(os.path.dirname(os.path.abspath(__file__)))


def sh(cmd, **kw):
    return subprocess.run(cmd, shell=True, text=True, capture_output=True, **kw)


def claimed():
    m = json.load(open(os.path.join(VERIF, "MANIFEST.json")))
    return [c["property_id"] for c in m["checks"]]


def detect(seed, props):
    patch = os.path.join(seed, "patch.diff")
    st = sh("git -C /repo status --porcelain")
    if st.stdout.strip():
        print("refusing: /repo has uncommitted changes"); return 2
    r = sh("git -C /repo apply %s" % patch)
    if sh("git -C /repo status --porcelain").stdout.strip() == "":
        print("patch did not apply:", r.stderr[-500:]); return 2
    fired = {}
    try:
        for p in props:
            r = sh("./check %s --tier quick --no-evidence" % p, cwd=VERIF)
            v = [l for l in r.stdout.splitlines() if l.startswith("VIOLATION") or l.startswith("ANALYSIS-ERROR") or l.startswith("  rule=")]
            if r.returncode != 0:
                fired[p] = (r.returncode, [l.strip() for l in r.stdout.splitlines() if l.startswith("  rule=") or l.startswith("ANALYSIS-ERROR")])
    finally:
        sh("git -C /repo checkout HEAD -- . && git -C /repo clean -fdq nemoguardrails tests docs examples")
    for p, (rc, lines) in fired.items():
        print("%s rc=%d" % (p, rc))
        for l in lines[:6]:
            print("   ", l[:220])
    if not fired:
        print("NOT DETECTED by", " ".join(props))
    return 0


def confirm(seed):
    wt = tempfile.mkdtemp(prefix="seedwt_", dir="/tmp")
    os.rmdir(wt)
    try:
        r = sh("git -C /repo worktree add -q --detach %s HEAD" % wt)
        if r.returncode:
            print(r.stderr); return 2
        demos = sorted(glob.glob(os.path.join(seed, "demo*.py")))
        if not demos:
            print("no demo"); return 2
        demo = demos[0]
        def run_demo():
            if os.path.basename(demo).startswith("demo_test") or "def test_" in open(demo).read() and "__main__" not in open(demo).read():
                return sh("/venv/bin/python -m pytest -q -x -p no:cacheprovider %s --rootdir %s" % (demo, wt), cwd=wt, env=dict(os.environ, PYTHONPATH=wt, SEED_ROOT=wt))
            return sh("/venv/bin/python %s --root %s" % (demo, wt), cwd=wt, env=dict(os.environ, PYTHONPATH=wt))
        r0 = run_demo()
        a = sh("git -C %s apply %s" % (wt, os.path.join(seed, "patch.diff")))
        if a.returncode:
            print("patch does not apply on HEAD:", a.stderr[-300:]); return 2
        r1 = run_demo()
        print("demo without patch: rc=%d ; with patch: rc=%d" % (r0.returncode, r1.returncode))
        if r0.returncode != 0:
            print(r0.stdout[-600:], r0.stderr[-600:])
        b = sh("/venv/bin/python %s/tools/baseline.py %s" % (VERIF, wt))
        print("baseline with patch:", b.stdout.strip().splitlines()[0] if b.stdout.strip() else b.stderr[-300:])
        ok = r0.returncode == 0 and r1.returncode != 0 and b.returncode == 0
        print("CONFIRMED" if ok else "NOT CONFIRMED")
        return 0 if ok else 1
    finally:
        sh("git -C /repo worktree remove --force %s" % wt)
        shutil.rmtree(wt, ignore_errors=True)


if __name__ == "__main__":
    mode, seed = sys.argv[1], sys.argv[2].rstrip("/")
    if mode == "detect":
        sys.exit(detect(seed, sys.argv[3:] or claimed()))
    sys.exit(confirm(seed))
