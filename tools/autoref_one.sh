#!/bin/sh
# tools/autoref_one.sh <transform> <Cxx> [only-substring]: prints the check's report on the rewritten scratch copy (kept in /tmp/auto1_<transform>)
t=$1; p=$2; d=/tmp/auto1_$t
if [ ! -d $d ] || [ -n "$3" ]; then rm -rf $d && mkdir $d && git -C /repo archive HEAD nemoguardrails docs | tar -x -C $d && python3 /verif/tools/autorefactor.py $d $t $3 >/dev/null || exit 2; fi
cd /verif && ./check $p --tier quick --no-evidence --repo $d 2>&1 | grep -v '^KNOWN' | cut -c1-${W:-330}
