#!/usr/bin/env python3
"""Mechanical behaviour-preserving rewrites of every Python file of a scratch copy of the repository.
Used to look for false alarms of the checks (a rule that matched a spelling instead of the construct).

  tools/autorefactor.py <scratch_repo_dir> <transform> [only-substring]

transforms:
  rename-locals   every local variable (not a parameter, not global/nonlocal, not bound by import, function free of
                  locals()/vars()/eval/exec) of every function gets the suffix `_rn`
  swap-if         `if c: A else: B` -> `if not c: B else: A` for every if that has an else which is not an elif chain
  merge-if        `if a: if b: X` (no else on either) -> `if a and b: X`
  ret-temp        `return <expr>` -> `_rv = <expr>; return _rv` (expr not a constant/name)
  aug             `x += <number>` <-> `x = x + <number>` for plain names
  split-and       `if a and b: X` (no else) -> `if a: if b: X`
The files are rewritten with ast.unparse (so comments are lost, which is itself a layout change)."""
import ast, os, sys, pathlib

UNSAFE_CALLS = {"locals", "vars", "eval", "exec", "globals"}


def params_of(fn):
    a = fn.args
    out = {x.arg for x in a.posonlyargs + a.args + a.kwonlyargs}
    if a.vararg:
        out.add(a.vararg.arg)
    if a.kwarg:
        out.add(a.kwarg.arg)
    return out


class RenameLocals(ast.NodeTransformer):
    def _do(self, fn):
        # innermost first
        self.generic_visit(fn)
        body_nodes = [n for s in fn.body for n in ast.walk(s)]
        banned = set(params_of(fn))
        unsafe = False
        stores = set()
        for n in body_nodes:
            if isinstance(n, (ast.FunctionDef, ast.AsyncFunctionDef, ast.Lambda)):
                banned |= params_of(n)
                if not isinstance(n, ast.Lambda):
                    banned.add(n.name)
            elif isinstance(n, ast.ClassDef):
                unsafe = True
            elif isinstance(n, (ast.Global, ast.Nonlocal)):
                banned |= set(n.names)
            elif isinstance(n, (ast.Import, ast.ImportFrom)):
                for al in n.names:
                    banned.add((al.asname or al.name).split(".")[0])
            elif isinstance(n, ast.Call) and isinstance(n.func, ast.Name) and n.func.id in UNSAFE_CALLS:
                unsafe = True
            elif isinstance(n, ast.Name) and isinstance(n.ctx, (ast.Store, ast.Del)):
                stores.add(n.id)
            elif isinstance(n, ast.ExceptHandler) and n.name:
                banned.add(n.name)
            elif isinstance(n, ast.MatchAs) and n.name:
                banned.add(n.name)
            elif isinstance(n, ast.MatchStar) and n.name:
                banned.add(n.name)
            elif isinstance(n, ast.MatchMapping) and n.rest:
                banned.add(n.rest)
        if unsafe:
            return fn
        todo = {s for s in stores - banned if not s.startswith("zq") and not (s.startswith("__") and s.endswith("__")) and s != "_"}
        if not todo:
            return fn
        import zlib
        for n in body_nodes:
            if isinstance(n, ast.Name) and n.id in todo:
                n.id = "zq%x" % (zlib.crc32(n.id.encode()) & 0xFFFFFF)  # opaque: no substring of the old name survives
        return fn

    def visit_FunctionDef(self, node):
        return self._do(node)

    def visit_AsyncFunctionDef(self, node):
        return self._do(node)


class SwapIf(ast.NodeTransformer):
    def visit_If(self, node):
        self.generic_visit(node)
        if node.orelse and not (len(node.orelse) == 1 and isinstance(node.orelse[0], ast.If)):
            node.test = ast.UnaryOp(op=ast.Not(), operand=node.test)
            node.body, node.orelse = node.orelse, node.body
        return node


class MergeIf(ast.NodeTransformer):
    def visit_If(self, node):
        self.generic_visit(node)
        if not node.orelse and len(node.body) == 1 and isinstance(node.body[0], ast.If) and not node.body[0].orelse:
            inner = node.body[0]
            node.test = ast.BoolOp(op=ast.And(), values=[node.test, inner.test])
            node.body = inner.body
        return node


class SplitAnd(ast.NodeTransformer):
    def visit_If(self, node):
        self.generic_visit(node)
        if not node.orelse and isinstance(node.test, ast.BoolOp) and isinstance(node.test.op, ast.And) and len(node.test.values) == 2:
            a, b = node.test.values
            node.test = a
            node.body = [ast.If(test=b, body=node.body, orelse=[])]
        return node


class RetTemp(ast.NodeTransformer):
    def _body(self, stmts):
        out = []
        for s in stmts:
            if isinstance(s, ast.Return) and s.value is not None and not isinstance(s.value, (ast.Constant, ast.Name)):
                out.append(ast.Assign(targets=[ast.Name(id="_rv", ctx=ast.Store())], value=s.value, lineno=0))
                out.append(ast.Return(value=ast.Name(id="_rv", ctx=ast.Load())))
            else:
                out.append(s)
        return out

    def generic_visit(self, node):
        super().generic_visit(node)
        for f in ("body", "orelse", "finalbody"):
            v = getattr(node, f, None)
            if isinstance(v, list) and v and isinstance(v[0], ast.stmt):
                setattr(node, f, self._body(v))
        return node

    def visit_FunctionDef(self, node):
        # a function that already uses _rv or is a generator keeps its returns
        names = {n.id for n in ast.walk(node) if isinstance(n, ast.Name)}
        if "_rv" in names:
            return node
        return self.generic_visit(node)

    visit_AsyncFunctionDef = visit_FunctionDef


class Aug(ast.NodeTransformer):
    def visit_AugAssign(self, node):
        if isinstance(node.target, ast.Name) and isinstance(node.value, ast.Constant) and isinstance(node.value.value, (int, float)) \
                and not isinstance(node.value.value, bool) and isinstance(node.op, (ast.Add, ast.Sub)):
            return ast.Assign(targets=[ast.Name(id=node.target.id, ctx=ast.Store())],
                              value=ast.BinOp(left=ast.Name(id=node.target.id, ctx=ast.Load()), op=node.op, right=node.value), lineno=0)
        return node

    def visit_Assign(self, node):
        if len(node.targets) == 1 and isinstance(node.targets[0], ast.Name) and isinstance(node.value, ast.BinOp) \
                and isinstance(node.value.op, (ast.Add, ast.Sub)) and isinstance(node.value.left, ast.Name) \
                and node.value.left.id == node.targets[0].id and isinstance(node.value.right, ast.Constant) \
                and isinstance(node.value.right.value, (int, float)) and not isinstance(node.value.right.value, bool):
            return ast.AugAssign(target=ast.Name(id=node.targets[0].id, ctx=ast.Store()), op=node.value.op, value=node.value.right)
        return node



def _is_abrupt(stmts):
    return bool(stmts) and isinstance(stmts[-1], (ast.Return, ast.Continue, ast.Break, ast.Raise))


class GuardClause(ast.NodeTransformer):
    """trailing `if c: X` (no else) of a loop body -> `if not c: continue` + X ; of a function body (implicit None, no value returns) -> `if not c: return` + X"""
    def _do(self, stmts, leave):
        if stmts and isinstance(stmts[-1], ast.If) and not stmts[-1].orelse and len(stmts[-1].body) >= 2:
            i = stmts[-1]
            g = ast.If(test=ast.UnaryOp(op=ast.Not(), operand=i.test), body=[leave()], orelse=[])
            return stmts[:-1] + [g] + i.body
        return stmts

    def visit_For(self, node):
        self.generic_visit(node)
        if not node.orelse:
            node.body = self._do(node.body, ast.Continue)
        return node

    visit_While = visit_For

    def visit_FunctionDef(self, node):
        self.generic_visit(node)
        has_value_return = any(isinstance(n, ast.Return) and n.value is not None for n in ast.walk(node))
        is_gen = any(isinstance(n, (ast.Yield, ast.YieldFrom)) for n in ast.walk(node))
        if not has_value_return and not is_gen:
            node.body = self._do(node.body, lambda: ast.Return(value=None))
        return node

    visit_AsyncFunctionDef = visit_FunctionDef


class UnGuard(ast.NodeTransformer):
    """`if c: <abrupt>` followed by rest (no else) -> `if c: <abrupt> else: rest`"""
    def _do(self, stmts):
        for k, s in enumerate(stmts):
            if isinstance(s, ast.If) and not s.orelse and _is_abrupt(s.body) and k + 1 < len(stmts):
                s.orelse = self._do(stmts[k + 1:])
                return stmts[:k + 1]
        return stmts

    def generic_visit(self, node):
        super().generic_visit(node)
        for f in ("body", "orelse", "finalbody"):
            v = getattr(node, f, None)
            if isinstance(v, list) and v and isinstance(v[0], ast.stmt) and not isinstance(node, ast.If):
                setattr(node, f, self._do(v))
        return node


class UpdateToSubscript(ast.NodeTransformer):
    def visit_Expr(self, node):
        c = node.value
        if isinstance(c, ast.Call) and isinstance(c.func, ast.Attribute) and c.func.attr == "update" and len(c.args) == 1 and not c.keywords \
                and isinstance(c.args[0], ast.Dict) and c.args[0].keys and all(k is not None for k in c.args[0].keys) \
                and isinstance(c.func.value, (ast.Name, ast.Attribute)):
            return [ast.Assign(targets=[ast.Subscript(value=c.func.value, slice=k, ctx=ast.Store())], value=v, lineno=0) for k, v in zip(c.args[0].keys, c.args[0].values)]
        return node


class SubscriptToUpdate(ast.NodeTransformer):
    def visit_Assign(self, node):
        if len(node.targets) == 1 and isinstance(node.targets[0], ast.Subscript) and isinstance(node.targets[0].slice, ast.Constant) \
                and isinstance(node.targets[0].slice.value, str) and isinstance(node.targets[0].value, (ast.Name, ast.Attribute)):
            t = node.targets[0]
            return ast.Expr(value=ast.Call(func=ast.Attribute(value=t.value, attr="update", ctx=ast.Load()), args=[ast.Dict(keys=[t.slice], values=[node.value])], keywords=[]))
        return node


class IsinstanceTuple(ast.NodeTransformer):
    def visit_BoolOp(self, node):
        self.generic_visit(node)
        if isinstance(node.op, ast.Or) and all(isinstance(v, ast.Call) and isinstance(v.func, ast.Name) and v.func.id == "isinstance" and len(v.args) == 2 for v in node.values):
            first = ast.unparse(node.values[0].args[0])
            if all(ast.unparse(v.args[0]) == first for v in node.values) and isinstance(node.values[0].args[0], (ast.Name, ast.Attribute)):
                elts = []
                for v in node.values:
                    elts += v.args[1].elts if isinstance(v.args[1], ast.Tuple) else [v.args[1]]
                return ast.Call(func=ast.Name(id="isinstance", ctx=ast.Load()), args=[node.values[0].args[0], ast.Tuple(elts=elts, ctx=ast.Load())], keywords=[])
        return node


class DeMorgan(ast.NodeTransformer):
    def visit_UnaryOp(self, node):
        self.generic_visit(node)
        if isinstance(node.op, ast.Not) and isinstance(node.operand, ast.BoolOp):
            op = ast.And() if isinstance(node.operand.op, ast.Or) else ast.Or()
            return ast.BoolOp(op=op, values=[ast.UnaryOp(op=ast.Not(), operand=v) for v in node.operand.values])
        return node


class ReorderDefs(ast.NodeTransformer):
    """contiguous runs of undecorated function definitions (module level and in classes) are sorted by name, reversed"""
    def _do(self, body):
        out, run = [], []
        def flush():
            out.extend(sorted(run, key=lambda f: f.name, reverse=True))
            run.clear()
        for s in body:
            if isinstance(s, (ast.FunctionDef, ast.AsyncFunctionDef)) and not s.decorator_list:
                run.append(s)
            else:
                flush()
                out.append(s)
        flush()
        return out

    def visit_Module(self, node):
        self.generic_visit(node)
        node.body = self._do(node.body)
        return node

    def visit_ClassDef(self, node):
        self.generic_visit(node)
        node.body = self._do(node.body)
        return node


class HoistArg(ast.NodeTransformer):
    """`x = f(a.b.c, ...)` / `f(a.b.c, ...)` with f a plain name and the FIRST argument an attribute path -> `t = a.b.c` in front"""
    def __init__(self):
        self.k = 0

    def _do(self, stmts):
        out = []
        for s in stmts:
            c = s.value if isinstance(s, (ast.Expr, ast.Assign)) and isinstance(s.value, ast.Call) else None
            if c is not None and isinstance(c.func, ast.Name) and c.args and isinstance(c.args[0], ast.Attribute) and isinstance(c.args[0].value, (ast.Name, ast.Attribute)):
                self.k += 1
                nm = "tmp_arg%d" % self.k
                out.append(ast.Assign(targets=[ast.Name(id=nm, ctx=ast.Store())], value=c.args[0], lineno=0))
                c.args[0] = ast.Name(id=nm, ctx=ast.Load())
            out.append(s)
        return out

    def generic_visit(self, node):
        super().generic_visit(node)
        for f in ("body", "orelse", "finalbody"):
            v = getattr(node, f, None)
            if isinstance(v, list) and v and isinstance(v[0], ast.stmt) and not isinstance(node, (ast.Module, ast.ClassDef)):
                setattr(node, f, self._do(v))
        return node


class LoopToComprehension(ast.NodeTransformer):
    """`x = []` directly followed by `for a in b: x.append(e)` / `for a in b: if c: x.append(e)` -> list comprehension (loop variable not used afterwards is not checked:
    only applied when the target is a plain name that does not occur in e's iterable)"""
    def _do(self, stmts, later_names):
        out = []
        i = 0
        while i < len(stmts):
            s = stmts[i]
            nxt = stmts[i + 1] if i + 1 < len(stmts) else None
            if isinstance(s, ast.Assign) and len(s.targets) == 1 and isinstance(s.targets[0], ast.Name) and isinstance(s.value, ast.List) and not s.value.elts \
                    and isinstance(nxt, ast.For) and not nxt.orelse and isinstance(nxt.target, ast.Name) and len(nxt.body) == 1:
                x = s.targets[0].id
                b = nxt.body[0]
                cond = None
                if isinstance(b, ast.If) and not b.orelse and len(b.body) == 1:
                    cond, b = b.test, b.body[0]
                if isinstance(b, ast.Expr) and isinstance(b.value, ast.Call) and isinstance(b.value.func, ast.Attribute) and b.value.func.attr == "append" \
                        and isinstance(b.value.func.value, ast.Name) and b.value.func.value.id == x and len(b.value.args) == 1:
                    rest = stmts[i + 2:]
                    uses_later = any(isinstance(n, ast.Name) and n.id == nxt.target.id for r in rest for n in ast.walk(r)) or nxt.target.id in later_names
                    uses_x = any(isinstance(n, ast.Name) and n.id == x for n in ast.walk(nxt.iter)) or any(isinstance(n, ast.Name) and n.id == x for n in ast.walk(b.value.args[0])) \
                        or (cond is not None and any(isinstance(n, ast.Name) and n.id == x for n in ast.walk(cond)))
                    if not uses_later and not uses_x:
                        comp = ast.ListComp(elt=b.value.args[0], generators=[ast.comprehension(target=nxt.target, iter=nxt.iter, ifs=[cond] if cond is not None else [], is_async=0)])
                        out.append(ast.Assign(targets=[ast.Name(id=x, ctx=ast.Store())], value=comp, lineno=0))
                        i += 2
                        continue
            out.append(s)
            i += 1
        return out

    def visit_FunctionDef(self, node):
        self.generic_visit(node)
        # only straight-line function bodies at top level of the function (names used after in enclosing loops are not tracked)
        node.body = self._do(node.body, set())
        return node

    visit_AsyncFunctionDef = visit_FunctionDef


class ExtractHelper(ast.NodeTransformer):
    """Every top-level `for`/`if`/`while`/`with` statement of a function body that (a) contains no return/break/continue/yield/global/nonlocal/nested def/lambda,
    (b) binds no name that is read later in the function or is a parameter, is moved into a new module-level function `_xh<N>(<names it reads>)` and replaced by a call
    (`await` when the block awaits).  Names it reads = locals/parameters of the function (module names are reached through the global scope)."""
    def __init__(self):
        self.new = []
        self.k = 0

    depth = 0

    def _fn(self, node):
        self.depth += 1
        self.generic_visit(node)
        self.depth -= 1
        if self.depth > 0:      # nested function: its free names may belong to the enclosing function
            return node
        if any(isinstance(n, (ast.Yield, ast.YieldFrom)) for n in ast.walk(node)):
            return node
        params = params_of(node)
        local = set(params)
        for n in ast.walk(node):
            if isinstance(n, ast.Name) and isinstance(n.ctx, (ast.Store, ast.Del)):
                local.add(n.id)
            elif isinstance(n, ast.ExceptHandler) and n.name:
                local.add(n.name)
            elif isinstance(n, (ast.Import, ast.ImportFrom)):
                for al in n.names:
                    local.add((al.asname or al.name).split(".")[0])
            elif isinstance(n, (ast.FunctionDef, ast.AsyncFunctionDef, ast.ClassDef)) and n is not node:
                local.add(n.name)
        if any(isinstance(n, (ast.Global, ast.Nonlocal)) for n in ast.walk(node)):
            return node
        if any(isinstance(n, ast.Call) and isinstance(n.func, ast.Name) and n.func.id in UNSAFE_CALLS | {"super"} for n in ast.walk(node)):
            return node
        body = node.body
        out = []
        for i, s in enumerate(body):
            ok = isinstance(s, (ast.For, ast.If, ast.While, ast.With)) and i > 0
            if ok:
                for n in ast.walk(s):
                    if isinstance(n, (ast.Return, ast.Break, ast.Continue, ast.Yield, ast.YieldFrom, ast.FunctionDef, ast.AsyncFunctionDef, ast.Lambda, ast.ClassDef,
                                      ast.Import, ast.ImportFrom, ast.NamedExpr, ast.Try, ast.AsyncFor, ast.AsyncWith, ast.ListComp, ast.SetComp, ast.DictComp, ast.GeneratorExp)):
                        ok = False
                        break
            if ok and any(isinstance(n, ast.Attribute) and n.attr.startswith("__") and not n.attr.endswith("__") for n in ast.walk(s)):
                ok = False   # private names are mangled per class
            if ok:
                stores = {n.id for n in ast.walk(s) if isinstance(n, ast.Name) and isinstance(n.ctx, (ast.Store, ast.Del))}
                later = {n.id for r in body[i + 1:] for n in ast.walk(r) if isinstance(n, ast.Name)}
                # names bound in the block must be private to it: not read later, not parameters, not bound before (an earlier value could be read after the block)
                earlier = {n.id for r in body[:i] for n in ast.walk(r) if isinstance(n, ast.Name)}
                if stores & (later | set(params) | earlier):
                    ok = False
                loads = []
                for n in ast.walk(s):
                    if isinstance(n, ast.Name) and isinstance(n.ctx, ast.Load) and n.id in local and n.id not in stores and n.id not in loads:
                        loads.append(n.id)
                # a name both read and bound inside the block (loop carried) was excluded above through `stores`; reading a block-private name before binding is not possible
                if ok and len(loads) <= 8:
                    self.k += 1
                    name = "_xh%d" % self.k
                    is_async = any(isinstance(n, ast.Await) for n in ast.walk(s))
                    args = ast.arguments(posonlyargs=[], args=[ast.arg(arg=a) for a in loads], kwonlyargs=[], kw_defaults=[], defaults=[])
                    cls = ast.AsyncFunctionDef if is_async else ast.FunctionDef
                    self.new.append(cls(name=name, args=args, body=[s], decorator_list=[], lineno=0))
                    call = ast.Call(func=ast.Name(id=name, ctx=ast.Load()), args=[ast.Name(id=a, ctx=ast.Load()) for a in loads], keywords=[])
                    out.append(ast.Expr(value=ast.Await(value=call) if is_async else call))
                    continue
            out.append(s)
        node.body = out
        return node

    visit_FunctionDef = _fn
    visit_AsyncFunctionDef = _fn

    def visit_Module(self, node):
        self.generic_visit(node)
        # in front of the first definition (module-level code may call functions while the module is imported)
        idx = next((i for i, st in enumerate(node.body) if isinstance(st, (ast.FunctionDef, ast.AsyncFunctionDef, ast.ClassDef))), len(node.body))
        node.body = node.body[:idx] + self.new + node.body[idx:]
        return node

T = {"rename-locals": RenameLocals, "swap-if": SwapIf, "merge-if": MergeIf, "ret-temp": RetTemp, "aug": Aug, "split-and": SplitAnd, "guard": GuardClause, "unguard": UnGuard, "upd2sub": UpdateToSubscript, "sub2upd": SubscriptToUpdate,
     "isinst": IsinstanceTuple, "demorgan": DeMorgan, "reorder-defs": ReorderDefs, "hoist-arg": HoistArg, "loop2comp": LoopToComprehension, "extract": ExtractHelper}


def rename_private_functions(root, only=""):
    """Package-wide: every private (`_x`, not dunder) module-level function and method gets the suffix `_rnf`, with all references (names, attributes, imports).
    Names that also occur as a string constant, a keyword argument or a class/instance attribute that is not a method are left alone."""
    files = sorted(pathlib.Path(root, "nemoguardrails").rglob("*.py"))
    trees = {p: ast.parse(p.read_text()) for p in files}
    defs, banned = set(), set()
    for t in trees.values():
        for n in ast.walk(t):
            if isinstance(n, (ast.FunctionDef, ast.AsyncFunctionDef)) and n.name.startswith("_") and not n.name.startswith("__"):
                defs.add(n.name)
            elif isinstance(n, ast.Constant) and isinstance(n.value, str):
                banned.add(n.value)
                banned |= set(n.value.replace(".", " ").split())
            elif isinstance(n, ast.keyword) and n.arg:
                banned.add(n.arg)
            elif isinstance(n, ast.arg):
                banned.add(n.arg)
            elif isinstance(n, (ast.Assign, ast.AnnAssign, ast.AugAssign)):
                for tg in ([n.target] if not isinstance(n, ast.Assign) else n.targets):
                    for x in ast.walk(tg):
                        if isinstance(x, ast.Attribute):
                            banned.add(x.attr)
                        elif isinstance(x, ast.Name):
                            banned.add(x.id)
    # decorated functions (actions registered by name, lark callbacks found by getattr) keep their names; so do names used by the tests
    for t in trees.values():
        for n in ast.walk(t):
            if isinstance(n, (ast.FunctionDef, ast.AsyncFunctionDef)) and n.decorator_list:
                banned.add(n.name)
            if isinstance(n, ast.ClassDef) and any("Transformer" in ast.unparse(b) or "Visitor" in ast.unparse(b) for b in n.bases):
                for m in n.body:
                    if isinstance(m, (ast.FunctionDef, ast.AsyncFunctionDef)):
                        banned.add(m.name)
    for p in pathlib.Path(root, "tests").rglob("*.py"):
        try:
            for n in ast.walk(ast.parse(p.read_text())):
                if isinstance(n, ast.Name):
                    banned.add(n.id)
                elif isinstance(n, ast.Attribute):
                    banned.add(n.attr)
                elif isinstance(n, ast.alias):
                    banned.add(n.name.split(".")[-1])
                elif isinstance(n, ast.Constant) and isinstance(n.value, str):
                    banned |= set(n.value.replace(".", " ").split())
        except SyntaxError:
            pass
    todo = defs - banned
    k = 0
    for p, t in trees.items():
        if only and only not in str(p):
            pass
        for n in ast.walk(t):
            if isinstance(n, (ast.FunctionDef, ast.AsyncFunctionDef)) and n.name in todo:
                n.name += "_rnf"; k += 1
            elif isinstance(n, ast.Name) and n.id in todo:
                n.id += "_rnf"
            elif isinstance(n, ast.Attribute) and n.attr in todo:
                n.attr += "_rnf"
            elif isinstance(n, ast.alias) and n.name in todo:
                n.name += "_rnf"
        new = ast.unparse(t) + "\n"
        compile(new, str(p), "exec")
        p.write_text(new)
    print("rename-funcs: %d definitions renamed (%d candidates)" % (k, len(todo)))

if __name__ == "__main__":
    root, tname = sys.argv[1], sys.argv[2]
    only = sys.argv[3] if len(sys.argv) > 3 else ""
    if tname == "rename-funcs":
        rename_private_functions(root, only)
        sys.exit(0)
    n = 0
    for p in sorted(pathlib.Path(root, "nemoguardrails").rglob("*.py")):
        if only and only not in str(p):
            continue
        src = p.read_text()
        tree = ast.parse(src)
        tree = T[tname]().visit(tree)
        ast.fix_missing_locations(tree)
        new = ast.unparse(tree) + "\n"
        compile(new, str(p), "exec")
        p.write_text(new)
        n += 1
    print("%s: %d files rewritten" % (tname, n))
