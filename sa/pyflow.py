"""Reaching definitions / def-use per function and forward may-taint over the CFG.

Alias-light: names, attributes of self, subscripts with constant string keys.
"""
import ast

from .pycfg import CFG, walk_no_nested
from .source import src


def key_of(e):
    """Pseudo-variable key for an lvalue / rvalue expression, or None."""
    if isinstance(e, ast.Name):
        return e.id
    if isinstance(e, ast.Attribute):
        b = key_of(e.value)
        return None if b is None else b + "." + e.attr
    if isinstance(e, ast.Subscript):
        b = key_of(e.value)
        s = e.slice
        if b is not None and isinstance(s, ast.Constant) and isinstance(s.value, (str, int)):
            return "%s[%r]" % (b, s.value)
    return None


def assigned_keys(node):
    """Keys (re)defined by a CFG node's statement: [(key, value expr or None)]."""
    s = node.ast
    out = []

    def tgt(t, v):
        if isinstance(t, (ast.Tuple, ast.List)):
            for i, el in enumerate(t.elts):
                vv = None
                if isinstance(v, (ast.Tuple, ast.List)) and len(v.elts) == len(t.elts):
                    vv = v.elts[i]
                else:
                    vv = v
                tgt(el, vv)
        elif isinstance(t, ast.Starred):
            tgt(t.value, v)
        else:
            k = key_of(t)
            if k is not None:
                out.append((k, v))

    if node.kind == "stmt":
        if isinstance(s, ast.Assign):
            for t in s.targets:
                tgt(t, s.value)
        elif isinstance(s, ast.AnnAssign) and s.value is not None:
            tgt(s.target, s.value)
        elif isinstance(s, ast.AugAssign):
            tgt(s.target, s)
        elif isinstance(s, (ast.Import, ast.ImportFrom)):
            for a in s.names:
                out.append(((a.asname or a.name).split(".")[0], None))
        elif isinstance(s, (ast.FunctionDef, ast.AsyncFunctionDef, ast.ClassDef)):
            out.append((s.name, None))
    elif node.kind == "test":
        st = node.stmt
        if isinstance(st, (ast.For, ast.AsyncFor)) and node.ast is st.iter:
            tgt(st.target, st.iter)
        elif isinstance(st, (ast.With, ast.AsyncWith)):
            for it in st.items:
                if it.context_expr is node.ast and it.optional_vars is not None:
                    tgt(it.optional_vars, it.context_expr)
    elif node.kind == "handler":
        if node.ast.name:
            out.append((node.ast.name, None))
    # walrus
    if node.ast is not None and node.kind in ("stmt", "test"):
        for n in walk_no_nested(node.ast):
            if isinstance(n, ast.NamedExpr):
                out.append((n.target.id, n.value))
    return out


class ReachingDefs:
    def __init__(self, cfg):
        self.cfg = cfg
        self.gen = {}
        for n in cfg.nodes:
            self.gen[n] = assigned_keys(n) if n.ast is not None else []
        params = []
        a = cfg.fn.args
        for p in a.posonlyargs + a.args + a.kwonlyargs:
            params.append(p.arg)
        if a.vararg:
            params.append(a.vararg.arg)
        if a.kwarg:
            params.append(a.kwarg.arg)
        self.params = params
        IN = {n: frozenset() for n in cfg.nodes}
        OUT = {n: frozenset() for n in cfg.nodes}
        OUT[cfg.entry] = frozenset((p, cfg.entry) for p in params)
        changed = True
        while changed:
            changed = False
            for n in cfg.nodes:
                if n is cfg.entry:
                    continue
                i = frozenset().union(*(OUT[p] for p, _ in n.pred)) if n.pred else frozenset()
                ks = {k for k, _ in self.gen[n]}
                o = frozenset(d for d in i if not _killed(d[0], ks)) | frozenset((k, n) for k in ks)
                if i != IN[n] or o != OUT[n]:
                    IN[n], OUT[n] = i, o
                    changed = True
        self.IN, self.OUT = IN, OUT

    def reaching(self, node, key):
        """Definition nodes of `key` that reach the entry of node."""
        return {d for k, d in self.IN[node] if k == key}

    def single_def(self, node, key):
        r = self.reaching(node, key)
        return next(iter(r)) if len(r) == 1 else None

    def value_of(self, node, key):
        """The unique RHS expression defining key at node, or None."""
        d = self.single_def(node, key)
        if d is None or d is self.cfg.entry:
            return None
        for k, v in self.gen[d]:
            if k == key:
                return v
        return None


def _killed(k, ks):
    if k in ks:
        return True
    # redefining the base kills derived pseudo-variables (x kills x.a and x['k'])
    for b in ks:
        if k.startswith(b + ".") or k.startswith(b + "["):
            return True
    return False


class Taint:
    """Forward may-taint over a function's CFG.

    is_source(call) -> bool ; sanitizers: callee last-names whose result is clean;
    summaries: {callee last-name: set(param indexes/names that flow to return) | True}
    Unknown calls propagate taint from any argument or from the receiver (conservative).
    """

    STR_NEUTRAL = {"len", "isinstance", "bool", "int", "float", "id", "type", "hash", "range", "enumerate_index"}

    def __init__(self, cfg, is_source, sanitizers=(), clean_calls=(), tainted_params=(), source_expr=None):
        self.cfg = cfg
        self.is_source = is_source
        self.source_expr = source_expr
        self.sanitizers = set(sanitizers)
        self.clean_calls = set(clean_calls) | self.STR_NEUTRAL
        self.state_in = {n: frozenset() for n in cfg.nodes}
        self.state_out = {n: frozenset() for n in cfg.nodes}
        self.state_out[cfg.entry] = frozenset(tainted_params)
        changed = True
        it = 0
        while changed and it < 50:
            it += 1
            changed = False
            for n in cfg.nodes:
                if n is cfg.entry:
                    continue
                i = frozenset().union(*(self.state_out[p] for p, _ in n.pred)) if n.pred else frozenset()
                o = self._transfer(n, i)
                if i != self.state_in[n] or o != self.state_out[n]:
                    self.state_in[n], self.state_out[n] = i, o
                    changed = True

    def _transfer(self, n, st):
        if n.ast is None:
            return st
        st = set(st)
        for k, v in assigned_keys(n):
            if v is None:
                st.discard(k)
                continue
            t = self.expr_tainted(v, st)
            if isinstance(n.ast, ast.AugAssign) and k in st:
                t = True
            if t:
                st.add(k)
            else:
                # strong update for plain names only
                if "." not in k and "[" not in k:
                    for x in [x for x in st if x == k or x.startswith(k + ".") or x.startswith(k + "[")]:
                        st.discard(x)
                else:
                    st.discard(k)
        # mutation through methods: x.append(tainted) / x.update(tainted) / x[k] = tainted
        if n.kind == "stmt" and isinstance(n.ast, ast.Expr) and isinstance(n.ast.value, ast.Call):
            c = n.ast.value
            if isinstance(c.func, ast.Attribute) and c.func.attr in ("append", "extend", "update", "insert", "add", "setdefault"):
                if any(self.expr_tainted(a, st) for a in c.args) or any(self.expr_tainted(k.value, st) for k in c.keywords):
                    k = key_of(c.func.value)
                    if k:
                        st.add(k)
        if n.kind == "stmt" and isinstance(n.ast, ast.Assign):
            for t in n.ast.targets:
                if isinstance(t, ast.Subscript) and key_of(t) is None:
                    if self.expr_tainted(n.ast.value, st):
                        k = key_of(t.value)
                        if k:
                            st.add(k)
        return frozenset(st)

    def expr_tainted(self, e, st):
        if e is None:
            return False
        if self.source_expr is not None and self.source_expr(e):
            return True
        if isinstance(e, ast.Call):
            if self.is_source(e):
                return True
            last = e.func.attr if isinstance(e.func, ast.Attribute) else (e.func.id if isinstance(e.func, ast.Name) else None)
            if last in self.sanitizers or last in self.clean_calls:
                return False
            if isinstance(e.func, ast.Attribute) and self.expr_tainted(e.func.value, st):
                return True
            return any(self.expr_tainted(a, st) for a in e.args) or any(self.expr_tainted(k.value, st) for k in e.keywords)
        if isinstance(e, ast.Await):
            return self.expr_tainted(e.value, st)
        k = key_of(e)
        if k is not None:
            if k in st:
                return True
            # x.a tainted when x tainted
            parts = k
            while True:
                cut = max(parts.rfind("."), parts.rfind("["))
                if cut <= 0:
                    break
                parts = parts[:cut]
                if parts in st:
                    return True
            if isinstance(e, ast.Name):
                return False
        if isinstance(e, (ast.Constant,)):
            return False
        if isinstance(e, ast.Compare):
            return False  # a boolean carries no text
        if isinstance(e, (ast.Lambda,)):
            return False
        for ch in ast.iter_child_nodes(e):
            if isinstance(ch, (ast.expr_context, ast.operator, ast.boolop, ast.unaryop, ast.cmpop)):
                continue
            if isinstance(ch, ast.comprehension):
                if self.expr_tainted(ch.iter, st):
                    return True
                continue
            if isinstance(ch, ast.keyword):
                if self.expr_tainted(ch.value, st):
                    return True
                continue
            if isinstance(ch, ast.expr) and self.expr_tainted(ch, st):
                return True
        return False

    def tainted_at(self, node, expr):
        return self.expr_tainted(expr, set(self.state_in[node]))
