"""Independent structural front-end for Colang 2.x source (see DESIGN.md 1.2)."""
import re

from .cobase import Flow, Stmt, block_tree, logical_lines, split_call

SPEC_OPS = ("match", "send", "start", "await", "activate", "deactivate", "stop")


def parse(text, file="<v2>"):
    """-> (flows: [Flow], imports: [str])"""
    tops = block_tree(logical_lines(text, continuation_words=("or", "and")))
    flows, imports = [], []
    decos = []
    for top in tops:
        t = top.text.strip()
        if t.startswith("@"):
            decos.append(t)
            continue
        m = re.match(r"^import\s+(.*)$", t)
        if m:
            imports.append(m.group(1).strip())
            continue
        m = re.match(r"^flow\s+(.*)$", t.rstrip(":"))
        if m:
            head = m.group(1)
            rets = []
            if "->" in head:
                head, r = head.split("->", 1)
                rets = [x.strip().lstrip("$") for x in r.split(",")]
            mm = re.match(r"^([^$]*?)\s*(\$.*)?$", head.strip())
            name = mm.group(1).strip()
            params = []
            if mm.group(2):
                for p in re.findall(r"\$([A-Za-z_]\w*)(?:\s*=\s*((?:\"[^\"]*\"|'[^']*'|\S)+))?", mm.group(2)):
                    params.append((p[0], p[1] or None))
            f = Flow(name, "flow", file, top.lineno, "2.x", params=params, returns=rets, decorators=decos)
            decos = []
            f.body = _block(top.children)
            flows.append(f)
            continue
        decos = []
        f = Flow("<toplevel>", "unknown-define", file, top.lineno, "2.x")
        f.body = [Stmt("unknown", t, top.lineno)]
        flows.append(f)
    return flows, imports


def _strip_colon(t):
    return t[:-1].rstrip() if t.endswith(":") else t


def _block(lines):
    out = []
    i = 0
    while i < len(lines):
        ln = lines[i]
        t = ln.text.strip()
        tt = _strip_colon(t)
        m = re.match(r"^if\s+(.*)$", tt)
        if m:
            branches = [(m.group(1), _block(ln.children))]
            j = i + 1
            while j < len(lines):
                t2 = _strip_colon(lines[j].text.strip())
                m2 = re.match(r"^(?:else\s+if|elif)\s+(.*)$", t2)
                if m2:
                    branches.append((m2.group(1), _block(lines[j].children)))
                    j += 1
                    continue
                if t2 == "else":
                    branches.append((None, _block(lines[j].children)))
                    j += 1
                break
            out.append(Stmt("if", t, ln.lineno, branches=branches))
            i = j
            continue
        m = re.match(r"^while\s+(.*)$", tt)
        if m:
            out.append(Stmt("while", t, ln.lineno, cond=m.group(1), body=_block(ln.children)))
            i += 1
            continue
        m = re.match(r"^when\s+(.*)$", tt)
        if m:
            cases = [(m.group(1), _block(ln.children))]
            orelse = None
            j = i + 1
            while j < len(lines):
                t2 = _strip_colon(lines[j].text.strip())
                m2 = re.match(r"^(?:or\s+when)\s+(.*)$", t2)
                if m2:
                    cases.append((m2.group(1), _block(lines[j].children)))
                    j += 1
                    continue
                if t2 == "else":
                    orelse = _block(lines[j].children)
                    j += 1
                break
            out.append(Stmt("when", t, ln.lineno, branches=cases, orelse=orelse))
            i = j
            continue
        if re.match(r"^(else|elif|else\s+if|or\s+when)\b", tt):
            out.append(Stmt("unknown", t, ln.lineno, body=_block(ln.children)))
            i += 1
            continue
        s = _simple(t, ln)
        if ln.children and s.kind != "unknown":
            # a simple statement with an indented block below it is not something we model
            s = Stmt("unknown", t, ln.lineno, body=_block(ln.children))
        out.append(s)
        i += 1
    return out


def _ref_split(t):
    m = re.match(r"^(.*?)\s+as\s+\$([A-Za-z_]\w*)\s*$", t, re.S)
    if m and m.group(1).count('"') % 2 == 0:
        return m.group(1), m.group(2)
    return t, None


def _simple(t, ln):
    L = ln.lineno
    m = re.match(r"^\$([A-Za-z_]\w*)\s*=\s*(.*)$", t, re.S)
    if m and not m.group(2).startswith("="):
        rhs = m.group(2).strip()
        m2 = re.match(r"^(%s)\s+(.*)$" % "|".join(SPEC_OPS), rhs, re.S)
        if m2:
            spec, ref = _ref_split(m2.group(2))
            name, args = split_call(spec)
            return Stmt("assign", t, L, target=m.group(1), op=m2.group(1), name=name, args=args, expr=spec, ref=ref)
        if rhs.startswith("..."):
            return Stmt("assign", t, L, target=m.group(1), op="nld", expr=rhs)
        return Stmt("assign", t, L, target=m.group(1), expr=rhs)
    m = re.match(r"^(%s)\s+(.*)$" % "|".join(SPEC_OPS), t, re.S)
    if m:
        spec, ref = _ref_split(m.group(2))
        name, args = split_call(spec)
        return Stmt(m.group(1), t, L, name=name, args=args, expr=spec, ref=ref)
    m = re.match(r"^global\s+\$([A-Za-z_]\w*)$", t)
    if m:
        return Stmt("global", t, L, target=m.group(1))
    m = re.match(r"^return\b\s*(.*)$", t)
    if m:
        return Stmt("return", t, L, expr=m.group(1) or None)
    if t in ("abort", "break", "continue", "pass"):
        return Stmt(t, t, L)
    m = re.match(r"^(log|print|priority)\s+(.*)$", t, re.S)
    if m:
        return Stmt(m.group(1), t, L, expr=m.group(2))
    if re.match(r"^[A-Za-z_]", t) and not re.match(r"^(flow|import|define|else|elif|or|and|when|if|while|for|in|not|is)\b", t):
        # bare flow / action invocation (= await)
        spec, ref = _ref_split(t)
        name, args = split_call(spec)
        return Stmt("call", t, L, name=name, args=args, expr=spec, ref=ref)
    return Stmt("unknown", t, L)


def flow_call_name(stmt):
    """For call/await/start of a *flow* (lowercase words): the flow name without
    parameters; None for actions/events (CamelCase with parentheses or dotted)."""
    if stmt.kind not in ("call", "await", "start", "activate", "assign") or not stmt.expr:
        return None
    spec = stmt.expr.strip()
    if " or " in spec or " and " in spec:
        return None
    name = spec
    # cut at first parameter: $var, quoted string, number, or parenthesis
    m = re.match(r"^([A-Za-z_][\w ]*?)(?:\s+(?:\$|\"|'|\d|\(|\[|\{).*|\s*\(.*)?$", name, re.S)
    if not m:
        return None
    name = m.group(1).strip()
    if re.match(r"^[A-Z]", name) and " " not in name:
        return None  # CamelCase: action or event
    return name


def is_action_call(stmt):
    if not stmt.expr:
        return False
    n = stmt.expr.strip().split("(")[0].strip()
    return bool(re.match(r"^[A-Z]\w*Action$", n.split(".")[0])) or bool(re.match(r"^[A-Z]\w*$", n))


def awaits_flow(stmt, name):
    """Does the statement wait for flow `name` (await/bare call/`$x = await`, or a `when`
    whose case spec is that flow)?"""
    if stmt.kind in ("await", "call") or (stmt.kind == "assign" and stmt.op == "await"):
        return flow_call_name(stmt) == name
    if stmt.kind == "when":
        for spec, _ in stmt.branches:
            sp = spec.strip()
            if sp == name or sp.startswith(name + " ") or sp.startswith(name + "("):
                return True
    return False
