"""Following extracted helpers: a function that did not exist when the rules were confirmed against the code is a *wrapper* around statements that
used to stand at its call sites.  The rules state facts about those statements in the context they run in ("_abort_flow stops the unfinished actions
before it pushes the terminal event"), so the analysis looks through the wrapper: every call of such a new module-level function or method, made as a
statement of its own (`helper(a, b)`, `x = helper(a, b)`, `return helper(a, b)`), is replaced - in the syntax tree the rules see, never on disk - by the
helper's body with the parameters bound to the arguments.

Faithfulness of the view: parameters that the helper never rebinds and whose argument is a side-effect-free access path (names, attributes, constant
subscripts, constants) are substituted; every other parameter is bound by an assignment in front of the body; the helper's own locals are renamed when
they would collide with the caller's; `return` is eliminated structurally (`if c: return e` + rest  ->  `if c: x = e` / `else: rest`).  A helper with a
`return` inside a loop/try/with, with `yield`, decorators (other than none), *args/**kwargs, nested scopes that capture, or recursion is left alone -
the call then stays a call, and the rules treat it as they treat any call.

Which functions are "new" is read from the table of sa/localnames.json (the functions of the tree the rules were confirmed against).  Without a table
nothing is inlined."""
import ast
import copy

from . import localnames

_LOOPS = (ast.For, ast.AsyncFor, ast.While, ast.Try, ast.With, ast.AsyncWith, ast.Match)


class _GiveUp(Exception):
    pass


def clone(node):
    """Fresh copy without the parent links (a deep copy would drag the whole module along)."""
    if isinstance(node, ast.expr):
        return ast.parse(ast.unparse(node), mode="eval").body
    return ast.parse(ast.unparse(node)).body[0]


def _always_returns(stmts):
    for s in stmts:
        if isinstance(s, (ast.Return, ast.Raise)):
            return True
        if isinstance(s, ast.If) and s.orelse and _always_returns(s.body) and _always_returns(s.orelse):
            return True
    return False


def _has_return(node):
    for n in ast.walk(node):
        if isinstance(n, ast.Return):
            return True
    return False


def _eliminate_returns(stmts, target, as_return):
    """Statement list without `return`: `return e` becomes `target = e` (or stays a return when the call itself was returned)."""
    out = []
    for i, s in enumerate(stmts):
        if isinstance(s, ast.Return):
            if as_return:
                out.append(s)
            elif target is not None:
                out.append(ast.Assign(targets=[clone(target)], value=s.value if s.value is not None else ast.Constant(value=None), lineno=s.lineno, col_offset=0))
            elif s.value is not None and not isinstance(s.value, (ast.Constant, ast.Name)):
                out.append(ast.Expr(value=s.value, lineno=s.lineno, col_offset=0))
            return out
        if isinstance(s, (ast.FunctionDef, ast.AsyncFunctionDef, ast.ClassDef)):
            if _has_return(s):
                # a return of a nested function is not ours
                pass
            out.append(s)
            continue
        if not _has_return(s):
            out.append(s)
            continue
        if isinstance(s, ast.If):
            rest = stmts[i + 1:]
            body_ret, else_ret = _always_returns(s.body), _always_returns(s.orelse) if s.orelse else False
            if as_return:
                out.append(s)
                continue
            if body_ret and not _has_return_list(s.orelse):
                new = ast.If(test=s.test, body=_eliminate_returns(s.body, target, as_return) or [ast.Pass()],
                             orelse=_eliminate_returns(list(s.orelse) + rest, target, as_return), lineno=s.lineno, col_offset=0)
                out.append(new)
                return out
            if else_ret and not _has_return_list(s.body):
                new = ast.If(test=s.test, body=_eliminate_returns(list(s.body) + rest, target, as_return) or [ast.Pass()],
                             orelse=_eliminate_returns(s.orelse, target, as_return), lineno=s.lineno, col_offset=0)
                out.append(new)
                return out
            if body_ret and else_ret:
                out.append(ast.If(test=s.test, body=_eliminate_returns(s.body, target, as_return) or [ast.Pass()],
                                  orelse=_eliminate_returns(s.orelse, target, as_return), lineno=s.lineno, col_offset=0))
                return out
            if body_ret:
                # else part has returns as well, but not on every path
                raise _GiveUp()
            raise _GiveUp()
        raise _GiveUp()  # return inside a loop / try / with
    return out


def _has_return_list(stmts):
    return any(_has_return(s) for s in stmts or [])


def _pure_path(e):
    if isinstance(e, (ast.Name, ast.Constant)):
        return True
    if isinstance(e, ast.Attribute):
        return _pure_path(e.value)
    if isinstance(e, ast.Subscript):
        return _pure_path(e.value) and isinstance(e.slice, ast.Constant)
    return False


def _inlinable(fn):
    if fn.decorator_list and not all(isinstance(d, ast.Name) and d.id in ("staticmethod",) for d in fn.decorator_list):
        return False
    if isinstance(fn, ast.AsyncFunctionDef):
        return False
    a = fn.args
    if a.vararg or a.kwarg or a.posonlyargs:
        return False
    for n in ast.walk(fn):
        if isinstance(n, (ast.Yield, ast.YieldFrom, ast.Global, ast.Nonlocal, ast.Lambda)):
            return False
        if n is not fn and isinstance(n, (ast.FunctionDef, ast.AsyncFunctionDef, ast.ClassDef)):
            return False
        if isinstance(n, ast.Call) and isinstance(n.func, ast.Name) and n.func.id in (fn.name, "locals", "vars", "eval", "exec"):
            return False
    return True


def _bind(fn, call, is_method):
    """parameter -> argument expression, or None when the call does not fit the signature."""
    params = [x.arg for x in fn.args.args]
    defaults = dict(zip(params[len(params) - len(fn.args.defaults):], fn.args.defaults))
    kwonly = {x.arg: d for x, d in zip(fn.args.kwonlyargs, fn.args.kw_defaults)}
    bound = {}
    args = list(call.args)
    if any(isinstance(x, ast.Starred) for x in args) or any(k.arg is None for k in call.keywords):
        return None
    pos = params[1:] if is_method else params
    if is_method:
        bound[params[0]] = call.func.value
    if len(args) > len(pos):
        return None
    for p, v in zip(pos, args):
        bound[p] = v
    for k in call.keywords:
        if k.arg in bound or (k.arg not in params and k.arg not in kwonly):
            return None
        bound[k.arg] = k.value
    for p in params:
        if p not in bound:
            if p in defaults:
                bound[p] = defaults[p]
            else:
                return None
    for p, d in kwonly.items():
        if p not in bound:
            if d is None:
                return None
            bound[p] = d
    return bound


def _instantiate(fn, call, caller_names, target, as_return, is_method, counter):
    bound = _bind(fn, call, is_method)
    if bound is None:
        return None
    body = clone(fn).body
    # drop the docstring
    if body and isinstance(body[0], ast.Expr) and isinstance(body[0].value, ast.Constant) and isinstance(body[0].value.value, str):
        body = body[1:]
    holder = ast.Module(body=body, type_ignores=[])
    stored = {n.id for n in ast.walk(holder) if isinstance(n, ast.Name) and isinstance(n.ctx, (ast.Store, ast.Del))}
    stored |= {n.name for n in ast.walk(holder) if isinstance(n, ast.ExceptHandler) and n.name}
    ren = {}
    pre = []
    subst = {}
    for p, v in bound.items():
        if isinstance(v, ast.Name) and v.id == p and p not in stored:
            continue
        if p not in stored and _pure_path(v):
            subst[p] = v
        else:
            newp = p
            if p in caller_names:
                newp = "%s__in%d" % (p, counter)
                ren[p] = newp
            pre.append(ast.Assign(targets=[ast.Name(id=newp, ctx=ast.Store())], value=clone(v), lineno=call.lineno, col_offset=0))
    params = set(bound)
    for loc in stored - params:
        if loc in caller_names:
            ren[loc] = "%s__in%d" % (loc, counter)

    class T(ast.NodeTransformer):
        def visit_Name(self, n):
            if n.id in subst and isinstance(n.ctx, ast.Load):
                return clone(subst[n.id])
            if n.id in ren:
                n.id = ren[n.id]
            return n

        def visit_ExceptHandler(self, n):
            self.generic_visit(n)
            if n.name in ren:
                n.name = ren[n.name]
            return n

    holder = T().visit(holder)
    if as_return:
        body = holder.body  # the helper's returns are the caller's returns
        if not _always_returns(body):
            body = body + [ast.Return(value=ast.Constant(value=None), lineno=call.lineno, col_offset=0)]
    else:
        try:
            body = _eliminate_returns(holder.body, target, False)
        except _GiveUp:
            return None
        if target is not None and not _always_returns(holder.body):
            # falling off the end returns None; put the default first so that every path assigns
            body = [ast.Assign(targets=[clone(target)], value=ast.Constant(value=None), lineno=call.lineno, col_offset=0)] + body
    out = pre + body
    if not out:
        out = [ast.Pass()]
    # inlined statements sit at the call site; `_inl_seq` orders them among themselves (line numbers are made distinct by `_renumber` at the end)
    for s in out:
        for n in ast.walk(s):
            if hasattr(n, "lineno") or isinstance(n, (ast.stmt, ast.expr)):
                n.lineno = call.lineno
                n.end_lineno = call.lineno
                n.col_offset = 0
                n.end_col_offset = 0
            n._inlined_from = fn.name
            n._inl_call = getattr(call, "_inl_call", None) or call
    return out


SCALE = 1000


def _renumber(tree):
    """After inlining, several statements share the line of their call site.  Rules compare line numbers to decide "before/after", so every line number of the file is
    multiplied by SCALE and the inlined statements get call_line * SCALE + k in their textual order (reports divide by SCALE again, see report.Ctx)."""
    counters = {}

    def preorder(node):
        yield node
        for ch in ast.iter_child_nodes(node):
            for x in preorder(ch):
                yield x

    for n in preorder(tree):
        if getattr(n, "_scaled", False):
            continue
        if hasattr(n, "lineno") and n.lineno is not None:
            base = n.lineno * SCALE
            if getattr(n, "_inlined_from", None) is not None:
                k = counters.get(n.lineno, 0) + 1
                counters[n.lineno] = k
                base += min(k, SCALE - 1)
            n.lineno = base
            if getattr(n, "end_lineno", None) is not None:
                n.end_lineno = max(n.end_lineno * SCALE, base) if getattr(n, "_inlined_from", None) is None else base
            n._scaled = True


def _reparent(tree):
    for node in ast.walk(tree):
        for ch in ast.iter_child_nodes(node):
            ch._parent = node
    tree._parent = None


def inline_new_helpers(tree, rel, max_rounds=3):
    """Inline the calls of functions that the reference table does not know.  Returns the list of (caller, helper, line) inlinings made."""
    tab = localnames.load_table().get(rel)
    if not tab:
        return []
    done = []
    all_new = {}
    for _ in range(max_rounds):
        _reparent(tree)
        new_fns = {}
        for fn in ast.walk(tree):
            if isinstance(fn, (ast.FunctionDef, ast.AsyncFunctionDef)):
                path = localnames.fn_path(fn)
                par = getattr(fn, "_parent", None)
                if path not in tab and isinstance(par, (ast.Module, ast.ClassDef)) and _inlinable(fn):
                    new_fns.setdefault((par.name if isinstance(par, ast.ClassDef) else None, fn.name), fn)
        if not new_fns:
            break
        all_new.update(new_fns)
        changed = False
        counter = [len(done)]
        for caller in [f for f in ast.walk(tree) if isinstance(f, (ast.FunctionDef, ast.AsyncFunctionDef))]:
            if any(caller is h for h in new_fns.values()) and False:
                continue
            cls = getattr(caller, "_parent", None)
            cls_name = cls.name if isinstance(cls, ast.ClassDef) else None
            caller_names = {n.id for n in ast.walk(caller) if isinstance(n, ast.Name)} | {a.arg for a in ast.walk(caller) if isinstance(a, ast.arg)}

            def resolve(call):
                if not isinstance(call, ast.Call):
                    return None, False
                f = call.func
                if isinstance(f, ast.Name) and (None, f.id) in new_fns:
                    return new_fns[(None, f.id)], False
                if isinstance(f, ast.Attribute) and isinstance(f.value, ast.Name) and f.value.id == "self" and cls_name is not None and (cls_name, f.attr) in new_fns:
                    h = new_fns[(cls_name, f.attr)]
                    if any(isinstance(d, ast.Name) and d.id == "staticmethod" for d in h.decorator_list):
                        return None, False
                    return h, True
                return None, False

            def rewrite(stmts):
                nonlocal changed
                out = []
                for s in stmts:
                    for f in ("body", "orelse", "finalbody"):
                        v = getattr(s, f, None)
                        if isinstance(v, list) and v and isinstance(v[0], ast.stmt) and not isinstance(s, (ast.FunctionDef, ast.AsyncFunctionDef, ast.ClassDef)):
                            setattr(s, f, rewrite(v))
                    if isinstance(s, ast.Try):
                        for h in s.handlers:
                            h.body = rewrite(h.body)
                    if isinstance(s, ast.Match):
                        for c in s.cases:
                            c.body = rewrite(c.body)
                    call, target, as_return = None, None, False
                    if isinstance(s, ast.Expr) and isinstance(s.value, ast.Call):
                        call = s.value
                    elif isinstance(s, ast.Assign) and len(s.targets) == 1 and isinstance(s.value, ast.Call):
                        call, target = s.value, s.targets[0]
                    elif isinstance(s, ast.Return) and isinstance(s.value, ast.Call):
                        call, as_return = s.value, True
                    helper, is_method = resolve(call)
                    if helper is None or helper is caller:
                        out.append(s)
                        continue
                    counter[0] += 1
                    inl = _instantiate(helper, call, caller_names, target, as_return, is_method, counter[0])
                    if inl is None:
                        out.append(s)
                        continue
                    changed = True
                    done.append((localnames.fn_path(caller), helper.name, call.lineno))
                    out.extend(inl)
                return out

            caller.body = rewrite(caller.body)
        if not changed:
            break
    if done:
        # a helper whose every call was inlined is no longer part of the view (its statements would otherwise be counted twice)
        _reparent(tree)
        for (cls, name), h in list(all_new.items()):
            refs = [n for n in ast.walk(tree) if (isinstance(n, ast.Name) and n.id == name) or (isinstance(n, ast.Attribute) and n.attr == name)]
            par = getattr(h, "_parent", None)
            if not refs and par is not None and h in getattr(par, "body", []):
                par.body.remove(h)
                if not par.body:
                    par.body.append(ast.Pass())
        ast.fix_missing_locations(tree)
        _reparent(tree)
        _renumber(tree)
    return done
