"""emit2: abstract interpretation of the Colang-2 expanders in lang/expansion.py.

The expanders are code generators.  emit2 interprets the *source* of each `_expand_*`
function with its own evaluator over an abstract domain:

  * the statement being expanded (`element`) and everything reached from it are symbolic
    objects identified by their access path;
  * `new_var_uuid()` yields a fresh symbol per call, so label names are concrete strings over
    fresh symbols;
  * collections of the input get a small size from a size assignment (trace partitioning:
    every loop is taken for sizes 1..3, collections of different kinds get different sizes so
    that `len()` of one cannot be confused with another);
  * conditions on the input that cannot be decided are decided by an oracle, once per
    condition text and path, and all oracle choices are enumerated;
  * the result is, per path, the concrete list of emitted primitive elements.

No repository code is imported or executed; a construct the interpreter does not model
raises AnalysisError (exit 2).
"""
import ast
import itertools

from .source import AnalysisError, src

ELEMENT_CLASSES = {"Label", "Goto", "ForkHead", "MergeHeads", "WaitForHeads", "CatchPatternFailure", "BeginScope", "EndScope", "Abort",
                   "SpecOp", "Spec", "Assignment", "Return", "Break", "Continue", "Log", "Print", "Priority", "Global", "If", "While", "When"}


class Obj:
    """Symbolic input object identified by its access path."""

    def __init__(self, path, kind=None):
        self.path = path
        self.kind = kind  # norm | or_item | and_coll | or_coll | cases | None

    def __repr__(self):
        return "<%s>" % self.path


class Rec:
    """An element record built by a constructor call."""

    def __init__(self, cls, fields, line):
        self.cls = cls
        self.fields = fields
        self.line = line

    def __repr__(self):
        f = ", ".join("%s=%r" % (k, v) for k, v in self.fields.items() if k in ("name", "label", "fork_uid", "number", "labels", "op", "expression"))
        return "%s(%s)" % (self.cls, f)


class Nested:
    """Result of a recursive expand_elements(...) call: an opaque, already expanded sub-list."""

    def __init__(self, what, labels, line):
        self.what = what
        self.labels = labels
        self.line = line

    def __repr__(self):
        return "Nested(%s)" % self.what


class _Return(Exception):
    def __init__(self, v):
        self.v = v


class _Raise(Exception):
    pass


class Sym(str):
    """fresh symbol"""


class Interp:
    def __init__(self, module_ast, sizes, oracle):
        self.mod = module_ast
        self.funcs = {f.name: f for f in module_ast.body if isinstance(f, ast.FunctionDef)}
        self.sizes = sizes  # kind -> int
        self.oracle = oracle  # condition key -> bool ; missing keys are recorded
        self.asked = []
        self.uid = 0
        self.opaque_calls = []
        self.overlay = {}
        self.ncopies = 0
        self.depth = 0

    # -- entry ------------------------------------------------------------------
    def call_function(self, name, args):
        fn = self.funcs[name]
        env = {}
        params = [a.arg for a in fn.args.args]
        for p, a in zip(params, args):
            env[p] = a
        for p, d in zip(params[len(params) - len(fn.args.defaults):], fn.args.defaults):
            if p not in env:
                env[p] = self.ev(d, {})
        self.depth += 1
        if self.depth > 6:
            raise AnalysisError("emit2: call depth exceeded in %s" % name)
        try:
            self.block(fn.body, env)
        except _Return as r:
            return r.v
        finally:
            self.depth -= 1
        return None

    # -- statements --------------------------------------------------------------
    def block(self, stmts, env):
        for s in stmts:
            self.stmt(s, env)

    def stmt(self, s, env):
        if isinstance(s, ast.Expr):
            if isinstance(s.value, ast.Constant):
                return
            self.ev(s.value, env)
        elif isinstance(s, ast.Assign):
            v = self.ev(s.value, env)
            for t in s.targets:
                self.assign(t, v, env)
        elif isinstance(s, ast.AnnAssign):
            if s.value is not None:
                self.assign(s.target, self.ev(s.value, env), env)
            elif isinstance(s.target, ast.Name):
                env.setdefault(s.target.id, Obj("<undef %s>" % s.target.id))
        elif isinstance(s, ast.AugAssign):
            cur = self.ev(s.target, env)
            v = self.ev(s.value, env)
            if isinstance(s.op, ast.Add) and isinstance(cur, (list, str, int)) and type(cur) is type(v):
                self.assign(s.target, cur + v, env)
            else:
                raise AnalysisError("emit2: unsupported augmented assignment `%s`" % src(s))
        elif isinstance(s, ast.If):
            if self.truth(s.test, env):
                self.block(s.body, env)
            else:
                self.block(s.orelse, env)
        elif isinstance(s, ast.For):
            it = self.ev(s.iter, env)
            for item in self.iterate(it, s.iter):
                self.assign(s.target, item, env)
                self.block(s.body, env)
        elif isinstance(s, ast.Return):
            raise _Return(self.ev(s.value, env) if s.value is not None else None)
        elif isinstance(s, ast.Raise):
            raise _Raise()
        elif isinstance(s, (ast.Pass, ast.Assert)):
            return
        else:
            raise AnalysisError("emit2: statement kind %s not modelled: `%s`" % (type(s).__name__, src(s)[:80]))

    def assign(self, t, v, env):
        if isinstance(t, ast.Name):
            env[t.id] = v
        elif isinstance(t, (ast.Tuple, ast.List)):
            vals = list(v) if isinstance(v, (list, tuple)) else None
            if vals is None or len(vals) != len(t.elts):
                raise AnalysisError("emit2: cannot unpack `%s`" % src(t))
            for a, b in zip(t.elts, vals):
                self.assign(a, b, env)
        elif isinstance(t, ast.Attribute):
            base = self.ev(t.value, env)
            if isinstance(base, Rec):
                base.fields[t.attr] = v
            elif isinstance(base, Obj):
                self.overlay[(base.path, t.attr)] = v
            else:
                raise AnalysisError("emit2: attribute store on %r" % (base,))
        elif isinstance(t, ast.Subscript):
            base = self.ev(t.value, env)
            k = self.ev(t.slice, env)
            if isinstance(base, (list, dict)):
                base[k] = v
            elif isinstance(base, Obj):
                self.overlay[(base.path, "[%r]" % (k,))] = v
            else:
                raise AnalysisError("emit2: subscript store on %r" % (base,))
        else:
            raise AnalysisError("emit2: assignment target `%s` not modelled" % src(t))

    # -- iteration ----------------------------------------------------------------
    def size_of(self, obj):
        k = obj.kind or "other"
        return self.sizes.get(k, self.sizes.get("other", 2))

    def items(self, obj):
        n = self.size_of(obj)
        child_kind = {"or_coll": "or_item", "and_coll": None, "cases": "case"}.get(obj.kind)
        return [Obj("%s[%d]" % (obj.path, i), child_kind) for i in range(n)]

    def iterate(self, it, node):
        if isinstance(it, (list, tuple)):
            return list(it)
        if isinstance(it, dict):
            return list(it.keys())
        if isinstance(it, Obj):
            return self.items(it)
        raise AnalysisError("emit2: cannot iterate over %r (`%s`)" % (it, src(node)))

    # -- conditions ----------------------------------------------------------------
    def truth(self, e, env):
        v = self.ev(e, env)
        return self.truth_of(v, e)

    def truth_of(self, v, e):
        if isinstance(v, Obj) or v is UNKNOWN:
            key = cond_key(e)
            neg = key.startswith("!")
            k = key[1:] if neg else key
            if k not in self.oracle:
                implied = self.implied(k)
                if implied is not None:
                    self.oracle[k] = implied
                else:
                    self.asked.append(k)
                    self.oracle[k] = True
            r = self.oracle[k]
            return (not r) if neg else r
        if isinstance(v, Rec):
            return True
        return bool(v)

    # type domains of symbolic inputs (from the dataclass annotations, checked by the rule module):
    # SpecOp.spec is a Spec or a dict, nothing else
    TYPE_DOMAINS = {".spec": ("Spec", "dict")}

    def implied(self, k):
        import re as _re
        m2 = _re.match(r"^(.+\.spec_type) == SpecType\.(\w+)$", k)
        if m2:
            # an enum field equals at most one member
            for ko, vo in self.oracle.items():
                mo = _re.match(r"^(.+\.spec_type) == SpecType\.(\w+)$", ko)
                if mo and mo.group(1) == m2.group(1) and mo.group(2) != m2.group(2) and vo:
                    return False
            return None
        m = _re.match(r"^isinstance\((.+), (\w+)\)$", k)
        if not m:
            return None
        obj, t = m.group(1), m.group(2)
        for suffix, dom in self.TYPE_DOMAINS.items():
            if obj.endswith(suffix) and t in dom:
                others = [x for x in dom if x != t]
                for o in others:
                    ko = "isinstance(%s, %s)" % (obj, o)
                    if ko in self.oracle:
                        if self.oracle[ko]:
                            return False
                if all(("isinstance(%s, %s)" % (obj, o)) in self.oracle and not self.oracle["isinstance(%s, %s)" % (obj, o)] for o in others):
                    return True
        return None

    # -- expressions ----------------------------------------------------------------
    def ev(self, e, env):
        if isinstance(e, ast.Constant):
            return e.value
        if isinstance(e, ast.Name):
            if e.id in env:
                return env[e.id]
            if e.id in ("True", "False", "None"):
                return {"True": True, "False": False, "None": None}[e.id]
            return Obj(e.id)  # module level name (classes, enums, InternalEvents ...)
        if isinstance(e, ast.JoinedStr):
            out = ""
            for p in e.values:
                if isinstance(p, ast.Constant):
                    out += str(p.value)
                else:
                    out += fmt(self.ev(p.value, env))
            return out
        if isinstance(e, ast.Attribute):
            b = self.ev(e.value, env)
            if isinstance(b, Rec):
                if e.attr in b.fields:
                    return b.fields[e.attr]
                if e.attr == "labels" and b.cls == "ForkHead":
                    b.fields["labels"] = []
                    return b.fields["labels"]
                return None
            if isinstance(b, Obj):
                if (b.path, e.attr) in self.overlay:
                    return self.overlay[(b.path, e.attr)]
                kind = None
                if e.attr == "when_specs":
                    kind = "cases"
                return Obj("%s.%s" % (b.path, e.attr), kind)
            if isinstance(b, (str, list, dict)):
                return ("<method>", b, e.attr)
            raise AnalysisError("emit2: attribute `%s` of %r" % (src(e), b))
        if isinstance(e, ast.Subscript):
            b = self.ev(e.value, env)
            k = self.ev(e.slice, env)
            if isinstance(b, dict) and isinstance(k, Obj):
                for kk, vv in b.items():
                    if isinstance(kk, Obj) and kk.path == k.path:
                        return vv
                if b:
                    # the lookup is only reached when the membership test was assumed true: the key aliases an entry; take the first one
                    return list(b.values())[0]
            if isinstance(b, (list, dict, str, tuple)):
                try:
                    return b[k]
                except Exception:
                    raise AnalysisError("emit2: `%s` fails with index %r" % (src(e), k))
            if isinstance(b, Obj):
                if (b.path, "[%r]" % (k,)) in self.overlay:
                    return self.overlay[(b.path, "[%r]" % (k,))]
                kind = None
                if b.kind == "norm" and k == "elements":
                    kind = "or_coll"
                elif b.kind == "or_item" and k == "elements":
                    kind = "and_coll"
                elif b.kind == "or_coll" and isinstance(k, int):
                    kind = "or_item"
                elif b.kind == "cases" and isinstance(k, int):
                    kind = "case"
                if isinstance(k, Obj):
                    k = k.path
                return Obj("%s[%r]" % (b.path, k), kind)
            raise AnalysisError("emit2: subscript `%s` of %r" % (src(e), b))
        if isinstance(e, ast.List):
            return [self.ev(x, env) for x in e.elts]
        if isinstance(e, ast.Tuple):
            return tuple(self.ev(x, env) for x in e.elts)
        if isinstance(e, ast.Dict):
            d = {}
            for k, v in zip(e.keys, e.values):
                if k is None:
                    continue  # **spread of an input dict
                d[self.ev(k, env)] = self.ev(v, env)
            return d
        if isinstance(e, ast.BoolOp):
            if isinstance(e.op, ast.And):
                r = True
                for v in e.values:
                    if not self.truth(v, env):
                        return False
                return True
            for v in e.values:
                if self.truth(v, env):
                    return True
            return False
        if isinstance(e, ast.UnaryOp) and isinstance(e.op, ast.Not):
            return not self.truth(e.operand, env)
        if isinstance(e, ast.UnaryOp) and isinstance(e.op, ast.USub):
            return -self.ev(e.operand, env)
        if isinstance(e, ast.IfExp):
            return self.ev(e.body if self.truth(e.test, env) else e.orelse, env)
        if isinstance(e, ast.BinOp):
            l, r = self.ev(e.left, env), self.ev(e.right, env)
            if isinstance(e.op, ast.Add) and isinstance(l, (str, int, list)) and type(l) is type(r):
                return l + r
            if isinstance(e.op, ast.Add) and isinstance(l, str):
                return l + fmt(r)
            if isinstance(e.op, ast.Sub) and isinstance(l, int) and isinstance(r, int):
                return l - r
            return UNKNOWN
        if isinstance(e, ast.Compare):
            l = self.ev(e.left, env)
            res = True
            for op, c in zip(e.ops, e.comparators):
                r = self.ev(c, env)
                if isinstance(op, (ast.In, ast.NotIn)) and isinstance(l, Obj) and isinstance(r, (dict, list, set, tuple)) and not l.path.startswith("?"):
                    # membership of a symbolic value in a concrete container: decided when the container is empty or holds the same symbolic value
                    # (same access path); otherwise the two symbolic values may alias (normalisation shares members between and-groups) - undecided
                    same = any(isinstance(x, Obj) and x.path == l.path for x in r)
                    if not r or same:
                        ok = bool(same) if isinstance(op, ast.In) else not same
                        if not ok:
                            return False
                        l = r
                        continue
                    return UNKNOWN_COND(e)
                if isinstance(l, (Obj,)) or isinstance(r, (Obj,)) or l is UNKNOWN or r is UNKNOWN:
                    if isinstance(op, (ast.Is, ast.IsNot)) and (r is None or l is None) and not (l is UNKNOWN or r is UNKNOWN):
                        # `x is None` for a symbolic input: unknown
                        return UNKNOWN_COND(e)
                    return UNKNOWN_COND(e)
                if isinstance(op, ast.Eq):
                    ok = l == r
                elif isinstance(op, ast.NotEq):
                    ok = l != r
                elif isinstance(op, ast.Is):
                    ok = l is r
                elif isinstance(op, ast.IsNot):
                    ok = l is not r
                elif isinstance(op, ast.Gt):
                    ok = l > r
                elif isinstance(op, ast.Lt):
                    ok = l < r
                elif isinstance(op, ast.GtE):
                    ok = l >= r
                elif isinstance(op, ast.LtE):
                    ok = l <= r
                elif isinstance(op, ast.In):
                    ok = l in r
                elif isinstance(op, ast.NotIn):
                    ok = l not in r
                else:
                    raise AnalysisError("emit2: comparison `%s`" % src(e))
                if not ok:
                    return False
                l = r
            return res
        if isinstance(e, ast.Call):
            return self.call(e, env)
        if isinstance(e, ast.Starred):
            return self.ev(e.value, env)
        if isinstance(e, (ast.ListComp, ast.GeneratorExp)):
            # comprehension over concrete / symbolic collections: same iteration model as `for`
            out = []

            def gen(i, env_):
                if i == len(e.generators):
                    out.append(self.ev(e.elt, env_))
                    return
                g = e.generators[i]
                for item in self.iterate(self.ev(g.iter, env_), g.iter):
                    env2 = dict(env_)
                    self.assign(g.target, item, env2)
                    if all(self.truth(c, env2) for c in g.ifs):
                        gen(i + 1, env2)
            gen(0, dict(env))
            return out
        raise AnalysisError("emit2: expression kind %s not modelled: `%s`" % (type(e).__name__, src(e)[:80]))

    def call(self, e, env):
        f = e.func
        fname = f.id if isinstance(f, ast.Name) else (f.attr if isinstance(f, ast.Attribute) else None)
        # methods on concrete values
        if isinstance(f, ast.Attribute):
            b = self.ev(f.value, env)
            args = [self.ev(a, env) for a in e.args]
            if isinstance(b, list):
                if f.attr == "append":
                    b.append(args[0])
                    return None
                if f.attr == "extend":
                    if isinstance(args[0], (list, tuple)):
                        b.extend(args[0])
                    elif isinstance(args[0], Nested):
                        b.append(args[0])
                    elif args[0] is None:
                        pass
                    else:
                        raise AnalysisError("emit2: extend with %r" % (args[0],))
                    return None
                if f.attr == "copy":
                    return list(b)
            if isinstance(b, dict):
                if f.attr == "update":
                    if isinstance(args[0], dict):
                        b.update(args[0])
                    return None
                if f.attr == "get":
                    return b.get(*args)
                if f.attr == "copy":
                    return dict(b)
            if isinstance(b, str):
                if f.attr in ("lstrip", "rstrip", "strip", "lower", "upper", "startswith", "endswith", "replace", "split", "format"):
                    try:
                        return getattr(b, f.attr)(*args)
                    except Exception:
                        return UNKNOWN
            if isinstance(b, Obj):
                if f.attr in ("update", "append", "extend", "clear"):
                    return None  # mutation of an input object: irrelevant for the emitted control structure
                if b.path in ("copy",) and f.attr in ("deepcopy", "copy"):
                    a0 = args[0]
                    if isinstance(a0, Obj):
                        # a copy is a new object: attribute stores on it must not show through on the original (or on other copies)
                        self.ncopies += 1
                        c = Obj("copy#%d(%s)" % (self.ncopies, a0.path), a0.kind)
                        c.origin = getattr(a0, "origin", a0.path)
                        for (pth, attr), v in list(self.overlay.items()):
                            if pth == a0.path:
                                self.overlay[(c.path, attr)] = v
                        return c
                    return a0
                if b.path == "re":
                    return Obj("re.%s(...)" % f.attr)
                return Obj("%s.%s(...)" % (b.path, f.attr))
            if isinstance(b, Rec) and f.attr in ("hash",):
                return UNKNOWN
            raise AnalysisError("emit2: method call `%s` on %r not modelled" % (src(e)[:60], b))
        args = [self.ev(a, env) for a in e.args]
        kw = {k.arg: self.ev(k.value, env) for k in e.keywords if k.arg is not None}
        if fname in ELEMENT_CLASSES:
            return Rec(fname, kw if not args else {**{"_arg%d" % i: a for i, a in enumerate(args)}, **kw}, e.lineno)
        if fname == "new_var_uuid":
            self.uid += 1
            return Sym("u%d" % self.uid)
        if fname == "len":
            a = args[0]
            if isinstance(a, (list, dict, str, tuple)):
                return len(a)
            if isinstance(a, Obj):
                return self.size_of(a)
            raise AnalysisError("emit2: len(%r)" % (a,))
        if fname == "enumerate":
            return list(enumerate(self.iterate(args[0], e)))
        if fname == "isinstance":
            a = args[0]
            if isinstance(a, Rec):
                t = args[1]
                names = [t.path] if isinstance(t, Obj) else [x.path for x in t if isinstance(x, Obj)]
                return a.cls in names
            if isinstance(a, dict):
                return isinstance(args[1], Obj) and args[1].path == "dict"
            return UNKNOWN_COND(e)
        if fname in ("str", "int", "chr", "ord", "range", "list", "dict", "bool", "tuple"):
            try:
                return {"str": str, "int": int, "chr": chr, "ord": ord, "range": lambda *a: list(range(*a)), "list": list, "dict": dict, "bool": bool, "tuple": tuple}[fname](
                    *[a for a in args])
            except Exception:
                if fname == "dict" and args and isinstance(args[0], Obj):
                    return {}
                if fname == "str":
                    return fmt(args[0])
                return UNKNOWN
        if fname == "normalize_element_groups":
            a = args[0]
            return Obj("norm(%s)" % (a.path if isinstance(a, Obj) else "dict"), "norm")
        if fname == "expand_elements":
            labels = args[2] if len(args) > 2 else kw.get("continue_break_labels")
            return Nested(fmt(args[0]), labels, e.lineno)
        if fname in self.funcs and fname.startswith("_expand"):
            return self.call_function(fname, args)
        if fname in ("_create_ref_ast_dict_helper", "_create_member_ast_dict_helper", "escape_special_string_characters", "cast"):
            return Obj("%s(%s)" % (fname, ",".join(fmt(a) for a in args)))
        if fname in ("id", "hash", "repr", "type") and len(args) == 1:
            return Obj("%s(%s)" % (fname, fmt(args[0])))
        if fname in ("ColangSyntaxError", "NotImplementedError", "ColangRuntimeError", "Exception"):
            return Obj("exc")
        if fname in self.funcs and all(a is None or isinstance(a, (Obj, Sym, str, int, bool)) for a in list(args) + list(kw.values())):
            # a module-level helper that only receives (parts of) the symbolic input or scalars: it cannot touch the list being emitted;
            # its effect on the input is outside the template and its result is opaque
            self.opaque_calls.append((fname, e.lineno))
            return Obj("%s(%s)" % (fname, ",".join(fmt(a) for a in args)))
        raise AnalysisError("emit2: call of `%s` not modelled (`%s`)" % (fname, src(e)[:70]))


class _Unknown:
    def __repr__(self):
        return "UNKNOWN"


UNKNOWN = _Unknown()


def UNKNOWN_COND(e):
    return Obj("?" + cond_key(e))


def fmt(v):
    if isinstance(v, Obj):
        return "{%s}" % v.path
    return str(v)


def cond_key(e):
    """Canonical key of an undecidable condition; `!key` for its negation."""
    if isinstance(e, ast.UnaryOp) and isinstance(e.op, ast.Not):
        k = cond_key(e.operand)
        return k[1:] if k.startswith("!") else "!" + k
    if isinstance(e, ast.Compare) and len(e.ops) == 1 and isinstance(e.ops[0], (ast.IsNot, ast.NotEq)):
        pos = ast.Compare(left=e.left, ops=[ast.Is() if isinstance(e.ops[0], ast.IsNot) else ast.Eq()], comparators=e.comparators)
        k = cond_key(pos)
        return k[1:] if k.startswith("!") else "!" + k
    if isinstance(e, ast.Compare) and len(e.ops) == 1 and isinstance(e.ops[0], ast.Is) and isinstance(e.comparators[0], ast.Constant) and e.comparators[0].value is None:
        # `x is None`  ==  not truthy(x)   for the optional inputs the expanders test
        return "!" + src(e.left)
    return src(e)


def _annotate(v, overlay, seen=None):
    """attach to every symbolic object of the emitted list the attributes the expander stored on it (`obj.attrs`)"""
    seen = seen if seen is not None else set()
    if id(v) in seen:
        return
    seen.add(id(v))
    if isinstance(v, Obj):
        v.attrs = {attr: val for (pth, attr), val in overlay.items() if pth == v.path}
        for val in v.attrs.values():
            _annotate(val, overlay, seen)
    elif isinstance(v, Rec):
        for val in v.fields.values():
            _annotate(val, overlay, seen)
    elif isinstance(v, dict):
        for val in v.values():
            _annotate(val, overlay, seen)
    elif isinstance(v, (list, tuple)):
        for val in v:
            _annotate(val, overlay, seen)


def run_expander(module_ast, fname, sizes, max_paths=256):
    """All paths (oracle choices) of one expander under a size assignment.
    -> [(oracle dict, emitted list or None when the path raises)]"""
    results = []
    pending = [dict()]
    seen = set()
    while pending:
        oracle = pending.pop()
        key = tuple(sorted(oracle.items()))
        if key in seen:
            continue
        seen.add(key)
        it = Interp(module_ast, sizes, dict(oracle))
        fn = it.funcs[fname]
        params = [a.arg for a in fn.args.args]
        args = [Obj(p) for p in params]
        try:
            out = it.call_function(fname, args)
        except _Raise:
            out = None
        _annotate(out, it.overlay)
        # every condition asked for the first time defaulted to True: also explore False
        for k in it.asked:
            alt = dict(it.oracle)
            alt[k] = False
            # conditions asked after k might differ; restart with the prefix decided so far
            prefix = {}
            for kk in list(oracle.keys()) + it.asked[: it.asked.index(k)]:
                prefix[kk] = it.oracle[kk]
            prefix[k] = False
            pending.append(prefix)
        full = dict(it.oracle)
        results.append((full, out))
        if len(results) > max_paths:
            raise AnalysisError("emit2: more than %d paths in %s" % (max_paths, fname))
    # de-duplicate identical oracles
    uniq = {}
    for o, out in results:
        uniq[tuple(sorted(o.items()))] = (o, out)
    return list(uniq.values())


# ---------------------------------------------------------------------------------
# control flow of a generated element list
# ---------------------------------------------------------------------------------

class GenCFG:
    """Control-flow graph of one emitted element list (positions = nodes)."""

    END, ABORT, FAIL = -1, -2, -3

    def __init__(self, elems):
        self.elems = elems
        self.n = len(elems)
        self.labels = {}
        for i, el in enumerate(elems):
            if isinstance(el, Rec) and el.cls == "Label":
                self.labels[el.fields.get("name")] = i  # the runtime keeps the last position
        self.succ = {i: [] for i in range(self.n)}
        for i, el in enumerate(elems):
            nxt = i + 1 if i + 1 < self.n else self.END
            if isinstance(el, Rec):
                c = el.cls
                if c == "Goto":
                    tgt = self.labels.get(el.fields.get("label"))
                    expr = el.fields.get("expression")
                    if tgt is not None:
                        self.succ[i].append(("jump", tgt))
                    if expr not in (None, "True"):
                        self.succ[i].append(("next", nxt))
                    if tgt is None and expr in (None, "True"):
                        self.succ[i].append(("next", nxt))
                    continue
                if c == "ForkHead":
                    for l in el.fields.get("labels") or []:
                        if l in self.labels:
                            self.succ[i].append(("fork", self.labels[l]))
                    continue
                if c == "Abort":
                    self.succ[i].append(("abort", self.ABORT))
                    continue
                if c == "SpecOp" and el.fields.get("op") in ("match", "await", "start", "send", "activate"):
                    self.succ[i].append(("next", nxt))
                    self.succ[i].append(("fail", self.FAIL))
                    continue
            if isinstance(el, Nested):
                self.succ[i].append(("next", nxt))
                self.succ[i].append(("fail", self.FAIL))  # anything can fail/abort inside a nested block
                continue
            self.succ[i].append(("next", nxt))

    def catch_states(self):
        """Forward propagation of the failure-handler stack; -> (state per node, problems)."""
        state = {0: ()} if self.n else {}
        problems = []
        work = [0] if self.n else []
        while work:
            i = work.pop()
            st = state[i]
            el = self.elems[i]
            out = st
            if isinstance(el, Rec) and el.cls == "CatchPatternFailure":
                lab = el.fields.get("label")
                if lab is None:
                    if not st:
                        problems.append((i, "CatchPatternFailure(None) pops an empty handler stack"))
                        out = st
                    else:
                        out = st[:-1]
                else:
                    out = st + (lab,)
            for kind, j in self.succ[i]:
                tgt = j
                nst = out
                if kind in ("fail", "abort") and st:
                    # a failure / abort under a handler continues after the handler's label, handler still pushed
                    lab = st[-1]
                    if lab in self.labels:
                        tgt = self.labels[lab]
                    nst = st
                if tgt < 0:
                    if tgt == self.END and nst:
                        problems.append((i, "template end reached with handler(s) %s still pushed" % (list(nst),)))
                    continue
                if tgt not in state:
                    state[tgt] = nst
                    work.append(tgt)
                elif state[tgt] != nst:
                    problems.append((tgt, "handler stack differs between paths: %s vs %s" % (list(state[tgt]), list(nst))))
        return state, problems

    def edges(self, i, catch_state):
        """Successors with failure edges resolved through the handler stack."""
        out = []
        st = catch_state.get(i, ())
        for kind, j in self.succ[i]:
            if kind in ("fail", "abort") and st and st[-1] in self.labels:
                out.append((kind, self.labels[st[-1]]))
            else:
                out.append((kind, j))
        return out

    def reach_exit_avoiding(self, start, avoid, catch_state, kinds=None):
        """Exits (END/ABORT/FAIL) reachable from start without passing a node in `avoid`; with a witness path."""
        seen = {start: None}
        stack = [start]
        hits = []
        while stack:
            i = stack.pop()
            for kind, j in self.edges(i, catch_state):
                if j < 0:
                    hits.append((j, i, kind))
                    continue
                if j in avoid or j in seen:
                    continue
                seen[j] = i
                stack.append(j)
        def path(i):
            p = []
            while i is not None:
                p.append(i)
                i = seen[i]
            return list(reversed(p))
        return [(ex, path(last), kind) for ex, last, kind in hits]
