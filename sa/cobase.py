"""Shared block-structure parser for the two independent Colang front-ends.

Not a full Colang parser: indentation block structure + classification of each
statement by its leading keyword(s).  Fail closed: an unclassifiable statement has
kind 'unknown' and a rule that has the flow in scope turns it into exit 2.
"""
import ast
import re

from .source import AnalysisError


class Line:
    __slots__ = ("indent", "text", "lineno", "children")

    def __init__(self, indent, text, lineno):
        self.indent = indent
        self.text = text
        self.lineno = lineno
        self.children = []


def strip_comment(s):
    """Remove a trailing # comment that is outside string literals."""
    out = []
    q = None
    i = 0
    while i < len(s):
        c = s[i]
        if q:
            out.append(c)
            if c == "\\" and i + 1 < len(s):
                out.append(s[i + 1])
                i += 2
                continue
            if c == q:
                q = None
        else:
            if c in "\"'":
                q = c
                out.append(c)
            elif c == "#":
                break
            else:
                out.append(c)
        i += 1
    return "".join(out).rstrip()


def _bracket_balance(s):
    bal = 0
    q = None
    i = 0
    while i < len(s):
        c = s[i]
        if q:
            if c == "\\":
                i += 2
                continue
            if c == q:
                q = None
        elif c in "\"'":
            q = c
        elif c in "([{":
            bal += 1
        elif c in ")]}":
            bal -= 1
        i += 1
    return bal


def logical_lines(text, continuation_words=()):
    """-> [Line] flat list of logical lines (comments/blank/docstrings removed,
    bracket continuations joined, line-initial `or`/`and` continuations joined)."""
    raw = text.split("\n")
    out = []
    i = 0
    in_doc = None
    while i < len(raw):
        ln = raw[i]
        i += 1
        stripped = ln.strip()
        if in_doc:
            if in_doc in stripped:
                in_doc = None
            continue
        if not stripped or stripped.startswith("#"):
            continue
        # docstrings (module- or flow-level): a line starting with a triple quote
        m = re.match(r'^(\"\"\"|\'\'\')', stripped)
        if m:
            q = m.group(1)
            rest = stripped[3:]
            if q not in rest:
                in_doc = q
            continue
        indent = len(ln) - len(ln.lstrip(" \t"))
        indent = len(ln[:indent].replace("\t", "    "))
        t = strip_comment(ln).strip()
        if not t:
            continue
        start = i
        while _bracket_balance(t) > 0 and i < len(raw):
            t = t + " " + strip_comment(raw[i]).strip()
            i += 1
        first = t.split(None, 1)[0] if t.split() else ""
        if first in continuation_words and out and indent >= out[-1].indent and not _is_block_header(out[-1].text):
            # `or bot say "..."` continuing the previous statement's spec group
            out[-1].text += " " + t
            continue
        out.append(Line(indent, t, start))
    return out


def _is_block_header(t):
    w = t.split(None, 1)[0] if t.split() else ""
    return w in ("if", "elif", "else", "while", "when", "flow", "define", "for") or t.startswith("or when") or t.startswith("else if") or t.startswith("else when")


def block_tree(lines):
    """Nest logical lines by indentation -> list of top-level Line with children."""
    root = Line(-1, "<root>", 0)
    stack = [root]
    for ln in lines:
        while len(stack) > 1 and ln.indent <= stack[-1].indent:
            stack.pop()
        stack[-1].children.append(ln)
        stack.append(ln)
    return root.children


# -- structured statements ---------------------------------------------------------

class Stmt:
    """kind: if while when assign exec do create_event event bot user stop abort break
    continue return priority meta global match send start await activate deactivate
    call log print pass import set unknown"""

    def __init__(self, kind, text, line, **kw):
        self.kind = kind
        self.text = text
        self.line = line
        self.cond = kw.get("cond")  # if / while condition text
        self.branches = kw.get("branches")  # if: [(cond text|None, [Stmt])]; when: [(spec, [Stmt])]
        self.body = kw.get("body")  # while body
        self.target = kw.get("target")  # assigned variable (without $)
        self.expr = kw.get("expr")  # rhs text / spec text
        self.op = kw.get("op")  # for assign: None | exec | await | start | match ...
        self.name = kw.get("name")  # action / flow / event name
        self.args = kw.get("args")  # argument text
        self.ref = kw.get("ref")  # `as $ref`
        self.orelse = kw.get("orelse")  # when ... else body

    def __repr__(self):
        return "<%s L%s %s>" % (self.kind, self.line, self.text[:50])

    def walk(self):
        yield self
        for b in self.blocks():
            for s in b:
                for x in s.walk():
                    yield x

    def blocks(self):
        out = []
        if self.branches:
            out += [b for _, b in self.branches]
        if self.body:
            out.append(self.body)
        if self.orelse:
            out.append(self.orelse)
        return out


class Flow:
    def __init__(self, name, kind, file, line, dialect, params=(), returns=(), decorators=(), modifiers=()):
        self.name = name
        self.kind = kind  # flow | subflow
        self.file = file
        self.line = line
        self.dialect = dialect
        self.params = list(params)
        self.returns = list(returns)
        self.decorators = list(decorators)
        self.modifiers = list(modifiers)  # parallel, extension
        self.body = []

    def walk(self):
        for s in self.body:
            for x in s.walk():
                yield x

    def unknowns(self):
        return [s for s in self.walk() if s.kind == "unknown"]

    def require_classified(self):
        u = self.unknowns()
        if u:
            raise AnalysisError(
                "Colang front-end cannot classify statement in %s flow '%s' line %s: %r"
                % (self.file, self.name, u[0].line, u[0].text), anchor="%s::%s" % (self.file, self.name))

    def __repr__(self):
        return "<Flow %s %s:%s>" % (self.name, self.file, self.line)


def py_expr(text):
    """Colang expression text -> Python ast (mode eval) with $name rewritten to name.
    Returns None when it does not parse."""
    t = text.strip()
    if t.endswith(":"):
        t = t[:-1]
    t = re.sub(r"\$([A-Za-z_][A-Za-z_0-9]*)", r"\1", t)
    try:
        return ast.parse(t, mode="eval").body
    except SyntaxError:
        return None


def split_call(text):
    """'Name(args)' -> (name, args text) ; 'name words' -> (text, None)"""
    m = re.match(r"^([^()]+?)\s*\((.*)\)\s*$", text.strip(), re.S)
    if m:
        return m.group(1).strip(), m.group(2)
    return text.strip(), None


def vars_in(text):
    return set(re.findall(r"\$([A-Za-z_][A-Za-z_0-9]*)", text or ""))
