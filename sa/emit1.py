"""emit1: affine layout interpretation of the Colang-1 offset computer
(`coyml_parser._extract_elements`).

Each case of the function (if / while / branch block) is interpreted symbolically:
nested blocks (results of the recursive `_extract_elements(...)`) are opaque segments with
symbolic lengths, the output list is a sequence of segments whose start offsets are affine
expressions, dict-valued elements carry fields holding affine expressions, the test
`len(else_elements) > 0` is a case split, `for j in range(n)` is a universally quantified
index, and the branch loops are unrolled for k branches with symbolic lengths.

The obligation is then an affine *identity*: offset == intended target position - own
position (coefficient comparison; no solver).
"""
import ast

from .source import AnalysisError, src


class Aff:
    """c + sum(coef * sym)"""

    def __init__(self, c=0, t=None):
        self.c = c
        self.t = {k: v for k, v in (t or {}).items() if v != 0}

    @staticmethod
    def of(x):
        if isinstance(x, Aff):
            return x
        if isinstance(x, bool):
            raise AnalysisError("emit1: boolean used as a number")
        if isinstance(x, int):
            return Aff(x)
        raise AnalysisError("emit1: %r is not affine" % (x,))

    @staticmethod
    def sym(name):
        return Aff(0, {name: 1})

    def __add__(self, o):
        o = Aff.of(o)
        t = dict(self.t)
        for k, v in o.t.items():
            t[k] = t.get(k, 0) + v
        return Aff(self.c + o.c, t)

    __radd__ = __add__

    def __neg__(self):
        return Aff(-self.c, {k: -v for k, v in self.t.items()})

    def __sub__(self, o):
        return self + (-Aff.of(o))

    def __rsub__(self, o):
        return Aff.of(o) - self

    def __mul__(self, o):
        o = Aff.of(o)
        if o.t and self.t:
            raise AnalysisError("emit1: non-linear product")
        if o.t:
            return o * self
        return Aff(self.c * o.c, {k: v * o.c for k, v in self.t.items()})

    __rmul__ = __mul__

    def __eq__(self, o):
        o = Aff.of(o) if isinstance(o, (int, Aff)) else None
        return o is not None and self.c == o.c and self.t == o.t

    def __hash__(self):
        return hash((self.c, tuple(sorted(self.t.items()))))

    def subst(self, name, value):
        value = Aff.of(value)
        coef = self.t.get(name, 0)
        rest = Aff(self.c, {k: v for k, v in self.t.items() if k != name})
        return rest + value * coef

    def is_const(self):
        return not self.t

    def __repr__(self):
        parts = []
        for k, v in sorted(self.t.items()):
            parts.append(("%s" % k) if v == 1 else ("-%s" % k if v == -1 else "%d*%s" % (v, k)))
        if self.c or not parts:
            parts.append(str(self.c))
        return " + ".join(parts).replace("+ -", "- ")


class Seg:
    """An opaque block of already flattened elements with symbolic length."""

    def __init__(self, name, length):
        self.name = name
        self.length = length
        self.forall = {}  # field -> Aff in terms of the bound index `j` (elements j of the segment)
        self.guard_key = None

    def __repr__(self):
        return "Seg(%s,len=%r)" % (self.name, self.length)


class El:
    def __init__(self, fields=None, name=None):
        self.fields = dict(fields or {})
        self.name = name

    def __repr__(self):
        return "El(%s,%r)" % (self.name, {k: v for k, v in self.fields.items() if k.startswith("_") or k == "branch_heads"})


class Layout:
    def __init__(self):
        self.items = []  # El | Seg

    def length(self):
        n = Aff(0)
        for it in self.items:
            n = n + (it.length if isinstance(it, Seg) else 1)
        return n

    def position(self, item):
        n = Aff(0)
        for it in self.items:
            if it is item:
                return n
            n = n + (it.length if isinstance(it, Seg) else 1)
        raise AnalysisError("emit1: item not in layout")


class _Case(Exception):
    def __init__(self, asked=None):
        super().__init__(asked)
        self.asked = asked


class Interp1:
    """Interprets one block of `_extract_elements` under fixed case decisions."""

    def __init__(self, decisions, branches_k=None, lens=None):
        self.decisions = decisions  # {condition text: bool}
        self.asked = []
        self.k = branches_k
        self.layout = Layout()
        self.env = {}
        self.lens = lens or {}
        self.substs = {}

    def run(self, stmts, env):
        self.env = env
        self.block(stmts)

    def block(self, stmts):
        for s in stmts:
            self.stmt(s)

    def stmt(self, s):
        env = self.env
        if isinstance(s, ast.Assign):
            v = self.ev(s.value)
            for t in s.targets:
                self.store(t, v)
        elif isinstance(s, ast.AugAssign):
            cur = self.ev(s.target)
            v = self.ev(s.value)
            if isinstance(s.op, ast.Add):
                self.store(s.target, cur + v if not isinstance(cur, list) else cur + v)
            elif isinstance(s.op, ast.Sub):
                self.store(s.target, cur - v)
            else:
                raise AnalysisError("emit1: augmented op in `%s`" % src(s))
        elif isinstance(s, ast.Delete):
            for t in s.targets:
                if isinstance(t, ast.Subscript):
                    b = self.ev(t.value)
                    k = self.ev(t.slice)
                    if isinstance(b, El):
                        b.fields.pop(k, None)
        elif isinstance(s, ast.Expr):
            if isinstance(s.value, ast.Constant):
                return
            self.ev(s.value)
        elif isinstance(s, ast.If):
            # irrelevant bookkeeping (source mapping) is skipped
            if all("_source_mapping" in src(x) for x in s.body) and not s.orelse:
                return
            c = self.cond(s.test)
            self.block(s.body if c else s.orelse)
        elif isinstance(s, ast.For):
            self.for_(s)
        elif isinstance(s, ast.While):
            n = 0
            while self.cond(s.test):
                self.block(s.body)
                n += 1
                if n > 50:
                    raise AnalysisError("emit1: loop bound exceeded in `%s`" % src(s.test))
        elif isinstance(s, ast.Pass):
            return
        else:
            raise AnalysisError("emit1: statement `%s` not modelled" % src(s)[:70])

    def for_(self, s):
        it = s.iter
        # `for j, x in enumerate(X)` is read as `for j in range(len(X)): x = X[j]; ...`
        if isinstance(it, ast.Call) and src(it.func) == "enumerate" and len(it.args) == 1 and isinstance(s.target, ast.Tuple) and len(s.target.elts) == 2 \
                and all(isinstance(e, ast.Name) for e in s.target.elts):
            j, x = s.target.elts[0].id, s.target.elts[1].id
            eq = ast.parse("for %s in range(len(%s)):\n    %s = %s[%s]\n    pass" % (j, src(it.args[0]), x, src(it.args[0]), j)).body[0]
            eq.body = eq.body[:1] + list(s.body)
            ast.copy_location(eq, s)
            ast.fix_missing_locations(eq)
            return self.for_(eq)
        # for j in range(n) with symbolic n: universally quantified index over the segment that is indexed by j
        if isinstance(it, ast.Call) and src(it.func) == "range" and len(it.args) == 1:
            n = self.ev(it.args[0])
            if isinstance(n, Aff) and not n.is_const():
                var = s.target.id
                self.env[var] = Aff.sym("j")
                self.block(s.body)
                del self.env[var]
                return
            n = n.c if isinstance(n, Aff) else n
            for i in range(n):
                self.env[s.target.id] = Aff(i)
                self.block(s.body)
            return
        coll = self.ev(it)
        if isinstance(coll, list):
            for x in coll:
                self.store(s.target, x)
                self.block(s.body)
            return
        raise AnalysisError("emit1: loop `%s` not modelled" % src(s)[:60])

    def cond(self, e):
        txt = src(e)
        # len(x) > 0 on a symbolic length: case split decided by the driver
        if isinstance(e, ast.Compare) and len(e.ops) == 1:
            try:
                l, r = self.ev(e.left), self.ev(e.comparators[0])
            except AnalysisError:
                # a condition on the CONTENT of a nested block: undecidable here, explored both ways
                if txt not in self.decisions:
                    self.asked.append(txt)
                    raise _Case(txt)
                return self.decisions[txt]
            if isinstance(l, Aff) and isinstance(r, Aff) and l.is_const() and r.is_const():
                op = e.ops[0]
                return {ast.Gt: l.c > r.c, ast.Lt: l.c < r.c, ast.GtE: l.c >= r.c, ast.LtE: l.c <= r.c, ast.Eq: l.c == r.c, ast.NotEq: l.c != r.c}[type(op)]
            if isinstance(e.ops[0], ast.NotIn) and isinstance(l, str):
                # `"_next_on_break" not in do_elements[j]`: true for plain elements (the inner-loop elements that already
                # carry the key keep theirs - structural induction, see DESIGN 1.5)
                seg = r
                if isinstance(seg, tuple) and seg[0] == "segitem":
                    seg[1].guard_key = l
                    return True
            if txt not in self.decisions:
                self.asked.append(txt)
                raise _Case(txt)
            return self.decisions[txt]
        if isinstance(e, ast.Name) and isinstance(self.env.get(e.id), bool):
            return self.env[e.id]
        if isinstance(e, ast.UnaryOp) and isinstance(e.op, ast.Not):
            return not self.cond(e.operand)
        if isinstance(e, ast.BoolOp) and isinstance(e.op, ast.And):
            return all(self.cond(v) for v in e.values)
        if isinstance(e, ast.BoolOp) and isinstance(e.op, ast.Or):
            return any(self.cond(v) for v in e.values)
        if txt not in self.decisions:
            self.asked.append(txt)
            raise _Case(txt)
        return self.decisions[txt]

    def store(self, t, v):
        if isinstance(t, ast.Name):
            self.env[t.id] = v
        elif isinstance(t, ast.Subscript):
            b = self.ev(t.value)
            k = self.ev(t.slice)
            if isinstance(b, El):
                b.fields[k] = v
            elif isinstance(b, tuple) and b[0] == "segitem":
                b[1].forall[k] = v
            elif isinstance(b, list):
                b[k.c if isinstance(k, Aff) else k] = v
            else:
                raise AnalysisError("emit1: store into %r" % (b,))
        else:
            raise AnalysisError("emit1: store target `%s`" % src(t))

    def ev(self, e):
        env = self.env
        if isinstance(e, ast.Constant):
            if isinstance(e.value, bool) or e.value is None or isinstance(e.value, str):
                return e.value
            if isinstance(e.value, int):
                return Aff(e.value)
            return e.value
        if isinstance(e, ast.Name):
            if e.id in env:
                return env[e.id]
            raise AnalysisError("emit1: unknown name %s" % e.id)
        if isinstance(e, ast.Dict):
            return El({self.ev(k): self.ev(v) for k, v in zip(e.keys, e.values)})
        if isinstance(e, ast.List):
            return [self.ev(x) for x in e.elts]
        if isinstance(e, ast.UnaryOp) and isinstance(e.op, ast.USub):
            return -self.ev(e.operand)
        if isinstance(e, ast.IfExp):
            return self.ev(e.body) if self.cond(e.test) else self.ev(e.orelse)
        if isinstance(e, (ast.ListComp, ast.GeneratorExp)) and len(e.generators) == 1 and not e.generators[0].ifs:
            g = e.generators[0]
            coll = self.ev(g.iter)
            if not isinstance(coll, list):
                raise AnalysisError("emit1: comprehension over %r not modelled" % (coll,))
            out = []
            saved = dict(self.env)
            for x in coll:
                self.store(g.target, x)
                out.append(self.ev(e.elt))
            self.env.clear()
            self.env.update(saved)
            return out
        if isinstance(e, (ast.BoolOp, ast.Compare)) or (isinstance(e, ast.UnaryOp) and isinstance(e.op, ast.Not)):
            # a boolean-valued expression stored in a variable: decided like a condition (unknown content -> both ways)
            return self.cond(e)
        if isinstance(e, ast.BinOp):
            l, r = self.ev(e.left), self.ev(e.right)
            if isinstance(e.op, ast.Mult) and isinstance(l, list) and isinstance(r, Aff) and r.is_const():
                return list(l) * r.c
            if isinstance(e.op, ast.Mult) and isinstance(r, list) and isinstance(l, Aff) and l.is_const():
                return list(r) * l.c
            if isinstance(e.op, ast.Add):
                return l + r
            if isinstance(e.op, ast.Sub):
                return l - r
            if isinstance(e.op, ast.Mult):
                return l * r
            raise AnalysisError("emit1: operator in `%s`" % src(e))
        if isinstance(e, ast.Subscript) and isinstance(e.slice, ast.Slice):
            b = self.ev(e.value)
            if isinstance(b, list) and e.slice.step is None:
                lo = self.ev(e.slice.lower) if e.slice.lower is not None else None
                hi = self.ev(e.slice.upper) if e.slice.upper is not None else None
                if all(x is None or (isinstance(x, Aff) and x.is_const()) for x in (lo, hi)):
                    return b[(lo.c if lo is not None else None):(hi.c if hi is not None else None)]
            raise AnalysisError("emit1: slice `%s` not modelled" % src(e)[:60])
        if isinstance(e, ast.Subscript):
            b = self.ev(e.value)
            k = self.ev(e.slice)
            if isinstance(b, El):
                if k not in b.fields:
                    # raw sub-block of the element (then/else/do): a named symbolic block
                    return ("raw", b.name, k)
                return b.fields[k]
            if isinstance(b, Seg):
                return ("segitem", b, k)
            if isinstance(b, list):
                return b[k.c if isinstance(k, Aff) else k]
            if (isinstance(b, tuple) and b and b[0] == "raw") or isinstance(b, Opaque):
                # an item of a raw (not yet compiled) nested block: content unknown
                return Opaque(src(e))
            raise AnalysisError("emit1: subscript `%s`" % src(e))
        if isinstance(e, ast.Call):
            f = src(e.func)
            if f == "len":
                a = self.ev(e.args[0])
                if isinstance(a, Seg):
                    return a.length
                if isinstance(a, list):
                    return Aff(len(a))
                if isinstance(a, Layout):
                    return a.length()
                raise AnalysisError("emit1: len(%r)" % (a,))
            if f == "_extract_elements":
                a = self.ev(e.args[0])
                if isinstance(a, tuple) and a[0] == "raw":
                    name = a[2]
                    sym = {"then": "T", "else": "E", "do": "N"}.get(name)
                    if sym is None:
                        raise AnalysisError("emit1: nested block %r not modelled" % (name,))
                elif isinstance(a, str) and a.startswith("br"):
                    name, sym = a, "B" + a[2:]
                else:
                    raise AnalysisError("emit1: _extract_elements(%r) not modelled" % (a,))
                length = self.substs.get(sym, Aff.sym(sym))
                self.lens[name] = length
                return Seg(sym, length)
            if f == "sum" and len(e.args) == 1:
                vals = self.ev(e.args[0])
                if isinstance(vals, list):
                    tot = Aff(0)
                    for v in vals:
                        tot = tot + v
                    return tot
                raise AnalysisError("emit1: sum(%r) not modelled" % (vals,))
            if f == "range":
                args = [self.ev(a) for a in e.args]
                if all(isinstance(a, Aff) and a.is_const() for a in args):
                    return [Aff(i) for i in range(*[a.c for a in args])]
                raise AnalysisError("emit1: symbolic range outside a for header")
            if f == "isinstance" and isinstance(self.ev(e.args[0]), Opaque):
                return Opaque(src(e))
            if isinstance(e.func, ast.Attribute):
                b = self.ev(e.func.value)
                m = e.func.attr
                if isinstance(b, Opaque):
                    return Opaque(src(e))
                args = [self.ev(a) for a in e.args]
                if isinstance(b, Layout):
                    if m == "append":
                        if not isinstance(args[0], El):
                            raise AnalysisError("emit1: appended %r" % (args[0],))
                        b.items.append(args[0])
                        return None
                    if m == "extend":
                        if isinstance(args[0], Seg):
                            b.items.append(args[0])
                            return None
                        if isinstance(args[0], list):
                            b.items.extend(args[0])
                            return None
                        raise AnalysisError("emit1: extended with %r" % (args[0],))
                if isinstance(b, list) and m == "append":
                    b.append(args[0])
                    return None
            raise AnalysisError("emit1: call `%s` not modelled" % src(e)[:60])
        raise AnalysisError("emit1: expression `%s` not modelled" % src(e)[:60])


class Opaque:
    """Content of a raw nested block: nothing is known about it."""
    def __init__(self, text):
        self.text = text

    def __repr__(self):
        return "Opaque(%s)" % self.text


def find_cases(fn):
    """-> {'if': stmts, 'while': stmts, 'branch': stmts} from the AST of _extract_elements."""
    out = {}
    for n in ast.walk(fn):
        if isinstance(n, ast.If):
            t = src(n.test)
            if t == "element['_type'] == 'if'":
                out["if"] = n.body
            elif t == "element['_type'] == 'while'":
                out["while"] = n.body
            elif t == "isinstance(item, list)":
                out["branch"] = n.body
    return out


def _run_once(stmts, kind, k, esplit, decisions):
    it = Interp1(dict(decisions), branches_k=k)
    lay = Layout()
    # a symbolic prefix: the construct starts at an arbitrary position P of the output list
    lay.items.append(Seg("P", Aff.sym("P")))
    env = {"elements": lay}
    if kind in ("if", "while"):
        env["element"] = El({"_type": kind}, name=kind)
    else:
        env["item"] = "B0"
        env["items"] = ["B%d" % j for j in range(k)]
        env["i"] = Aff(0)
    if esplit is not None:
        it.substs["E"] = Aff(0) if esplit == 0 else Aff.sym("E")
        it.decisions.setdefault("len(else_elements) > 0", esplit != 0)
    if kind == "branch":
        # the collection of consecutive branches is gathered by a while loop over `items`; we
        # start the interpretation after it with `branches` = the k raw blocks
        start = 0
        for idx, st in enumerate(stmts):
            if isinstance(st, ast.While) and "isinstance(items[i + 1], list)" in src(st.test):
                start = idx + 1
        env["branches"] = ["br%d" % j for j in range(k)]
        it.run(stmts[start:], env)
    else:
        it.run(stmts, env)
    return lay, it


def run_case_all(stmts, kind, k=None, esplit=None):
    """All interpretations of one case block: every undecidable condition is explored both ways.
    -> [(layout, interp, decisions)]"""
    out = []
    pending = [{}]
    seen = set()
    while pending:
        dec = pending.pop()
        key = tuple(sorted(dec.items()))
        if key in seen:
            continue
        seen.add(key)
        try:
            lay, it = _run_once(stmts, kind, k, esplit, dec)
            out.append((lay, it, dict(dec)))
        except _Case as c:
            it = c.args[0] if c.args else None
            asked = c.asked
            for val in (True, False):
                d2 = dict(dec)
                d2[asked] = val
                pending.append(d2)
        if len(seen) > 64:
            raise AnalysisError("emit1: too many case decisions for %s" % kind)
    return out


def run_case(stmts, kind, k=None, esplit=None):
    """First interpretation (all unknown conditions true) - kept for callers that need one layout."""
    res = run_case_all(stmts, kind, k=k, esplit=esplit)
    lay, it, dec = sorted(res, key=lambda r: sorted((k2, not v) for k2, v in r[2].items()))[0]
    return lay, it.env, dec, it
