"""SourceTree: reads files under the repository root on every run.

No cache across runs.  An optional in-memory overlay {relpath: text} is used only by
the self-test / armed-rule pass (seeded breaks are never written to disk).
"""
import ast
import os


class AnalysisError(Exception):
    """The analysis itself is broken (vanished anchor, unparseable construct).

    Reported as ANALYSIS-ERROR, exit 2 - never as a verdict."""

    def __init__(self, msg, anchor=None):
        super().__init__(msg)
        self.anchor = anchor or msg


class SourceTree:
    def __init__(self, root="/repo", overlay=None):
        self.root = os.path.abspath(root)
        self.overlay = dict(overlay or {})
        self._text = {}
        self._ast = {}
        self.files_read = set()

    def with_overlay(self, overlay):
        t = SourceTree(self.root, {**self.overlay, **overlay})
        # texts are immutable; share what has been read and is not overlaid
        for k, v in self._text.items():
            if k not in overlay:
                t._text[k] = v
        for k, v in self._ast.items():
            if k not in overlay:
                t._ast[k] = v
        return t

    def exists(self, rel):
        if rel in self.overlay:
            return self.overlay[rel] is not None
        return os.path.isfile(os.path.join(self.root, rel))

    def text(self, rel):
        if rel in self._text:
            self.files_read.add(rel)
            return self._text[rel]
        if rel in self.overlay:
            if self.overlay[rel] is None:
                raise AnalysisError("file vanished: %s" % rel, anchor=rel)
            t = self.overlay[rel]
        else:
            p = os.path.join(self.root, rel)
            if not os.path.isfile(p):
                raise AnalysisError("file vanished: %s" % rel, anchor=rel)
            with open(p, encoding="utf-8") as f:
                t = f.read()
        self._text[rel] = t
        self.files_read.add(rel)
        return t

    def lines(self, rel):
        return self.text(rel).splitlines()

    def ast(self, rel):
        if rel not in self._ast:
            try:
                tree = ast.parse(self.text(rel), filename=rel)
            except SyntaxError as e:
                raise AnalysisError("cannot parse %s: %s" % (rel, e), anchor=rel)
            for node in ast.walk(tree):
                for ch in ast.iter_child_nodes(node):
                    ch._parent = node
            tree._parent = None
            self._ast[rel] = tree
        return self._ast[rel]

    def glob(self, subdir, suffixes, exclude=()):
        """All files under subdir (relative) with one of the suffixes, sorted."""
        out = set()
        base = os.path.join(self.root, subdir)
        for dp, dn, fn in os.walk(base):
            dn[:] = [d for d in dn if d not in ("__pycache__", ".git")]
            for f in fn:
                if f.endswith(tuple(suffixes)):
                    rel = os.path.relpath(os.path.join(dp, f), self.root)
                    out.add(rel)
        for rel, t in self.overlay.items():
            if rel.startswith(subdir.rstrip("/") + "/") and rel.endswith(tuple(suffixes)):
                if t is None:
                    out.discard(rel)
                else:
                    out.add(rel)
        return sorted(r for r in out if not any(r.startswith(e) for e in exclude))


# ---------------------------------------------------------------------------------
# small AST helpers shared by the rule modules
# ---------------------------------------------------------------------------------

def src(node):
    """Normalised statement/expression text (used as finding key, never line numbers)."""
    try:
        return ast.unparse(node)
    except Exception:  # pragma: no cover
        return ast.dump(node)


def first_line(node, n=120):
    s = src(node).split("\n")[0]
    return s if len(s) <= n else s[: n - 3] + "..."


def find_function(tree, name, cls=None):
    """Module-level function or method by name; returns None when absent."""
    for node in ast.walk(tree):
        if isinstance(node, (ast.FunctionDef, ast.AsyncFunctionDef)) and node.name == name:
            par = getattr(node, "_parent", None)
            if cls is None:
                return node
            if isinstance(par, ast.ClassDef) and par.name == cls:
                return node
    return None


def find_class(tree, name):
    for node in ast.walk(tree):
        if isinstance(node, ast.ClassDef) and node.name == name:
            return node
    return None


def functions(tree):
    for node in ast.walk(tree):
        if isinstance(node, (ast.FunctionDef, ast.AsyncFunctionDef)):
            yield node


def enclosing_function(node):
    p = getattr(node, "_parent", None)
    while p is not None and not isinstance(p, (ast.FunctionDef, ast.AsyncFunctionDef)):
        p = getattr(p, "_parent", None)
    return p


def enclosing_class(node):
    p = getattr(node, "_parent", None)
    while p is not None and not isinstance(p, ast.ClassDef):
        p = getattr(p, "_parent", None)
    return p


def qualname(fn):
    c = enclosing_class(fn)
    return (c.name + "." if c is not None else "") + fn.name


def ancestors(node):
    p = getattr(node, "_parent", None)
    while p is not None:
        yield p
        p = getattr(p, "_parent", None)


def call_name(call):
    """Dotted name of the callee of a Call node ('a.b.c'), or None."""
    return dotted(call.func) if isinstance(call, ast.Call) else None


def dotted(e):
    parts = []
    while isinstance(e, ast.Attribute):
        parts.append(e.attr)
        e = e.value
    if isinstance(e, ast.Name):
        parts.append(e.id)
        return ".".join(reversed(parts))
    if isinstance(e, ast.Call):
        inner = dotted(e.func)
        if inner is not None:
            parts.append(inner + "()")
            return ".".join(reversed(parts))
    return None


def calls_in(node, name=None, attr=None):
    """Call nodes inside `node` whose callee's last component is `name` / attr."""
    out = []
    for n in ast.walk(node):
        if isinstance(n, ast.Call):
            d = dotted(n.func)
            last = None
            if isinstance(n.func, ast.Attribute):
                last = n.func.attr
            elif isinstance(n.func, ast.Name):
                last = n.func.id
            if name is None or last == name or d == name:
                out.append(n)
    return out


def const_str(e):
    if isinstance(e, ast.Constant) and isinstance(e.value, str):
        return e.value
    return None


def names_in(node):
    return {n.id for n in ast.walk(node) if isinstance(n, ast.Name)}


def stmt_of(node):
    """The statement that contains the node."""
    n = node
    while n is not None and not isinstance(n, ast.stmt):
        n = getattr(n, "_parent", None)
    return n


def module_const(tree, name):
    """value node of a module-level `NAME = <expr>` / `NAME: T = <expr>` binding, or None"""
    for s in getattr(tree, "body", []):
        if isinstance(s, ast.Assign) and any(isinstance(t, ast.Name) and t.id == name for t in s.targets):
            return s.value
        if isinstance(s, ast.AnnAssign) and isinstance(s.target, ast.Name) and s.target.id == name and s.value is not None:
            return s.value
    return None


def regex_call(call, tree):
    """If `call` applies a regular expression, return (method, pattern string, subject args): handles re.search(PAT, s), re.sub(PAT, r, s),
    NAME.search(s) / NAME.sub(r, s) with NAME = re.compile(PAT) at module level, and PAT given as a module-level string constant."""
    if not isinstance(call, ast.Call):
        return None
    f = call.func
    def pat_of(node):
        if isinstance(node, ast.Constant) and isinstance(node.value, str):
            return node.value
        if isinstance(node, ast.Name):
            v = module_const(tree, node.id)
            if isinstance(v, ast.Constant) and isinstance(v.value, str):
                return v.value
        return None
    if isinstance(f, ast.Attribute) and isinstance(f.value, ast.Name) and f.value.id == "re" and f.attr in ("search", "match", "fullmatch", "sub", "findall", "split") and call.args:
        p = pat_of(call.args[0])
        if p is not None:
            return (f.attr, p, list(call.args[1:]))
    if isinstance(f, ast.Attribute) and isinstance(f.value, ast.Name) and f.attr in ("search", "match", "fullmatch", "sub", "findall", "split"):
        v = module_const(tree, f.value.id)
        if isinstance(v, ast.Call) and src(v.func) in ("re.compile", "compile") and v.args:
            p = pat_of(v.args[0])
            if p is not None:
                return (f.attr, p, list(call.args))
    return None


def local_or_module_literal(fn, tree, name):
    """the list/tuple/set literal a Name denotes: assigned once in the function, or at module level"""
    cands = []
    if fn is not None:
        for n in ast.walk(fn):
            if isinstance(n, ast.Assign) and any(isinstance(t, ast.Name) and t.id == name for t in n.targets):
                cands.append(n.value)
    if not cands:
        v = module_const(tree, name)
        if v is not None:
            cands.append(v)
    if len(cands) == 1 and isinstance(cands[0], (ast.List, ast.Tuple, ast.Set)):
        return cands[0]
    return None


def inline_temporaries(expr, fn, upto_line=None, depth=3):
    """Source text of `expr` with every Name that is a single-assignment local temporary of `fn` (assigned exactly once, from an expression, before `upto_line`)
    replaced by the text of its value, recursively (bounded).  Used so that a rule about `a.b[c.d]` also recognises `t1 = a.b; t2 = c.d; t1[t2]`."""
    assigns = {}
    counts = {}
    for n in ast.walk(fn):
        if isinstance(n, ast.Assign) and len(n.targets) == 1 and isinstance(n.targets[0], ast.Name):
            counts[n.targets[0].id] = counts.get(n.targets[0].id, 0) + 1
            assigns[n.targets[0].id] = n
        elif isinstance(n, (ast.AugAssign, ast.AnnAssign)) and isinstance(getattr(n, "target", None), ast.Name):
            counts[n.target.id] = counts.get(n.target.id, 0) + 2
        elif isinstance(n, (ast.For, ast.comprehension)):
            for t in ast.walk(n.target):
                if isinstance(t, ast.Name):
                    counts[t.id] = counts.get(t.id, 0) + 2
    params = {a.arg for a in fn.args.args + fn.args.kwonlyargs} if hasattr(fn, "args") else set()
    # a temporary may be assigned once per branch (same name, several sites): inline only if ALL its values have the same text
    def value_text(name, line):
        sites = [n for n in ast.walk(fn) if isinstance(n, ast.Assign) and len(n.targets) == 1 and isinstance(n.targets[0], ast.Name) and n.targets[0].id == name]
        if not sites or name in params:
            return None
        if any(isinstance(n, (ast.AugAssign,)) and getattr(n.target, "id", None) == name for n in ast.walk(fn)):
            return None
        before = [n for n in sites if line is None or n.lineno <= line]
        if not before:
            return None
        nearest = max(before, key=lambda n: n.lineno)
        return nearest.value

    def rec(node, d, line):
        if d <= 0:
            return src(node)
        if isinstance(node, ast.Name):
            v = value_text(node.id, line)
            if v is not None and not isinstance(v, (ast.Constant,)) and not any(isinstance(x, ast.Name) and x.id == node.id for x in ast.walk(v)):
                return "(" + rec(v, d - 1, getattr(v, "lineno", line)) + ")" if not isinstance(v, (ast.Name, ast.Attribute, ast.Subscript, ast.Call)) else rec(v, d - 1, getattr(v, "lineno", line))
            return node.id
        if isinstance(node, ast.Attribute):
            return rec(node.value, d, line) + "." + node.attr
        if isinstance(node, ast.Subscript):
            return rec(node.value, d, line) + "[" + rec(node.slice, d, line) + "]"
        if isinstance(node, ast.BinOp):
            ops = {ast.Add: "+", ast.Sub: "-", ast.Mult: "*"}
            return rec(node.left, d, line) + " " + ops.get(type(node.op), "?") + " " + rec(node.right, d, line)
        if isinstance(node, ast.Call):
            return rec(node.func, d, line) + "(" + ", ".join([rec(a, d, line) for a in node.args] + ["%s=%s" % (k.arg, rec(k.value, d, line)) for k in node.keywords]) + ")"
        return src(node)
    return rec(expr, depth, upto_line if upto_line is not None else getattr(expr, "lineno", None))
