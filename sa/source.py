"""SourceTree: reads files under the repository root on every run.

No cache across runs.  An optional in-memory overlay {relpath: text} is used only by
the self-test / armed-rule pass (seeded breaks are never written to disk).
"""
import ast
import os


class AnalysisError(Exception):
    """The analysis itself is broken (vanished anchor, unparseable construct).

    Reported as ANALYSIS-ERROR, exit 2 - never as a verdict."""

    def __init__(self, msg, anchor=None):
        super().__init__(msg)
        self.anchor = anchor or msg


class SourceTree:
    def __init__(self, root="/repo", overlay=None):
        self.root = os.path.abspath(root)
        self.overlay = dict(overlay or {})
        self._text = {}
        self._ast = {}
        self.files_read = set()
        self.renamed = {}
        self.inlined = {}
        self._fnren = {}

    def with_overlay(self, overlay):
        t = SourceTree(self.root, {**self.overlay, **overlay})
        # texts are immutable; share what has been read and is not overlaid
        for k, v in self._text.items():
            if k not in overlay:
                t._text[k] = v
        for k, v in self._ast.items():
            if k not in overlay:
                t._ast[k] = v
        return t

    def exists(self, rel):
        if rel in self.overlay:
            return self.overlay[rel] is not None
        return os.path.isfile(os.path.join(self.root, rel))

    def text(self, rel):
        if rel in self._text:
            self.files_read.add(rel)
            return self._text[rel]
        if rel in self.overlay:
            if self.overlay[rel] is None:
                raise AnalysisError("file vanished: %s" % rel, anchor=rel)
            t = self.overlay[rel]
        else:
            p = os.path.join(self.root, rel)
            if not os.path.isfile(p):
                raise AnalysisError("file vanished: %s" % rel, anchor=rel)
            with open(p, encoding="utf-8") as f:
                t = f.read()
        self._text[rel] = t
        self.files_read.add(rel)
        return t

    def lines(self, rel):
        return self.text(rel).splitlines()

    def ast(self, rel):
        if rel not in self._ast:
            try:
                tree = ast.parse(self.text(rel), filename=rel)
            except SyntaxError as e:
                raise AnalysisError("cannot parse %s: %s" % (rel, e), anchor=rel)
            # the view the rules read: canonical syntax (canon.py), extracted helpers followed (inline.py), renamed locals aliased (localnames.py)
            from . import canon, inline, localnames
            canon.canonicalise(tree)
            inline._reparent(tree)
            # renamed functions/methods get their recorded name (before helpers are followed: a renamed function is not a new helper)
            fr = self._fn_renames(rel, tree)
            cross = self._imported_renames(tree, rel)
            if fr or cross:
                localnames.apply_function_renames(tree, fr, cross)
                self.renamed.setdefault(rel, []).extend([("<function>", k, v) for k, v in list(fr.items()) + list(cross.items())])
            inl = inline.inline_new_helpers(tree, rel)
            if inl:
                self.inlined.setdefault(rel, []).extend(inl)
                canon.canonicalise(tree)
                inline._reparent(tree)
            ren = localnames.normalise(tree, rel)
            if ren:
                self.renamed.setdefault(rel, []).extend(ren)
            self._ast[rel] = tree
        return self._ast[rel]

    def _fn_renames(self, rel, tree=None):
        """{new path: recorded path} of the renamed functions of a file (cached; computed on a private parse when the file's view is not being built)."""
        if rel in self._fnren:
            return self._fnren[rel]
        from . import canon, inline, localnames
        if not localnames.load_table().get(rel):
            self._fnren[rel] = {}
            return {}
        if tree is None:
            try:
                was = rel in self.files_read
                tree = ast.parse(self.text(rel), filename=rel)
                if not was:
                    self.files_read.discard(rel)    # looked at for alias resolution only
            except (SyntaxError, AnalysisError):
                self._fnren[rel] = {}
                return {}
            canon.canonicalise(tree)
            inline._reparent(tree)
        self._fnren[rel] = localnames.function_renames(tree, rel)
        return self._fnren[rel]

    def _imported_renames(self, tree, rel):
        """{new plain name: recorded name} for names this file imports from repository modules in which that function was renamed."""
        from . import localnames
        tab = localnames.load_table()
        out = {}
        for n in ast.walk(tree):
            if not isinstance(n, ast.ImportFrom):
                continue
            if n.level:
                base = rel.split("/")[:-1]
                base = base[:len(base) - (n.level - 1)] if n.level > 1 else base
                mod = "/".join(base + (n.module.split(".") if n.module else []))
            else:
                mod = (n.module or "").replace(".", "/")
            cands = [mod + ".py", mod + "/__init__.py"]
            m = next((c for c in cands if c in tab), None)
            if m is None or m == rel:
                continue
            unknown = [a.name for a in n.names if a.name != "*" and a.name not in tab[m] and a.name not in tab[m].get("__toplevel__", ())]
            if not unknown or not self.exists(m):
                continue
            ren = self._fn_renames(m)
            for newp, oldp in ren.items():
                if "." not in newp and newp in unknown:
                    out[newp] = oldp
        return out

    def glob(self, subdir, suffixes, exclude=()):
        """All files under subdir (relative) with one of the suffixes, sorted."""
        out = set()
        base = os.path.join(self.root, subdir)
        for dp, dn, fn in os.walk(base):
            dn[:] = [d for d in dn if d not in ("__pycache__", ".git")]
            for f in fn:
                if f.endswith(tuple(suffixes)):
                    rel = os.path.relpath(os.path.join(dp, f), self.root)
                    out.add(rel)
        for rel, t in self.overlay.items():
            if rel.startswith(subdir.rstrip("/") + "/") and rel.endswith(tuple(suffixes)):
                if t is None:
                    out.discard(rel)
                else:
                    out.add(rel)
        return sorted(r for r in out if not any(r.startswith(e) for e in exclude))


# ---------------------------------------------------------------------------------
# small AST helpers shared by the rule modules
# ---------------------------------------------------------------------------------

def src(node):
    """Normalised statement/expression text (used as finding key, never line numbers)."""
    try:
        return ast.unparse(node)
    except Exception:  # pragma: no cover
        return ast.dump(node)


def first_line(node, n=120):
    s = src(node).split("\n")[0]
    return s if len(s) <= n else s[: n - 3] + "..."


def find_function(tree, name, cls=None):
    """Module-level function or method by name; returns None when absent."""
    for node in ast.walk(tree):
        if isinstance(node, (ast.FunctionDef, ast.AsyncFunctionDef)) and node.name == name:
            par = getattr(node, "_parent", None)
            if cls is None:
                return node
            if isinstance(par, ast.ClassDef) and par.name == cls:
                return node
    return None


def find_class(tree, name):
    for node in ast.walk(tree):
        if isinstance(node, ast.ClassDef) and node.name == name:
            return node
    return None


def functions(tree):
    for node in ast.walk(tree):
        if isinstance(node, (ast.FunctionDef, ast.AsyncFunctionDef)):
            yield node


def enclosing_function(node):
    p = getattr(node, "_parent", None)
    while p is not None and not isinstance(p, (ast.FunctionDef, ast.AsyncFunctionDef)):
        p = getattr(p, "_parent", None)
    return p


def enclosing_class(node):
    p = getattr(node, "_parent", None)
    while p is not None and not isinstance(p, ast.ClassDef):
        p = getattr(p, "_parent", None)
    return p


def qualname(fn):
    c = enclosing_class(fn)
    return (c.name + "." if c is not None else "") + fn.name


def ancestors(node):
    p = getattr(node, "_parent", None)
    while p is not None:
        yield p
        p = getattr(p, "_parent", None)


def call_name(call):
    """Dotted name of the callee of a Call node ('a.b.c'), or None."""
    return dotted(call.func) if isinstance(call, ast.Call) else None


def dotted(e):
    parts = []
    while isinstance(e, ast.Attribute):
        parts.append(e.attr)
        e = e.value
    if isinstance(e, ast.Name):
        parts.append(e.id)
        return ".".join(reversed(parts))
    if isinstance(e, ast.Call):
        inner = dotted(e.func)
        if inner is not None:
            parts.append(inner + "()")
            return ".".join(reversed(parts))
    return None


def calls_in(node, name=None, attr=None):
    """Call nodes inside `node` whose callee's last component is `name` / attr."""
    out = []
    for n in ast.walk(node):
        if isinstance(n, ast.Call):
            d = dotted(n.func)
            last = None
            if isinstance(n.func, ast.Attribute):
                last = n.func.attr
            elif isinstance(n.func, ast.Name):
                last = n.func.id
            if name is None or last == name or d == name:
                out.append(n)
    return out


def const_str(e):
    if isinstance(e, ast.Constant) and isinstance(e.value, str):
        return e.value
    return None


def names_in(node):
    return {n.id for n in ast.walk(node) if isinstance(n, ast.Name)}


def stmt_of(node):
    """The statement that contains the node."""
    n = node
    while n is not None and not isinstance(n, ast.stmt):
        n = getattr(n, "_parent", None)
    return n


def module_const(tree, name):
    """value node of a module-level `NAME = <expr>` / `NAME: T = <expr>` binding, or None"""
    for s in getattr(tree, "body", []):
        if isinstance(s, ast.Assign) and any(isinstance(t, ast.Name) and t.id == name for t in s.targets):
            return s.value
        if isinstance(s, ast.AnnAssign) and isinstance(s.target, ast.Name) and s.target.id == name and s.value is not None:
            return s.value
    return None


def regex_call(call, tree):
    """If `call` applies a regular expression, return (method, pattern string, subject args): handles re.search(PAT, s), re.sub(PAT, r, s),
    NAME.search(s) / NAME.sub(r, s) with NAME = re.compile(PAT) at module level, and PAT given as a module-level string constant."""
    if not isinstance(call, ast.Call):
        return None
    f = call.func
    def pat_of(node):
        if isinstance(node, ast.Constant) and isinstance(node.value, str):
            return node.value
        if isinstance(node, ast.Name):
            v = module_const(tree, node.id)
            if isinstance(v, ast.Constant) and isinstance(v.value, str):
                return v.value
        return None
    if isinstance(f, ast.Attribute) and isinstance(f.value, ast.Name) and f.value.id == "re" and f.attr in ("search", "match", "fullmatch", "sub", "findall", "split") and call.args:
        p = pat_of(call.args[0])
        if p is not None:
            return (f.attr, p, list(call.args[1:]))
    if isinstance(f, ast.Attribute) and isinstance(f.value, ast.Name) and f.attr in ("search", "match", "fullmatch", "sub", "findall", "split"):
        v = module_const(tree, f.value.id)
        if isinstance(v, ast.Call) and src(v.func) in ("re.compile", "compile") and v.args:
            p = pat_of(v.args[0])
            if p is not None:
                return (f.attr, p, list(call.args))
    return None


def local_or_module_literal(fn, tree, name):
    """the list/tuple/set literal a Name denotes: assigned once in the function, or at module level"""
    cands = []
    if fn is not None:
        for n in ast.walk(fn):
            if isinstance(n, ast.Assign) and any(isinstance(t, ast.Name) and t.id == name for t in n.targets):
                cands.append(n.value)
    if not cands:
        v = module_const(tree, name)
        if v is not None:
            cands.append(v)
    if len(cands) == 1 and isinstance(cands[0], (ast.List, ast.Tuple, ast.Set)):
        return cands[0]
    return None


def inline_temporaries(expr, fn, upto_line=None, depth=3):
    """Source text of `expr` with every Name that is a single-assignment local temporary of `fn` (assigned exactly once, from an expression, before `upto_line`)
    replaced by the text of its value, recursively (bounded).  Used so that a rule about `a.b[c.d]` also recognises `t1 = a.b; t2 = c.d; t1[t2]`."""
    assigns = {}
    counts = {}
    for n in ast.walk(fn):
        if isinstance(n, ast.Assign) and len(n.targets) == 1 and isinstance(n.targets[0], ast.Name):
            counts[n.targets[0].id] = counts.get(n.targets[0].id, 0) + 1
            assigns[n.targets[0].id] = n
        elif isinstance(n, (ast.AugAssign, ast.AnnAssign)) and isinstance(getattr(n, "target", None), ast.Name):
            counts[n.target.id] = counts.get(n.target.id, 0) + 2
        elif isinstance(n, (ast.For, ast.comprehension)):
            for t in ast.walk(n.target):
                if isinstance(t, ast.Name):
                    counts[t.id] = counts.get(t.id, 0) + 2
    params = {a.arg for a in fn.args.args + fn.args.kwonlyargs} if hasattr(fn, "args") else set()
    # a temporary may be assigned once per branch (same name, several sites): inline only if ALL its values have the same text
    def value_text(name, line):
        sites = [n for n in ast.walk(fn) if isinstance(n, ast.Assign) and len(n.targets) == 1 and isinstance(n.targets[0], ast.Name) and n.targets[0].id == name]
        if not sites or name in params:
            return None
        if any(isinstance(n, (ast.AugAssign,)) and getattr(n.target, "id", None) == name for n in ast.walk(fn)):
            return None
        before = [n for n in sites if line is None or n.lineno <= line]
        if not before:
            return None
        nearest = max(before, key=lambda n: n.lineno)
        return nearest.value

    def rec(node, d, line):
        if d <= 0:
            return src(node)
        if isinstance(node, ast.Name):
            v = value_text(node.id, line)
            if v is not None and not isinstance(v, (ast.Constant,)) and not any(isinstance(x, ast.Name) and x.id == node.id for x in ast.walk(v)):
                return "(" + rec(v, d - 1, getattr(v, "lineno", line)) + ")" if not isinstance(v, (ast.Name, ast.Attribute, ast.Subscript, ast.Call)) else rec(v, d - 1, getattr(v, "lineno", line))
            return node.id
        if isinstance(node, ast.Attribute):
            return rec(node.value, d, line) + "." + node.attr
        if isinstance(node, ast.Subscript):
            return rec(node.value, d, line) + "[" + rec(node.slice, d, line) + "]"
        if isinstance(node, ast.BinOp):
            ops = {ast.Add: "+", ast.Sub: "-", ast.Mult: "*"}
            return rec(node.left, d, line) + " " + ops.get(type(node.op), "?") + " " + rec(node.right, d, line)
        if isinstance(node, ast.Call):
            return rec(node.func, d, line) + "(" + ", ".join([rec(a, d, line) for a in node.args] + ["%s=%s" % (k.arg, rec(k.value, d, line)) for k in node.keywords]) + ")"
        return src(node)
    return rec(expr, depth, upto_line if upto_line is not None else getattr(expr, "lineno", None))


def dict_key_writes(node):
    """Every write of a constant key into a mapping inside `node`, whatever the spelling: `m[k] = v`, `m.update({k: v, ...})`, `m.update(k=v)`,
    `m.setdefault(k, v)`, `m |= {k: v}`.  Yields (mapping expression text, key value, value node, site node)."""
    for n in ast.walk(node):
        if isinstance(n, ast.Assign):
            for t in n.targets:
                if isinstance(t, ast.Subscript) and isinstance(t.slice, ast.Constant):
                    yield (src(t.value), t.slice.value, n.value, n)
        elif isinstance(n, ast.AugAssign) and isinstance(n.op, ast.BitOr) and isinstance(n.value, ast.Dict):
            for k, v in zip(n.value.keys, n.value.values):
                if isinstance(k, ast.Constant):
                    yield (src(n.target), k.value, v, n)
        elif isinstance(n, ast.Call) and isinstance(n.func, ast.Attribute):
            if n.func.attr == "update":
                if n.args and isinstance(n.args[0], ast.Dict):
                    for k, v in zip(n.args[0].keys, n.args[0].values):
                        if isinstance(k, ast.Constant):
                            yield (src(n.func.value), k.value, v, n)
                for kw in n.keywords:
                    if kw.arg is not None:
                        yield (src(n.func.value), kw.arg, kw.value, n)
            elif n.func.attr == "setdefault" and len(n.args) == 2 and isinstance(n.args[0], ast.Constant):
                yield (src(n.func.value), n.args[0].value, n.args[1], n)


def conjuncts(test):
    """The conjuncts of a test (`a and (b and c)` -> [a, b, c]; anything else -> [test]): nested `if`s and one `if` with `and` are the same thing."""
    if isinstance(test, ast.BoolOp) and isinstance(test.op, ast.And):
        out = []
        for v in test.values:
            out += conjuncts(v)
        return out
    return [test]


def linear(stmts):
    """The statements of a block read as a straight sequence: the canonical view writes a guard clause as `if c: <leaves> else: rest`; this reads it back as
    the guard followed by the rest (the guard `if` is yielded, then the statements of its else part, recursively).  Use together with `guard_walk`."""
    out = []
    for k, s in enumerate(stmts):
        out.append(s)
        ab = (ast.Return, ast.Continue, ast.Break, ast.Raise)
        if isinstance(s, ast.If) and s.orelse and s.body and isinstance(s.body[-1], ab):
            out.extend(linear(s.orelse))
        elif isinstance(s, ast.If) and s.orelse and isinstance(s.orelse[-1], ab) and k == len(stmts) - 1:
            # the leaving branch is the else part (canonical polarity): the body is the continuation
            out.extend(linear(s.body))
        elif isinstance(s, ast.If) and not s.orelse and k == len(stmts) - 1:
            # `if c: rest` as the last statement of a block = the guard `if not c: <leave the block>` followed by rest
            out.extend(linear(s.body))
    return out


def _leaves(block):
    return bool(block) and isinstance(block[-1], (ast.Return, ast.Continue, ast.Break, ast.Raise))


def is_guard(s):
    return isinstance(s, ast.If) and (_leaves(s.body) or _leaves(s.orelse))


def leaving_side(s):
    """The branch of a guard that leaves the block (body preferred when both do)."""
    return s.body if _leaves(s.body) else s.orelse


def guard_walk(s):
    """ast.walk over a statement of a `linear` sequence: for a guard only its test and its leaving branch (the other side is the continuation, not part of the guard)."""
    if is_guard(s) and s.orelse:
        yield s
        for x in ast.walk(s.test):
            yield x
        for b in leaving_side(s):
            for x in ast.walk(b):
                yield x
    else:
        for x in ast.walk(s):
            yield x


_OPP = {ast.NotEq: ast.Eq, ast.NotIn: ast.In, ast.IsNot: ast.Is}


def atom_key(e):
    """(positive spelling of an atomic test, polarity): `a != b` -> ("a == b", False); `==`/`is` operands are ordered, white space removed."""
    import re as _re
    pol = True
    while isinstance(e, ast.UnaryOp) and isinstance(e.op, ast.Not):
        e, pol = e.operand, not pol
    if isinstance(e, ast.Compare) and len(e.ops) == 1:
        op = e.ops[0]
        if type(op) in _OPP:
            pol = not pol
            op = _OPP[type(op)]()
        l, r = _re.sub(r"\s", "", src(e.left)), _re.sub(r"\s", "", src(e.comparators[0]))
        sym = {ast.Eq: "==", ast.Is: "is", ast.In: "in", ast.Lt: "<", ast.LtE: "<=", ast.Gt: ">", ast.GtE: ">="}.get(type(op), "?")
        if sym in ("==", "is") and r < l:
            l, r = r, l
        return ("%s %s %s" % (l, sym, r), pol)
    return (_re.sub(r"\s", "", src(e)), pol)


def truth(test, facts):
    """Three-valued value (True / False / None) of a test when the atoms listed in `facts` have the given truth values.  `facts` maps the positive spelling of an
    atom (see atom_key; e.g. "a == b", "x in y", "isinstance(v,float)") or a predicate over the atom's AST to a bool; every other atom is unknown."""
    if isinstance(test, ast.UnaryOp) and isinstance(test.op, ast.Not):
        r = truth(test.operand, facts)
        return None if r is None else (not r)
    if isinstance(test, ast.BoolOp):
        vals = [truth(v, facts) for v in test.values]
        if isinstance(test.op, ast.And):
            return False if any(v is False for v in vals) else (True if all(v is True for v in vals) else None)
        return True if any(v is True for v in vals) else (False if all(v is False for v in vals) else None)
    key, pol = atom_key(test)
    for k, v in facts.items():
        if callable(k):
            if k(test):
                return v
            continue
        nk, npol = _norm_fact(k)
        if nk == key:
            val = v if npol else (not v)
            return val if pol else (not val)
    return None


_fact_cache = {}


def _norm_fact(k):
    """A fact may be written in any spelling (`a != b`, `b == a`): it is normalised like the atoms of the test."""
    if k not in _fact_cache:
        try:
            _fact_cache[k] = atom_key(ast.parse(k, mode="eval").body)
        except SyntaxError:
            _fact_cache[k] = (k, True)
    return _fact_cache[k]


def expand_flags(test, fn):
    """`test` with every bare Name that is a boolean temporary of `fn` (assigned exactly once, nowhere else stored) replaced by the expression it was assigned -
    `is_match = element["op"] == "match"` ... `if is_match:` reads as `if element["op"] == "match":`.  Returns a fresh expression (the tree is not modified)."""
    single = {}
    counts = {}
    for n in ast.walk(fn):
        tg = []
        if isinstance(n, ast.Assign):
            tg = n.targets
        elif isinstance(n, (ast.AugAssign, ast.AnnAssign, ast.For, ast.comprehension)):
            tg = [n.target]
        elif isinstance(n, ast.NamedExpr):
            tg = [n.target]
        for t in tg:
            for x in ast.walk(t):
                if isinstance(x, ast.Name):
                    counts[x.id] = counts.get(x.id, 0) + 1
                    if isinstance(n, ast.Assign) and len(n.targets) == 1 and x is n.targets[0]:
                        single[x.id] = n.value
    params = {a.arg for a in fn.args.args + fn.args.kwonlyargs + fn.args.posonlyargs} if hasattr(fn, "args") else set()
    # the flag's value is only what the test would compute NOW if nothing it reads can have changed since: every name it reads is never stored in the function
    # (parameters that are reassigned - `options = GenerationOptions()` after `given = options is not None` - make the flag a record of the PAST)
    stored = {x_ for x_, c_ in counts.items() if c_ >= 1}

    def stable(v):
        return not any(isinstance(x, ast.Name) and x.id in stored for x in ast.walk(v))

    def go(e, depth=0):
        if isinstance(e, ast.Name) and counts.get(e.id) == 1 and e.id in single and e.id not in params and depth < 4 \
                and isinstance(single[e.id], (ast.Compare, ast.BoolOp, ast.UnaryOp, ast.Call)) and stable(single[e.id]):
            return go(single[e.id], depth + 1)
        if isinstance(e, ast.BoolOp):
            return ast.BoolOp(op=e.op, values=[go(v, depth) for v in e.values])
        if isinstance(e, ast.UnaryOp) and isinstance(e.op, ast.Not):
            return ast.UnaryOp(op=e.op, operand=go(e.operand, depth))
        return e
    return go(test)


def atoms(test):
    """The atomic tests of a condition (operands of and/or/not, recursively)."""
    if isinstance(test, ast.UnaryOp) and isinstance(test.op, ast.Not):
        return atoms(test.operand)
    if isinstance(test, ast.BoolOp):
        out = []
        for v in test.values:
            out += atoms(v)
        return out
    return [test]


def side(ifnode, value):
    """The statements an `if` runs when its test has the given truth value."""
    return ifnode.body if value else ifnode.orelse
