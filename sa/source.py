"""SourceTree: reads files under the repository root on every run.

No cache across runs.  An optional in-memory overlay {relpath: text} is used only by
the self-test / armed-rule pass (seeded breaks are never written to disk).
"""
import ast
import os


class AnalysisError(Exception):
    """The analysis itself is broken (vanished anchor, unparseable construct).

    Reported as ANALYSIS-ERROR, exit 2 - never as a verdict."""

    def __init__(self, msg, anchor=None):
        super().__init__(msg)
        self.anchor = anchor or msg


class SourceTree:
    def __init__(self, root="/repo", overlay=None):
        self.root = os.path.abspath(root)
        self.overlay = dict(overlay or {})
        self._text = {}
        self._ast = {}
        self.files_read = set()

    def with_overlay(self, overlay):
        t = SourceTree(self.root, {**self.overlay, **overlay})
        # texts are immutable; share what has been read and is not overlaid
        for k, v in self._text.items():
            if k not in overlay:
                t._text[k] = v
        for k, v in self._ast.items():
            if k not in overlay:
                t._ast[k] = v
        return t

    def exists(self, rel):
        if rel in self.overlay:
            return self.overlay[rel] is not None
        return os.path.isfile(os.path.join(self.root, rel))

    def text(self, rel):
        if rel in self._text:
            self.files_read.add(rel)
            return self._text[rel]
        if rel in self.overlay:
            if self.overlay[rel] is None:
                raise AnalysisError("file vanished: %s" % rel, anchor=rel)
            t = self.overlay[rel]
        else:
            p = os.path.join(self.root, rel)
            if not os.path.isfile(p):
                raise AnalysisError("file vanished: %s" % rel, anchor=rel)
            with open(p, encoding="utf-8") as f:
                t = f.read()
        self._text[rel] = t
        self.files_read.add(rel)
        return t

    def lines(self, rel):
        return self.text(rel).splitlines()

    def ast(self, rel):
        if rel not in self._ast:
            try:
                tree = ast.parse(self.text(rel), filename=rel)
            except SyntaxError as e:
                raise AnalysisError("cannot parse %s: %s" % (rel, e), anchor=rel)
            for node in ast.walk(tree):
                for ch in ast.iter_child_nodes(node):
                    ch._parent = node
            tree._parent = None
            self._ast[rel] = tree
        return self._ast[rel]

    def glob(self, subdir, suffixes, exclude=()):
        """All files under subdir (relative) with one of the suffixes, sorted."""
        out = set()
        base = os.path.join(self.root, subdir)
        for dp, dn, fn in os.walk(base):
            dn[:] = [d for d in dn if d not in ("__pycache__", ".git")]
            for f in fn:
                if f.endswith(tuple(suffixes)):
                    rel = os.path.relpath(os.path.join(dp, f), self.root)
                    out.add(rel)
        for rel, t in self.overlay.items():
            if rel.startswith(subdir.rstrip("/") + "/") and rel.endswith(tuple(suffixes)):
                if t is None:
                    out.discard(rel)
                else:
                    out.add(rel)
        return sorted(r for r in out if not any(r.startswith(e) for e in exclude))


# ---------------------------------------------------------------------------------
# small AST helpers shared by the rule modules
# ---------------------------------------------------------------------------------

def src(node):
    """Normalised statement/expression text (used as finding key, never line numbers)."""
    try:
        return ast.unparse(node)
    except Exception:  # pragma: no cover
        return ast.dump(node)


def first_line(node, n=120):
    s = src(node).split("\n")[0]
    return s if len(s) <= n else s[: n - 3] + "..."


def find_function(tree, name, cls=None):
    """Module-level function or method by name; returns None when absent."""
    for node in ast.walk(tree):
        if isinstance(node, (ast.FunctionDef, ast.AsyncFunctionDef)) and node.name == name:
            par = getattr(node, "_parent", None)
            if cls is None:
                return node
            if isinstance(par, ast.ClassDef) and par.name == cls:
                return node
    return None


def find_class(tree, name):
    for node in ast.walk(tree):
        if isinstance(node, ast.ClassDef) and node.name == name:
            return node
    return None


def functions(tree):
    for node in ast.walk(tree):
        if isinstance(node, (ast.FunctionDef, ast.AsyncFunctionDef)):
            yield node


def enclosing_function(node):
    p = getattr(node, "_parent", None)
    while p is not None and not isinstance(p, (ast.FunctionDef, ast.AsyncFunctionDef)):
        p = getattr(p, "_parent", None)
    return p


def enclosing_class(node):
    p = getattr(node, "_parent", None)
    while p is not None and not isinstance(p, ast.ClassDef):
        p = getattr(p, "_parent", None)
    return p


def qualname(fn):
    c = enclosing_class(fn)
    return (c.name + "." if c is not None else "") + fn.name


def ancestors(node):
    p = getattr(node, "_parent", None)
    while p is not None:
        yield p
        p = getattr(p, "_parent", None)


def call_name(call):
    """Dotted name of the callee of a Call node ('a.b.c'), or None."""
    return dotted(call.func) if isinstance(call, ast.Call) else None


def dotted(e):
    parts = []
    while isinstance(e, ast.Attribute):
        parts.append(e.attr)
        e = e.value
    if isinstance(e, ast.Name):
        parts.append(e.id)
        return ".".join(reversed(parts))
    if isinstance(e, ast.Call):
        inner = dotted(e.func)
        if inner is not None:
            parts.append(inner + "()")
            return ".".join(reversed(parts))
    return None


def calls_in(node, name=None, attr=None):
    """Call nodes inside `node` whose callee's last component is `name` / attr."""
    out = []
    for n in ast.walk(node):
        if isinstance(n, ast.Call):
            d = dotted(n.func)
            last = None
            if isinstance(n.func, ast.Attribute):
                last = n.func.attr
            elif isinstance(n.func, ast.Name):
                last = n.func.id
            if name is None or last == name or d == name:
                out.append(n)
    return out


def const_str(e):
    if isinstance(e, ast.Constant) and isinstance(e.value, str):
        return e.value
    return None


def names_in(node):
    return {n.id for n in ast.walk(node) if isinstance(n, ast.Name)}


def stmt_of(node):
    """The statement that contains the node."""
    n = node
    while n is not None and not isinstance(n, ast.stmt):
        n = getattr(n, "_parent", None)
    return n
