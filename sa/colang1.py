"""Independent structural front-end for Colang 1.0 source (see DESIGN.md 1.2)."""
import re

from .cobase import Flow, Stmt, block_tree, logical_lines, split_call


def parse(text, file="<v1>"):
    """-> (flows: [Flow], messages: {('bot'|'user', name): [examples]})"""
    tops = block_tree(logical_lines(text))
    flows, messages = [], {}
    for top in tops:
        t = top.text.rstrip(":").strip()
        m = re.match(r"^define\s+((?:parallel\s+|extension\s+)*)(flow|subflow)\s*(.*)$", t)
        if m:
            mods = m.group(1).split()
            name = m.group(3).strip()
            f = Flow(name, m.group(2), file, top.lineno, "1.0", modifiers=mods)
            f.body = _block(top.children)
            flows.append(f)
            continue
        m = re.match(r"^define\s+(bot|user)\s+(.*)$", t)
        if m:
            messages[(m.group(1), m.group(2).strip())] = [c.text for c in top.children]
            continue
        m = re.match(r"^define\s+(\w+)", t)
        if m:
            # other define blocks (e.g. `define extension ...`) - keep as unknown flow
            f = Flow(t, "unknown-define", file, top.lineno, "1.0")
            f.body = [Stmt("unknown", t, top.lineno)]
            flows.append(f)
            continue
        # top-level junk (module docstrings were removed already)
        f = Flow("<toplevel>", "unknown-define", file, top.lineno, "1.0")
        f.body = [Stmt("unknown", t, top.lineno)]
        flows.append(f)
    return flows, messages


def _block(lines):
    out = []
    i = 0
    while i < len(lines):
        ln = lines[i]
        t = ln.text.strip()
        tt = t[:-1].rstrip() if t.endswith(":") else t
        m = re.match(r"^if\s+(.*)$", tt)
        if m:
            branches = [(m.group(1), _block(ln.children))]
            j = i + 1
            while j < len(lines):
                t2 = lines[j].text.strip()
                t2 = t2[:-1].rstrip() if t2.endswith(":") else t2
                m2 = re.match(r"^(?:else\s+if|elif)\s+(.*)$", t2)
                if m2:
                    branches.append((m2.group(1), _block(lines[j].children)))
                    j += 1
                    continue
                if t2 == "else":
                    branches.append((None, _block(lines[j].children)))
                    j += 1
                break
            out.append(Stmt("if", t, ln.lineno, branches=branches))
            i = j
            continue
        m = re.match(r"^while\s+(.*)$", tt)
        if m:
            out.append(Stmt("while", t, ln.lineno, cond=m.group(1), body=_block(ln.children)))
            i += 1
            continue
        if re.match(r"^(else|elif|else\s+if)\b", tt) or re.match(r"^(when|else\s+when)\b", tt):
            out.append(Stmt("unknown", t, ln.lineno, body=_block(ln.children)))
            i += 1
            continue
        out.append(_simple(t, ln))
        i += 1
    return out


def _simple(t, ln):
    L = ln.lineno
    m = re.match(r"^\$([A-Za-z_]\w*)\s*=\s*execute\s+(.*)$", t)
    if m:
        name, args = split_call(m.group(2))
        return Stmt("assign", t, L, target=m.group(1), op="exec", name=name, args=args, expr=m.group(2))
    m = re.match(r"^\$([A-Za-z_]\w*)\s*=\s*(.*)$", t)
    if m and not m.group(2).startswith("="):
        return Stmt("assign", t, L, target=m.group(1), expr=m.group(2))
    m = re.match(r"^set\s+\$([A-Za-z_]\w*)\s*=\s*(.*)$", t)
    if m:
        return Stmt("assign", t, L, target=m.group(1), expr=m.group(2))
    m = re.match(r"^execute\s+(.*)$", t)
    if m:
        name, args = split_call(m.group(1))
        return Stmt("exec", t, L, name=name, args=args)
    m = re.match(r"^do\s+(.*)$", t)
    if m:
        return Stmt("do", t, L, name=m.group(1).strip(), expr=m.group(1).strip())
    m = re.match(r"^create\s+event\s+(.*)$", t)
    if m:
        name, args = split_call(m.group(1))
        return Stmt("create_event", t, L, name=name, args=args)
    m = re.match(r"^event\s+(.*)$", t)
    if m:
        name, args = split_call(m.group(1))
        return Stmt("event", t, L, name=name, args=args)
    m = re.match(r"^bot\s+(.*)$", t)
    if m:
        return Stmt("bot", t, L, name=m.group(1).strip())
    m = re.match(r"^user\s+(.*)$", t)
    if m:
        return Stmt("user", t, L, name=m.group(1).strip())
    if t in ("stop", "break", "continue", "return", "pass"):
        return Stmt(t, t, L)
    m = re.match(r"^priority\s+(.*)$", t)
    if m:
        return Stmt("priority", t, L, expr=m.group(1))
    if re.match(r"^meta\b", t):
        return Stmt("meta", t, L)
    if re.match(r"^(label|goto|checkpoint)\b", t):
        return Stmt(t.split()[0], t, L, name=t.split(None, 1)[1] if " " in t else None)
    if re.match(r'^"', t):
        return Stmt("example", t, L)
    return Stmt("unknown", t, L)
