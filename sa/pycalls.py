"""Module import table + call graph by resolved name.

A call `f(...)`, `mod.f(...)`, `self.m(...)`, `Class.m(...)`, `partial(f, ...)` resolves to
at most one repository function; everything else is *external*.
"""
import ast
import os

from .source import functions, enclosing_class, qualname
from .pycfg import walk_no_nested


def module_of(rel):
    m = rel[:-3] if rel.endswith(".py") else rel
    if m.endswith("/__init__"):
        m = m[: -len("/__init__")]
    return m.replace("/", ".")


def rel_of(tree, module):
    p = module.replace(".", "/")
    if tree.exists(p + ".py"):
        return p + ".py"
    if tree.exists(p + "/__init__.py"):
        return p + "/__init__.py"
    return None


class ModuleInfo:
    def __init__(self, tree, rel):
        self.rel = rel
        self.module = module_of(rel)
        self.ast = tree.ast(rel)
        self.imports = {}  # local name -> ("module", dotted) | ("symbol", module, name)
        self.defs = {}  # top-level name -> node
        self.classes = {}
        pkg = self.module.rsplit(".", 1)[0] if "." in self.module else ""
        if rel.endswith("__init__.py"):
            pkg = self.module
        for n in ast.walk(self.ast):
            if isinstance(n, ast.Import):
                for a in n.names:
                    self.imports[a.asname or a.name.split(".")[0]] = ("module", a.name if a.asname else a.name.split(".")[0])
            elif isinstance(n, ast.ImportFrom):
                base = n.module or ""
                if n.level:
                    parts = pkg.split(".") if pkg else []
                    up = n.level - 1
                    parts = parts[: len(parts) - up] if up else parts
                    base = ".".join(parts + ([n.module] if n.module else []))
                for a in n.names:
                    self.imports[a.asname or a.name] = ("symbol", base, a.name)
        for n in self.ast.body:
            if isinstance(n, (ast.FunctionDef, ast.AsyncFunctionDef)):
                self.defs[n.name] = n
            elif isinstance(n, ast.ClassDef):
                self.classes[n.name] = n
                self.defs[n.name] = n

    def method(self, cls, name):
        c = self.classes.get(cls)
        if c is None:
            return None
        for n in c.body:
            if isinstance(n, (ast.FunctionDef, ast.AsyncFunctionDef)) and n.name == name:
                return n
        return None


class CallGraph:
    """Call graph over a set of repository modules (loaded lazily on resolution)."""

    def __init__(self, tree, rels=()):
        self.tree = tree
        self.mods = {}
        self.resolved = 0
        self.unresolved = 0
        for r in rels:
            self.load(r)
        self._edges = {}

    def load(self, rel):
        if rel not in self.mods:
            self.mods[rel] = ModuleInfo(self.tree, rel)
        return self.mods[rel]

    def fkey(self, rel, fn):
        return (rel, qualname(fn))

    def lookup(self, rel, qual):
        mi = self.load(rel)
        if "." in qual:
            c, m = qual.split(".", 1)
            return mi.method(c, m)
        d = mi.defs.get(qual)
        return d if isinstance(d, (ast.FunctionDef, ast.AsyncFunctionDef)) else None

    def _resolve_symbol(self, module, name, depth=0):
        """(rel, node) of a function/class `name` defined in (or re-exported by) module."""
        if depth > 3:
            return None
        rel = rel_of(self.tree, module)
        if rel is None:
            # maybe `from pkg import module`
            return None
        mi = self.load(rel)
        if name in mi.defs:
            return rel, mi.defs[name]
        if name in mi.imports and mi.imports[name][0] == "symbol":
            _, m2, n2 = mi.imports[name]
            return self._resolve_symbol(m2, n2, depth + 1)
        return None

    def resolve_call(self, rel, fn, call):
        """-> (rel2, qualname2, node2) or None (external / dynamic)."""
        mi = self.load(rel)
        f = call.func
        # partial(f, ...) / functools.partial(f, ...)
        if isinstance(f, (ast.Name, ast.Attribute)):
            last = f.id if isinstance(f, ast.Name) else f.attr
            if last == "partial" and call.args:
                fake = ast.Call(func=call.args[0], args=[], keywords=[])
                return self.resolve_call(rel, fn, fake)
        if isinstance(f, ast.Name):
            n = f.id
            if n in mi.defs:
                node = mi.defs[n]
                if isinstance(node, ast.ClassDef):
                    init = mi.method(n, "__init__")
                    return (rel, n + ".__init__", init) if init is not None else None
                return rel, n, node
            if n in mi.imports and mi.imports[n][0] == "symbol":
                _, m2, n2 = mi.imports[n]
                r = self._resolve_symbol(m2, n2)
                if r is not None:
                    rel2, node = r
                    if isinstance(node, ast.ClassDef):
                        init = self.load(rel2).method(node.name, "__init__")
                        return (rel2, node.name + ".__init__", init) if init is not None else None
                    return rel2, node.name, node
            return None
        if isinstance(f, ast.Attribute):
            v = f.value
            if isinstance(v, ast.Name) and v.id in ("self", "cls"):
                c = enclosing_class(fn) if fn is not None else None
                if c is not None:
                    m = mi.method(c.name, f.attr)
                    if m is not None:
                        return rel, c.name + "." + f.attr, m
                    # single inheritance inside the repo
                    for b in c.bases:
                        bn = b.id if isinstance(b, ast.Name) else None
                        if bn and bn in mi.classes:
                            m = mi.method(bn, f.attr)
                            if m is not None:
                                return rel, bn + "." + f.attr, m
                        elif bn and bn in mi.imports and mi.imports[bn][0] == "symbol":
                            r = self._resolve_symbol(mi.imports[bn][1], mi.imports[bn][2])
                            if r is not None and isinstance(r[1], ast.ClassDef):
                                m = self.load(r[0]).method(r[1].name, f.attr)
                                if m is not None:
                                    return r[0], r[1].name + "." + f.attr, m
                return None
            if isinstance(v, ast.Name):
                if v.id in mi.classes:
                    m = mi.method(v.id, f.attr)
                    if m is not None:
                        return rel, v.id + "." + f.attr, m
                if v.id in mi.imports:
                    imp = mi.imports[v.id]
                    if imp[0] == "module":
                        r = self._resolve_symbol(imp[1], f.attr)
                    else:
                        # from pkg import module  -> module.func
                        r = self._resolve_symbol(imp[1] + "." + imp[2], f.attr)
                        if r is None:
                            # imported class: Class.method
                            rc = self._resolve_symbol(imp[1], imp[2])
                            if rc is not None and isinstance(rc[1], ast.ClassDef):
                                m = self.load(rc[0]).method(rc[1].name, f.attr)
                                if m is not None:
                                    return rc[0], rc[1].name + "." + f.attr, m
                    if r is not None:
                        rel2, node = r
                        if isinstance(node, ast.ClassDef):
                            init = self.load(rel2).method(node.name, "__init__")
                            return (rel2, node.name + ".__init__", init) if init is not None else None
                        return rel2, node.name, node
            d = None
            # a.b.c.func with `import a.b.c`
            parts = []
            e = f
            while isinstance(e, ast.Attribute):
                parts.append(e.attr)
                e = e.value
            if isinstance(e, ast.Name) and e.id in mi.imports and mi.imports[e.id][0] == "module":
                parts.reverse()
                module = ".".join([mi.imports[e.id][1]] + parts[:-1])
                r = self._resolve_symbol(module, parts[-1])
                if r is not None and not isinstance(r[1], ast.ClassDef):
                    return r[0], r[1].name, r[1]
            return d
        return None

    def callees(self, rel, fn):
        """[(call node, (rel2, qual2, node2) | None)] for every call in fn (not nested defs)."""
        key = (rel, id(fn))
        if key in self._edges:
            return self._edges[key]
        out = []
        for s in fn.body:
            for n in walk_no_nested(s):
                if isinstance(n, ast.Call):
                    r = self.resolve_call(rel, fn, n)
                    if r is None:
                        self.unresolved += 1
                    else:
                        self.resolved += 1
                    out.append((n, r))
                    # partial(...) targets count as (deferred) calls as well
        self._edges[key] = out
        return out

    def reach(self, rel, fn, stop=None, limit=4000):
        """Transitive closure over resolved edges from (rel, fn): {(rel,qual): node}."""
        seen = {}
        stack = [(rel, qualname(fn), fn)]
        while stack:
            r, q, node = stack.pop()
            if (r, q) in seen:
                continue
            seen[(r, q)] = node
            if len(seen) > limit:
                break
            if stop is not None and stop(r, q):
                continue
            for call, tgt in self.callees(r, node):
                if tgt is not None and (tgt[0], tgt[1]) not in seen:
                    stack.append(tgt)
        return seen
