"""Obligation bookkeeping, VIOLATION / KNOWN-FINDING / ANALYSIS-ERROR lines, replay
files, evidence writer, known_findings.json reader."""
import hashlib
import json
import os
import re
import time

VERIF = os.path.dirname(os.path.dirname(os.path.abspath(__file__)))


def norm(s):
    return re.sub(r"\s+", " ", str(s)).strip()


class Obligation:
    __slots__ = ("rule", "file", "unit", "construct", "ok", "msg", "line", "note", "extra")

    def __init__(self, rule, file, unit, construct, ok, msg, line=None, extra=None):
        self.rule = rule
        self.file = file
        self.unit = unit
        self.construct = norm(construct)
        self.ok = bool(ok)
        self.msg = msg
        self.line = line
        self.extra = extra

    def key(self):
        return (self.rule, self.file, self.unit, self.construct)

    def as_dict(self):
        d = {
            "rule": self.rule,
            "file": self.file,
            "unit": self.unit,
            "construct": self.construct,
            "line": self.line,
            "ok": self.ok,
            "what": self.msg,
        }
        if self.extra:
            d["detail"] = self.extra
        return d


class Ctx:
    """Per-run context handed to a rule module."""

    def __init__(self, prop, tree, tier="quick"):
        self.prop = prop
        self.tree = tree
        self.tier = tier
        self.obligations = []
        self.notes = []
        self.sites = 0  # sites / paths / templates analysed ("evaluations")
        self.explanation = ""
        self.decided = []
        self.not_decided = []
        self.trusted = []
        self.stats = {}

    @property
    def thorough(self):
        return self.tier == "thorough"

    def check(self, rule, file, unit, construct, ok, msg, line=None, extra=None):
        if isinstance(line, int) and file in getattr(self.tree, "inlined", {}):
            from .inline import SCALE   # a file in which helpers were followed has its line numbers scaled (inline._renumber)
            if line >= SCALE:
                line //= SCALE
        o = Obligation(rule, file, unit, construct, ok, msg, line, extra)
        self.obligations.append(o)
        self.sites += 1
        return o.ok

    def floor(self, rule, file, what, found, minimum, names=None):
        """Instance floor: fewer matched instances than confirmed by hand => the
        missing instance is reported (a rule matching nothing passes vacuously)."""
        ok = found >= minimum
        self.obligations.append(
            Obligation(
                rule + ".floor",
                file,
                what,
                "instances of %s >= %d" % (what, minimum),
                ok,
                "rule %s matched %d instance(s) of %s, floor is %d%s"
                % (rule, found, what, minimum, (" (found: %s)" % ", ".join(names)) if names else ""),
            )
        )
        return ok

    def note(self, text):
        self.notes.append(text)

    def count(self, n=1):
        self.sites += n

    def stat(self, k, v):
        self.stats[k] = v


def load_known():
    p = os.path.join(VERIF, "known_findings.json")
    if not os.path.isfile(p):
        return []
    with open(p) as f:
        return json.load(f)["findings"]


def alpha(construct):
    """Spelling-independent form of a construct that is a complete Python statement/expression: every plain name
    that is not the callee of a call is replaced by a placeholder numbered by first appearance (so renaming a
    local variable does not turn a listed finding into a new one).  None for anything else."""
    import ast

    try:
        tree = ast.parse(construct)
    except (SyntaxError, ValueError):
        return None
    callees = {id(n.func) for n in ast.walk(tree) if isinstance(n, ast.Call)}
    names = {}
    # deterministic source order
    for n in sorted((n for n in ast.walk(tree) if isinstance(n, ast.Name)), key=lambda n: (n.lineno, n.col_offset)):
        if id(n) in callees:
            continue
        n.id = names.setdefault(n.id, "_v%d" % len(names))
    return ast.dump(tree)


def match_known(ob, known, prop):
    for k in known:
        if k.get("status") != "known":
            continue  # "fixed" entries suppress nothing
        if k["property"] != prop or k["rule"] != ob.rule:
            continue
        kk = k["key"]
        if kk.get("file") == ob.file and kk.get("unit") == ob.unit:
            kc = norm(kk.get("construct", ""))
            if kc == ob.construct:
                return k
            a = alpha(ob.construct)
            if a is not None and a == alpha(kc):
                return k
    return None


def write_replay(prop, ob):
    d = os.path.join(VERIF, "evidence", "replay")
    os.makedirs(d, exist_ok=True)
    dig = hashlib.sha1(repr(ob.key()).encode()).hexdigest()[:10]
    p = os.path.join(d, "%s-%s-%s.json" % (prop, ob.rule.replace("/", "_"), dig))
    with open(p, "w") as f:
        json.dump({"property": prop, **ob.as_dict()}, f, indent=1)
    return p


def finish(ctx, t0, seed=0, write=True, quiet=False):
    """Print verdict lines, write evidence, return exit code."""
    known = load_known()
    viol, kf = [], []
    for ob in ctx.obligations:
        if ob.ok:
            continue
        k = match_known(ob, known, ctx.prop)
        if k is not None:
            kf.append((ob, k))
        else:
            viol.append(ob)
    out = []
    seen_kf = set()
    for ob, k in kf:
        line = "KNOWN-FINDING: property=%s %s [%s %s::%s] %s" % (
            ctx.prop, k.get("id", ""), ob.rule, ob.file, ob.unit, k["what_fails"])
        if line not in seen_kf:
            seen_kf.add(line)
            out.append(line)
    for ob in viol:
        rp = write_replay(ctx.prop, ob) if write else "-"
        out.append("VIOLATION property=%s replay=%s" % (ctx.prop, rp))
        out.append("  rule=%s %s:%s unit=%s" % (ob.rule, ob.file, ob.line or "?", ob.unit))
        out.append("  construct: %s" % ob.construct[:300])
        out.append("  %s" % ob.msg)
    n_ob = len(ctx.obligations)
    n_ok = sum(1 for o in ctx.obligations if o.ok)
    distinct = len({o.key() for o in ctx.obligations if not o.rule.endswith(".floor")})
    if not quiet:
        for l in out:
            print(l)
        print("%s tier=%s obligations=%d discharged=%d known_findings=%d violations=%d notes=%d files=%d wall=%.2fs" % (
            ctx.prop, ctx.tier, n_ob, n_ok, len(kf), len(viol), len(ctx.notes), len(ctx.tree.files_read), time.time() - t0))
    if write:
        samples = []
        per_rule = {}
        for o in ctx.obligations:
            per_rule.setdefault(o.rule, []).append(o)
        for r, obs in sorted(per_rule.items()):
            for o in obs[:3]:
                samples.append(o.as_dict())
        failing = [o.as_dict() for o, _ in kf] + [o.as_dict() for o in viol]
        ev = {
            "property_id": ctx.prop,
            "tier": ctx.tier,
            "seed": int(seed),
            "level": "other",
            "coverage": {
                "explanation": ctx.explanation
                + " DECIDED: " + "; ".join(ctx.decided)
                + " NOT DECIDED: " + "; ".join(ctx.not_decided),
                "evaluations": max(ctx.sites, 1),
                "distinct_nontrivial": distinct,
                "rule": "one obligation = (rule id, anchored construct, predicate); distinct = distinct (rule,file,unit,construct) keys whose anchor matched real code under /repo; floors excluded",
                "obligations": n_ob,
                "discharged": n_ok,
                "known_findings": len(kf),
                "rules": {r: {"instances": len(obs), "ok": sum(1 for o in obs if o.ok)} for r, obs in sorted(per_rule.items())},
                "samples": samples[:60],
                "failing": failing,
                "notes": ctx.notes,
                "files_analysed": sorted(ctx.tree.files_read),
                "stats": ctx.stats,
                "checker_cmd": "./check %s --tier %s" % (ctx.prop, ctx.tier),
                "trusted_base": ["CPython ast module (parsing of /repo sources)", "/verif/sa engines"] + ctx.trusted,
                "exhaustive": False,
            },
            "assumptions": [
                "static analysis only: no repository code is imported or executed",
                "decides the structural clauses listed under DECIDED, not the runtime behaviour as a whole",
            ] + ctx.trusted,
            "wall_s": round(time.time() - t0, 3),
            "violations": len(viol),
        }
        os.makedirs(os.path.join(VERIF, "evidence"), exist_ok=True)
        with open(os.path.join(VERIF, "evidence", "%s.json" % ctx.prop), "w") as f:
            json.dump(ev, f, indent=1, default=str)
    return (1 if viol else 0), viol, kf
