"""Paths through parsed Colang flows with guard evaluation over a finite abstract
domain (DESIGN.md 1.3), plus the induction-variable recogniser for `while`."""
import ast

from .cobase import py_expr, Stmt
from .source import AnalysisError


class _Top:
    def __repr__(self):
        return "TOP"


TOP = _Top()


class Fail(Exception):
    """Evaluation error at run time: the flow fails at this statement."""


class AObj:
    """Abstract object with known attributes; unknown attributes are TOP."""

    def __init__(self, **kw):
        self.attrs = kw

    def __repr__(self):
        return "AObj(%r)" % self.attrs


def truth(v):
    if v is TOP:
        return TOP
    if isinstance(v, AObj):
        return True
    return bool(v)


def evaluate(e, env):
    """Three-valued evaluation of a Python expression AST over env."""
    if e is None:
        return TOP
    if isinstance(e, ast.Constant):
        return e.value
    if isinstance(e, ast.Name):
        if e.id in ("True", "False", "None"):
            return {"True": True, "False": False, "None": None}[e.id]
        return env.get(e.id, TOP)
    if isinstance(e, ast.Attribute):
        b = evaluate(e.value, env)
        if b is TOP:
            return TOP
        if b is None:
            raise Fail("attribute %s of None" % e.attr)
        if isinstance(b, AObj):
            return b.attrs.get(e.attr, TOP)
        if isinstance(b, (bool, int, float)):
            raise Fail("attribute %s of %r" % (e.attr, b))
        return TOP
    if isinstance(e, ast.Subscript):
        b = evaluate(e.value, env)
        if b is None:
            raise Fail("subscript of None")
        if isinstance(b, (bool, int, float)):
            raise Fail("subscript of %r" % (b,))
        k = evaluate(e.slice, env)
        if b is TOP or k is TOP:
            return TOP
        try:
            if isinstance(b, AObj):
                return b.attrs.get(k, TOP)
            return b[k]
        except Exception:
            return TOP
    if isinstance(e, ast.BoolOp):
        is_and = isinstance(e.op, ast.And)
        unknown = False
        last = None
        for v in e.values:
            try:
                x = evaluate(v, env)
            except Fail:
                if unknown:
                    return TOP
                raise
            t = truth(x)
            if t is TOP:
                unknown = True
                continue
            # a definitely falsy (truthy) operand decides `and` (`or`) whatever the unknown
            # operands before it are: the result is falsy (truthy) either way
            if is_and and not t:
                return x if not unknown else False
            if not is_and and t:
                return x if not unknown else True
            last = x
        return TOP if unknown else last
    if isinstance(e, ast.UnaryOp):
        x = evaluate(e.operand, env)
        if isinstance(e.op, ast.Not):
            t = truth(x)
            return TOP if t is TOP else (not t)
        if x is TOP:
            return TOP
        if x is None:
            raise Fail("unary op on None")
        try:
            if isinstance(e.op, ast.USub):
                return -x
            if isinstance(e.op, ast.UAdd):
                return +x
        except Exception:
            return TOP
        return TOP
    if isinstance(e, ast.Compare):
        left = evaluate(e.left, env)
        res = True
        for op, c in zip(e.ops, e.comparators):
            right = evaluate(c, env)
            if isinstance(op, (ast.Is, ast.IsNot)):
                if left is TOP or right is TOP:
                    r = TOP
                else:
                    r = (left is right) if isinstance(op, ast.Is) else (left is not right)
                    if isinstance(left, AObj) or isinstance(right, AObj):
                        r = isinstance(op, ast.IsNot) if (left is None or right is None) else TOP
            elif isinstance(op, (ast.Eq, ast.NotEq)):
                if left is TOP or right is TOP:
                    r = TOP
                elif isinstance(left, AObj) or isinstance(right, AObj):
                    r = TOP
                else:
                    r = (left == right) if isinstance(op, ast.Eq) else (left != right)
            elif isinstance(op, (ast.Lt, ast.LtE, ast.Gt, ast.GtE)):
                if left is None or right is None:
                    raise Fail("ordering comparison with None")
                if left is TOP or right is TOP:
                    r = TOP
                else:
                    try:
                        r = {ast.Lt: left < right, ast.LtE: left <= right, ast.Gt: left > right, ast.GtE: left >= right}[type(op)]
                    except Exception:
                        raise Fail("ordering comparison of %r and %r" % (left, right))
            elif isinstance(op, (ast.In, ast.NotIn)):
                if right is None:
                    raise Fail("membership in None")
                if left is TOP or right is TOP or isinstance(right, AObj):
                    r = TOP
                else:
                    try:
                        r = (left in right) if isinstance(op, ast.In) else (left not in right)
                    except Exception:
                        raise Fail("membership test failed")
            else:
                r = TOP
            if r is TOP:
                res = TOP
            elif r is False and res is not TOP:
                return False
            elif r is False:
                return False
            left = right
        return res
    if isinstance(e, ast.Call):
        if isinstance(e.func, ast.Attribute):
            b = evaluate(e.func.value, env)
            if b is None:
                raise Fail("method %s of None" % e.func.attr)
            if isinstance(b, (bool, int, float)) and not isinstance(b, str):
                raise Fail("method %s of %r" % (e.func.attr, b))
            return TOP
        if isinstance(e.func, ast.Name) and e.func.id == "len" and len(e.args) == 1:
            a = evaluate(e.args[0], env)
            if a is None:
                raise Fail("len(None)")
            if a is TOP or isinstance(a, AObj):
                return TOP
            try:
                return len(a)
            except Exception:
                raise Fail("len of %r" % (a,))
        return TOP
    if isinstance(e, ast.BinOp):
        l, r = evaluate(e.left, env), evaluate(e.right, env)
        if l is None or r is None:
            raise Fail("arithmetic with None")
        if l is TOP or r is TOP:
            return TOP
        try:
            return {ast.Add: lambda: l + r, ast.Sub: lambda: l - r, ast.Mult: lambda: l * r}.get(type(e.op), lambda: TOP)()
        except Exception:
            return TOP
    if isinstance(e, (ast.List, ast.Tuple)):
        vals = [evaluate(x, env) for x in e.elts]
        return TOP if any(v is TOP for v in vals) else list(vals)
    if isinstance(e, ast.IfExp):
        t = truth(evaluate(e.test, env))
        if t is TOP:
            return TOP
        return evaluate(e.body if t else e.orelse, env)
    return TOP


class Path:
    __slots__ = ("steps", "outcome", "env", "why")

    def __init__(self, steps, outcome, env, why=None):
        self.steps = steps  # [Stmt] in execution order (compound stmts included at entry)
        self.outcome = outcome  # end stop abort fail return
        self.env = env
        self.why = why

    def index(self, pred, start=0):
        for i in range(start, len(self.steps)):
            if pred(self.steps[i]):
                return i
        return -1

    def has(self, pred):
        return self.index(pred) >= 0

    def texts(self):
        return [s.text for s in self.steps]


class _Break(Exception):
    pass


class Walker:
    """Enumerates the paths of a flow body under an abstract environment.

    callee_outcomes(stmt) -> subset of {'continue','stop','fail'} for statements that
    call a flow (v1 `do`/`bot x`; v2 call/await/start).  action_value(stmt) -> abstract
    value bound by `$x = execute/await Action`.
    """

    def __init__(self, callee_outcomes=None, action_value=None, max_paths=4096, on_assign=None):
        self.callee_outcomes = callee_outcomes or (lambda s: {"continue"})
        self.action_value = action_value or (lambda s: TOP)
        self.max_paths = max_paths
        self.on_assign = on_assign
        self.count = 0

    def run(self, body, env):
        res = self._block(body, 0, [], dict(env), loop=None)
        return [Path(st, oc, en, why) for st, oc, en, why in res]

    # returns list of (steps, outcome, env, why); outcome None = fell through
    def _block(self, body, i, steps, env, loop):
        if i >= len(body):
            return [(steps, None, env, None)]
        out = []
        for st, oc, en, why in self._stmt(body[i], steps, env, loop):
            if oc is None:
                out.extend(self._block(body, i + 1, st, en, loop))
            else:
                out.append((st, oc, en, why))
            if len(out) > self.max_paths:
                raise AnalysisError("Colang path bound %d exceeded" % self.max_paths)
        return out

    def _cond(self, text, env):
        e = py_expr(text)
        if e is None:
            return TOP
        return truth(evaluate(e, env))

    def _stmt(self, s, steps, env, loop):
        steps = steps + [s]
        k = s.kind
        if k == "if":
            return self._if(s, 0, steps, env, loop)
        if k == "while":
            return self._while(s, steps, env)
        if k == "when":
            out = []
            for spec, body in s.branches:
                out += self._block(body, 0, steps + [Stmt("when_case", spec, s.line, expr=spec)], dict(env), loop)
            if s.orelse is not None:
                out += self._block(s.orelse, 0, steps + [Stmt("when_else", "else", s.line)], dict(env), loop)
            else:
                out.append((steps, "fail", env, "when without else: all cases failed"))
            return out
        if k in ("stop", "abort"):
            return [(steps, k, env, None)]
        if k == "return":
            return [(steps, "return", env, None)]
        if k == "break":
            return [(steps, "break", env, None)]
        if k == "continue":
            return [(steps, "continue", env, None)]
        if k == "assign":
            env = dict(env)
            if s.op is None:
                e = py_expr(s.expr)
                try:
                    v = evaluate(e, env) if e is not None else TOP
                except Fail as ex:
                    return [(steps, "fail", env, str(ex))]
                env[s.target] = v
                return [(steps, None, env, None)]
            env[s.target] = self.action_value(s)
            return self._callee(s, steps, env)
        if k in ("do", "call", "await", "start", "bot", "user", "match", "send", "activate", "exec",
                 "create_event", "event", "deactivate"):
            return self._callee(s, steps, env)
        # global, log, print, priority, meta, pass, example, unknown ...
        return [(steps, None, env, None)]

    def _callee(self, s, steps, env):
        ocs = self.callee_outcomes(s)
        out = []
        for oc in sorted(ocs):
            if oc == "continue":
                out.append((steps, None, env, None))
            else:
                out.append((steps, oc, env, "callee of `%s` may %s" % (s.text[:60], oc)))
        return out

    def _if(self, s, bi, steps, env, loop):
        if bi >= len(s.branches):
            return [(steps, None, env, None)]
        cond, body = s.branches[bi]
        if cond is None:
            return self._block(body, 0, steps, env, loop)
        try:
            t = self._cond(cond, env)
        except Fail as ex:
            return [(steps, "fail", env, "guard `%s`: %s" % (cond, ex))]
        out = []
        if t is TOP or t is True:
            mark = Stmt("branch", cond, s.line, cond=cond, expr="taken")
            out += self._block(body, 0, steps + [mark], dict(env), loop)
        if t is TOP or t is False:
            out += self._if(s, bi + 1, steps, dict(env), loop)
        return out

    def _while(self, s, steps, env):
        """Guard unknown: zero iterations, or one iteration followed by exit.  Known
        guard: evaluate (bounded)."""
        out = []
        try:
            t = self._cond(s.cond, env)
        except Fail as ex:
            return [(steps, "fail", env, "guard `%s`: %s" % (s.cond, ex))]
        if t is TOP or t is False:
            out.append((steps, None, env, None))
        if t is TOP or t is True:
            for st, oc, en, why in self._block(s.body, 0, steps + [Stmt("loop_iter", s.cond, s.line)], dict(env), loop=s):
                if oc in (None, "continue"):
                    if t is True:
                        # known-true guard: re-evaluate once more; unknown afterwards => exit
                        try:
                            t2 = self._cond(s.cond, en)
                        except Fail as ex:
                            out.append((st, "fail", en, str(ex)))
                            continue
                        if t2 is True:
                            # would loop again: treat as exit after one more abstract iteration
                            out.append((st, None, en, None))
                        else:
                            out.append((st, None, en, None))
                    else:
                        out.append((st, None, en, None))
                elif oc == "break":
                    out.append((st, None, en, None))
                else:
                    out.append((st, oc, en, why))
        return out


# -- induction-variable recogniser ---------------------------------------------------

def induction_loop(body, loop_stmt_index):
    """For `body[loop_stmt_index]` a while statement `while $i < len($X)`:
    returns dict(var, coll, init_ok, incr_count, incr_uncond, call_offsets, coll_reassigned)
    or None when the guard has another shape."""
    w = body[loop_stmt_index]
    e = py_expr(w.cond)
    if not (isinstance(e, ast.Compare) and len(e.ops) == 1 and isinstance(e.ops[0], ast.Lt)
            and isinstance(e.left, ast.Name) and isinstance(e.comparators[0], ast.Call)
            and isinstance(e.comparators[0].func, ast.Name) and e.comparators[0].func.id == "len"
            and len(e.comparators[0].args) == 1 and isinstance(e.comparators[0].args[0], ast.Name)):
        return None
    var = e.left.id
    coll = e.comparators[0].args[0].id
    info = {"var": var, "coll": coll}
    # initialisation: the last assignment to var before the loop, at the same level
    init = None
    coll_def = None
    for s in body[:loop_stmt_index]:
        if s.kind == "assign" and s.target == var:
            init = s
        if s.kind == "assign" and s.target == coll:
            coll_def = s
        if s.kind in ("if", "while", "when"):
            for x in s.walk():
                if x.kind == "assign" and x.target == var:
                    init = None  # conditional init: not recognised
    info["init"] = init
    info["init_ok"] = bool(init is not None and init.op is None and init.expr.strip() == "0")
    info["coll_def"] = coll_def
    # increments: top-level statements of the loop body (unconditional)
    incr_pos = []
    for idx, s in enumerate(w.body):
        if s.kind == "assign" and s.target == var:
            incr_pos.append(idx)
    nested_writes = [x for s in w.body if s.kind in ("if", "while", "when") for x in s.walk()
                     if x.kind == "assign" and x.target == var]
    info["incr_count"] = len(incr_pos) + len(nested_writes)
    info["incr_uncond"] = len(nested_writes) == 0 and len(incr_pos) == 1
    step = None
    if len(incr_pos) == 1:
        ie = py_expr(w.body[incr_pos[0]].expr)
        if isinstance(ie, ast.BinOp) and isinstance(ie.op, ast.Add):
            l, r = ie.left, ie.right
            if isinstance(l, ast.Name) and l.id == var and isinstance(r, ast.Constant) and isinstance(r.value, int):
                step = r.value
            elif isinstance(r, ast.Name) and r.id == var and isinstance(l, ast.Constant) and isinstance(l.value, int):
                step = l.value
    info["step"] = step
    info["coll_reassigned"] = any(x.kind == "assign" and x.target == coll for s in w.body for x in s.walk())
    # escapes that skip elements
    info["has_break_continue"] = any(x.kind in ("break", "continue") for s in w.body for x in s.walk())
    # calls `do $X[expr]` / subscripts of coll: offset from the iteration's entry value of i
    offs = []
    for idx, s in enumerate(w.body):
        for x in s.walk():
            if x.kind == "do" and x.name.startswith("$"):
                de = py_expr(x.name)
                off = _index_offset(de, coll, var)
                if off is None:
                    offs.append((x, None, idx))
                else:
                    # increment placed before the call shifts the value of i by step
                    shift = step if (incr_pos and idx > incr_pos[0] and step is not None) else 0
                    offs.append((x, off + shift, idx))
    info["calls"] = offs
    info["loop"] = w
    return info


def _index_offset(e, coll, var):
    if not (isinstance(e, ast.Subscript) and isinstance(e.value, ast.Name) and e.value.id == coll):
        return None
    s = e.slice
    if isinstance(s, ast.Name) and s.id == var:
        return 0
    if isinstance(s, ast.BinOp) and isinstance(s.left, ast.Name) and s.left.id == var and isinstance(s.right, ast.Constant):
        if isinstance(s.op, ast.Add):
            return s.right.value
        if isinstance(s.op, ast.Sub):
            return -s.right.value
    return None
