"""Shared anchors for the rails pipeline written in Colang (C01, C02, C03, C16)."""
import re

from . import colang1, colang2
from .cobase import py_expr, vars_in
from .coflow import AObj, TOP, Walker
from .source import AnalysisError

LLM_FLOWS = "nemoguardrails/rails/llm/llm_flows.co"
GUARDRAILS_CO = "nemoguardrails/colang/v2_x/library/guardrails.co"
CORE_CO = "nemoguardrails/colang/v2_x/library/core.co"


def dialect_of(text):
    return "1.0" if re.search(r"^\s*define\s+(parallel\s+|extension\s+)*(flow|subflow|bot|user)\b", text, re.M) else "2.x"


def parse_co(tree, rel):
    text = tree.text(rel)
    if dialect_of(text) == "1.0":
        flows, _ = colang1.parse(text, rel)
    else:
        flows, _ = colang2.parse(text, rel)
    return flows


def llm_flows(tree):
    flows = parse_co(tree, LLM_FLOWS)
    for f in flows:
        f.require_classified()
    return flows


def find_runner(flows, category):
    """The subflow whose loop calls `do $X[..]` with X bound to $config.rails.<category>.flows."""
    for f in flows:
        coll = None
        for s in f.body:
            if s.kind == "assign" and s.op is None and re.sub(r"\s", "", s.expr) == "$config.rails.%s.flows" % category:
                coll = s.target
        if coll is None:
            continue
        for s in f.walk():
            if s.kind == "do" and s.name.startswith("$" + coll + "["):
                return f
    return None


def find_flow_by_trigger(flows, event_name):
    """Flows whose first matching statement is `event <event_name>`."""
    out = []
    for f in flows:
        for s in f.body:
            if s.kind in ("priority", "meta"):
                continue
            if s.kind == "event" and s.name == event_name:
                out.append(f)
            break
    return out


def rails_options(**flags):
    """Abstract $generation_options object; unspecified categories are TOP."""
    return AObj(rails=AObj(**flags))


def config_obj(inp=TOP, out=TOP, retr=TOP, exceptions=TOP):
    return AObj(
        rails=AObj(input=AObj(flows=inp), output=AObj(flows=out), retrieval=AObj(flows=retr)),
        enable_rails_exceptions=exceptions,
    )


def library_co_files(tree):
    return tree.glob("nemoguardrails/library", (".co",))


def library_flows(tree):
    """[(Flow)] for all flows under nemoguardrails/library/**."""
    out = []
    for rel in library_co_files(tree):
        out += parse_co(tree, rel)
    return out


def is_rejection_marker(s):
    """Rail-exception event creation, or a bot utterance (checked by the caller to be in a
    conditional branch)."""
    if s.kind in ("create_event", "send") and s.name and "Exception" in s.name:
        return "exception"
    if s.kind == "bot":
        return "bot"
    if s.kind == "call" and s.name and s.name.startswith("bot "):
        return "bot"
    return None


def blocking_flows(tree):
    """Library flows that contain a stop/abort (the shipped blocking rails)."""
    out = []
    for f in library_flows(tree):
        if f.kind == "unknown-define":
            continue
        if any(s.kind in ("stop", "abort") for s in f.walk()):
            out.append(f)
    return out
