"""Alias resolution for renamed local variables and parameters.

Many obligations name a local variable of the function they are anchored in (`match_score`, `next_steps`, `flow_finished` ...): the
rule states a fact about *that value*, and the spelling of the variable is how the rule finds it.  Renaming a local is the most common
behaviour-preserving edit there is, so the spelling must not decide a verdict.  This module maps the locals of a function as it is
*now* onto the names the rules were written against:

* `tools/gen_localnames.py` records, for every function of the repository as confirmed by reading, the parameter list and a
  *signature* of every local: the multiset of statements that bind it and the multiset of statements that read it, with the local itself
  written `@` and every other local written `_` (so the signature does not depend on any local's spelling).
* When a file is loaded, every function whose set of locals differs from the recorded one is looked at: a recorded name that has vanished and a
  new name with the *same* signature (unique on both sides; first binding+reading statements, then binding statements alone) are the same
  variable, and the Name nodes of the syntax tree the rules see are given the recorded spelling.  Parameters are aligned by position.

Nothing else is touched.  A function that was really changed keeps whatever names it has where the signatures differ, so the rules see the changed
code exactly as before; the table can only *remove* a spelling difference, never add or hide a statement.  A stale or missing table means no
alias resolution, nothing more."""
import ast
import copy
import hashlib
import json
import os

TABLE = os.path.join(os.path.dirname(os.path.abspath(__file__)), "localnames.json")
_SCOPES = (ast.FunctionDef, ast.AsyncFunctionDef, ast.Lambda, ast.ClassDef)


def own_nodes(fn):
    """Nodes of the function's own scope (nested defs/lambdas/classes are not entered; comprehensions are)."""
    out = []
    stack = list(fn.body) + list(fn.args.defaults) + [d for d in fn.args.kw_defaults if d is not None]
    while stack:
        n = stack.pop()
        out.append(n)
        for ch in ast.iter_child_nodes(n):
            if isinstance(ch, _SCOPES):
                out.append(ch)  # the def itself is visible (its name is bound here), its body is not
                continue
            stack.append(ch)
    return out


def params_of(fn):
    a = fn.args
    out = [x.arg for x in a.posonlyargs + a.args]
    if a.vararg:
        out.append("*" + a.vararg.arg)
    out += [x.arg for x in a.kwonlyargs]
    if a.kwarg:
        out.append("**" + a.kwarg.arg)
    return out


def scope_locals(fn):
    """Names bound by the function's own statements (not parameters, not global/nonlocal, not bound by import / def / class)."""
    nodes = own_nodes(fn)
    banned = {p.lstrip("*") for p in params_of(fn)}
    stores = set()
    for n in nodes:
        if isinstance(n, (ast.Global, ast.Nonlocal)):
            banned |= set(n.names)
        elif isinstance(n, (ast.Import, ast.ImportFrom)):
            for al in n.names:
                banned.add((al.asname or al.name).split(".")[0])
        elif isinstance(n, (ast.FunctionDef, ast.AsyncFunctionDef, ast.ClassDef)):
            banned.add(n.name)
        elif isinstance(n, ast.Name) and isinstance(n.ctx, (ast.Store, ast.Del)):
            stores.add(n.id)
        elif isinstance(n, ast.ExceptHandler) and n.name:
            stores.add(n.name)
    return stores - banned


def _header(stmt):
    """The part of a statement that binds/reads in its own right (bodies of compound statements are statements of their own)."""
    if isinstance(stmt, (ast.For, ast.AsyncFor)):
        return ast.Tuple(elts=[stmt.target, stmt.iter], ctx=ast.Load())
    if isinstance(stmt, (ast.With, ast.AsyncWith)):
        return ast.Tuple(elts=[x for it in stmt.items for x in ([it.context_expr] + ([it.optional_vars] if it.optional_vars is not None else []))], ctx=ast.Load())
    if isinstance(stmt, (ast.If, ast.While)):
        return stmt.test
    if isinstance(stmt, ast.Try) or (hasattr(ast, "TryStar") and isinstance(stmt, getattr(ast, "TryStar"))):
        return None
    if isinstance(stmt, ast.Match):
        return stmt.subject
    if isinstance(stmt, _SCOPES):
        return None
    return stmt


def _statements(fn):
    """(statement, header) pairs of the function's own scope, plus except handlers as pseudo statements."""
    out = []
    stack = list(fn.body)
    while stack:
        s = stack.pop()
        if isinstance(s, _SCOPES):
            continue
        if isinstance(s, ast.ExceptHandler):
            out.append((s, s))
        elif isinstance(s, ast.stmt):
            h = _header(s)
            if h is not None:
                out.append((s, h))
        for f in ("body", "orelse", "finalbody", "handlers"):
            for ch in getattr(s, f, []) or []:
                if isinstance(ch, (ast.stmt, ast.ExceptHandler)):
                    stack.append(ch)
        if isinstance(s, ast.Match):
            for c in s.cases:
                stack.extend(c.body)
    return out


def _text(header, name, local_names):
    if isinstance(header, ast.ExceptHandler):
        t = ast.unparse(header.type) if header.type is not None else ""
        nm = "@" if header.name == name else ("_" if header.name in local_names else (header.name or ""))
        return "except %s as %s" % (t, nm)
    # rename in place, unparse, restore (a deep copy would drag the whole module along through the parent links)
    saved = []
    for n in ast.walk(header):
        if isinstance(n, ast.Name):
            if n.id == name:
                saved.append((n, n.id))
                n.id = "__AT__"
            elif n.id in local_names:
                saved.append((n, n.id))
                n.id = "__US__"
    try:
        return ast.unparse(header)
    except Exception:
        return ast.dump(header)
    finally:
        for n, old in saved:
            n.id = old


def signatures(fn, names=None):
    """name -> (defs-signature, full signature) for the locals of fn (hashes)."""
    local_names = scope_locals(fn)
    stmts = _statements(fn)
    occ = {}
    for s, h in stmts:
        if isinstance(h, ast.ExceptHandler):
            if h.name:
                occ.setdefault(h.name, ([], []))[0].append(h)
            continue
        seen_store, seen_load = set(), set()
        for n in ast.walk(h):
            if isinstance(n, _SCOPES):
                continue
            if isinstance(n, ast.Name) and n.id in local_names:
                if isinstance(n.ctx, (ast.Store, ast.Del)):
                    seen_store.add(n.id)
                else:
                    seen_load.add(n.id)
        if isinstance(s, ast.AugAssign) and isinstance(s.target, ast.Name):
            seen_load.add(s.target.id)
        for x in seen_store:
            occ.setdefault(x, ([], []))[0].append(h)
        for x in seen_load:
            occ.setdefault(x, ([], []))[1].append(h)
    out = {}
    for name in (names if names is not None else local_names):
        d, u = occ.get(name, ([], []))
        ds = sorted(_text(h, name, local_names) for h in d)
        us = sorted(_text(h, name, local_names) for h in u)
        hd = hashlib.sha1("\n".join(ds).encode()).hexdigest()[:12]
        hf = hashlib.sha1(("\n".join(ds) + "\n--\n" + "\n".join(us)).encode()).hexdigest()[:12]
        out[name] = (hd, hf)
    return out


def fn_path(fn):
    parts = [fn.name]
    p = getattr(fn, "_parent", None)
    while p is not None:
        if isinstance(p, (ast.FunctionDef, ast.AsyncFunctionDef, ast.ClassDef)):
            parts.append(p.name)
        p = getattr(p, "_parent", None)
    return ".".join(reversed(parts))


def table_for_tree(tree):
    out = {}
    for fn in ast.walk(tree):
        if isinstance(fn, (ast.FunctionDef, ast.AsyncFunctionDef)):
            sig = signatures(fn)
            key = fn_path(fn)
            if key in out:  # two functions with one path (overloads, if/else definitions): ambiguous, leave alone
                out[key] = None
                continue
            out[key] = {"params": params_of(fn), "locals": {k: list(v) for k, v in sorted(sig.items())}}
            if isinstance(getattr(fn, "_parent", None), (ast.Module, ast.ClassDef)):
                out[key]["body"] = body_signature(fn)
    return {k: v for k, v in out.items() if v is not None}


def body_signature(fn):
    """Hash of a function's body that does not depend on the spelling of its locals, its parameters, or of the plain-name callees (so that several functions of one
    module can be renamed together): used to recognise a renamed function."""
    loc = scope_locals(fn) | {p.lstrip("*") for p in params_of(fn)}
    saved = []
    callees = {id(n.func) for n in ast.walk(fn) if isinstance(n, ast.Call) and isinstance(n.func, ast.Name)}
    def private(x):
        return x.startswith("_") and not x.startswith("__")
    for n in ast.walk(fn):
        if isinstance(n, ast.Name):
            if id(n) in callees or private(n.id):
                saved.append((n, "id", n.id))
                n.id = "__CALL__"
            elif n.id in loc:
                saved.append((n, "id", n.id))
                n.id = "__US__"
        elif isinstance(n, ast.Attribute) and private(n.attr):
            saved.append((n, "attr", n.attr))
            n.attr = "__PRIV__"
        elif isinstance(n, ast.arg):
            saved.append((n, "arg", n.arg))
            n.arg = "__US__"
        elif isinstance(n, ast.ExceptHandler) and n.name:
            saved.append((n, "name", n.name))
            n.name = "__US__"
    body = fn.body
    if body and isinstance(body[0], ast.Expr) and isinstance(body[0].value, ast.Constant) and isinstance(body[0].value.value, str):
        body = body[1:]
    try:
        txt = "\n".join(ast.unparse(s) for s in body) + "|" + ",".join(ast.unparse(d) for d in fn.decorator_list) + "|" + str(len(params_of(fn)))
    except Exception:
        txt = None
    finally:
        for n, f, v in saved:
            setattr(n, f, v)
    if txt is None or len(body) == 0:
        return None
    return hashlib.sha1(txt.encode()).hexdigest()[:12]


def function_renames(tree, rel):
    """{new name: recorded name} for module-level functions and methods of this file that were renamed (same body signature, unique on both sides, same class)."""
    tab = load_table().get(rel)
    if not tab:
        return {}
    cur = {}
    for fn in ast.walk(tree):
        if isinstance(fn, (ast.FunctionDef, ast.AsyncFunctionDef)) and isinstance(getattr(fn, "_parent", None), (ast.Module, ast.ClassDef)):
            cur.setdefault(fn_path(fn), []).append(fn)
    missing = [k for k, v in tab.items() if isinstance(v, dict) and k not in cur and v.get("body")]
    new = [k for k in cur if k not in tab and len(cur[k]) == 1]
    if not missing or not new:
        return {}
    by_ref, by_cur = {}, {}
    for k in missing:
        by_ref.setdefault((k.rpartition(".")[0], tab[k]["body"]), []).append(k)
    for k in new:
        b = body_signature(cur[k][0])
        if b is not None:
            by_cur.setdefault((k.rpartition(".")[0], b), []).append(k)
    out = {}
    for key, ms in by_ref.items():
        ns = by_cur.get(key, [])
        if len(ms) == 1 and len(ns) == 1:
            out[ns[0]] = ms[0]
    return out


def apply_function_renames(tree, renames, cross=None):
    """Rename definitions and references: `renames` = {new path: old path} of this file; `cross` = {new plain name: old plain name} of functions imported from other
    repository modules.  References are plain names, `self.<name>` / `cls.<name>` / `<Class>.<name>` attributes for methods, and import aliases."""
    plain = {}
    meth = {}
    for newp, oldp in renames.items():
        nc, _, nn = newp.rpartition(".")
        oc, _, on = oldp.rpartition(".")
        if nc:
            meth[nn] = on
        else:
            plain[nn] = on
    plain.update(cross or {})
    if not plain and not meth:
        return 0
    used = {n.id for n in ast.walk(tree) if isinstance(n, ast.Name)} | {n.attr for n in ast.walk(tree) if isinstance(n, ast.Attribute)}
    # never rename onto a spelling that is still in use for something else
    plain = {k: v for k, v in plain.items() if v not in used}
    meth = {k: v for k, v in meth.items() if v not in used}
    cnt = 0
    for n in ast.walk(tree):
        if isinstance(n, (ast.FunctionDef, ast.AsyncFunctionDef)):
            par = getattr(n, "_parent", None)
            if isinstance(par, ast.Module) and n.name in plain:
                n.name = plain[n.name]
                cnt += 1
            elif isinstance(par, ast.ClassDef) and n.name in meth:
                n.name = meth[n.name]
                cnt += 1
        elif isinstance(n, ast.Name) and n.id in plain:
            n.id = plain[n.id]
            cnt += 1
        elif isinstance(n, ast.Attribute) and n.attr in meth:
            n.attr = meth[n.attr]
            cnt += 1
        elif isinstance(n, ast.Attribute) and n.attr in plain and isinstance(n.value, ast.Name):
            n.attr = plain[n.attr]      # module.<function>
            cnt += 1
        elif isinstance(n, ast.alias) and n.name in plain and n.asname is None:
            n.name = plain[n.name]
            cnt += 1
    return cnt


_cache = None


def load_table():
    global _cache
    if _cache is None:
        try:
            with open(TABLE) as f:
                _cache = json.load(f)
        except (OSError, ValueError):
            _cache = {}
    return _cache


def _rename(fn, old, new):
    """Give every occurrence of the variable `old` inside fn (nested scopes included: closures read it) the spelling `new`."""
    for n in ast.walk(fn):
        if isinstance(n, ast.Name) and n.id == old:
            n.id = new
        elif isinstance(n, ast.ExceptHandler) and n.name == old:
            n.name = new
        elif isinstance(n, ast.arg) and n.arg == old:
            n.arg = new
        elif isinstance(n, ast.keyword) and False:
            pass


def normalise(tree, rel):
    """Rename renamed locals/parameters of the functions of `tree` back to the recorded spelling (in place).  Returns the list of renames made."""
    tab = load_table().get(rel)
    if not tab:
        return []
    done = []
    seen = {}
    for fn in ast.walk(tree):
        if isinstance(fn, (ast.FunctionDef, ast.AsyncFunctionDef)):
            seen.setdefault(fn_path(fn), []).append(fn)
    for key, fns in seen.items():
        ref = tab.get(key)
        if ref is None or len(fns) != 1:
            continue
        fn = fns[0]
        # nested functions with a parameter of the same name would be captured by a rename: leave such functions alone
        nested_params = set()
        for n in ast.walk(fn):
            if n is not fn and isinstance(n, (ast.FunctionDef, ast.AsyncFunctionDef, ast.Lambda)):
                nested_params |= {p.lstrip("*") for p in params_of(n)}
        all_names = {n.id for n in ast.walk(fn) if isinstance(n, ast.Name)}
        # 1. parameters by position
        cur_p, ref_p = params_of(fn), ref["params"]
        if len(cur_p) == len(ref_p):
            for c, r in zip(cur_p, ref_p):
                if c != r and c.count("*") == r.count("*"):
                    c0, r0 = c.lstrip("*"), r.lstrip("*")
                    if r0 in all_names or r0 in cur_p or c0 in nested_params or r0 in nested_params or c0 in ref["locals"]:
                        continue
                    _rename(fn, c0, r0)
                    done.append((key, c0, r0))
        # 2. locals by signature
        cur = scope_locals(fn)
        refl = ref["locals"]
        missing = [m for m in refl if m not in cur]
        new = [n for n in cur if n not in refl]
        if not missing or not new:
            continue
        all_names = {n.id for n in ast.walk(fn) if isinstance(n, ast.Name)}
        sig = signatures(fn, new)
        for level in (1, 0):  # full signature first, then binding statements alone
            by_ref, by_cur = {}, {}
            for m in missing:
                by_ref.setdefault(refl[m][level], []).append(m)
            for n in new:
                by_cur.setdefault(sig[n][level], []).append(n)
            for h, ms in by_ref.items():
                ns = by_cur.get(h, [])
                if len(ms) == 1 and len(ns) == 1:
                    m, n = ms[0], ns[0]
                    if m in all_names or n in nested_params or m in nested_params:
                        continue
                    _rename(fn, n, m)
                    done.append((key, n, m))
                    missing.remove(m)
                    new.remove(n)
    return done
