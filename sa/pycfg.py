"""Statement-level control-flow graph for one Python function.

Nodes are simple statements and the test expressions of if/while/for/match and with
items; compound statements contribute structure only.  See DESIGN.md appendix A for the
stated approximations (calls are assumed to return except inside `try` bodies, where
every body node has an exceptional edge to every handler).
"""
import ast

from .source import AnalysisError


class Node:
    __slots__ = ("id", "kind", "ast", "stmt", "succ", "pred", "label")

    def __init__(self, id, kind, astnode=None, stmt=None, label=None):
        self.id = id
        self.kind = kind  # entry exit stmt test handler
        self.ast = astnode
        self.stmt = stmt if stmt is not None else astnode
        self.succ = []  # (node, edge label)
        self.pred = []
        self.label = label

    @property
    def line(self):
        return getattr(self.ast, "lineno", None)

    def has_await(self):
        if self.ast is None:
            return False
        if self.kind == "test" and isinstance(self.stmt, (ast.AsyncFor, ast.AsyncWith)):
            return True
        for n in _walk_no_nested(self.ast):
            if isinstance(n, (ast.Await, ast.Yield, ast.YieldFrom)):
                return True
        return False

    def __repr__(self):
        if self.ast is None:
            return "<%s>" % self.kind
        try:
            t = ast.unparse(self.ast).split("\n")[0][:60]
        except Exception:
            t = "?"
        return "<%d %s L%s %s>" % (self.id, self.kind, self.line, t)


def _walk_no_nested(node):
    """ast.walk that does not descend into nested function/class/lambda bodies."""
    stack = [node]
    first = True
    while stack:
        n = stack.pop()
        if not first and isinstance(n, (ast.FunctionDef, ast.AsyncFunctionDef, ast.ClassDef, ast.Lambda)):
            continue
        first = False
        yield n
        stack.extend(ast.iter_child_nodes(n))


walk_no_nested = _walk_no_nested


def _broad(handler):
    """Does the handler catch Exception (or everything)?"""
    t = handler.type
    if t is None:
        return True
    names = []
    if isinstance(t, ast.Tuple):
        names = [ast.unparse(e) for e in t.elts]
    else:
        names = [ast.unparse(t)]
    return any(n in ("Exception", "BaseException") for n in names)


class CFG:
    def __init__(self, fn):
        self.fn = fn
        self.nodes = []
        self.entry = self._new("entry")
        self.exit = self._new("exit")
        self.raise_exit = self._new("exit", label="raise")
        self._loops = []  # (continue target, break collector list)
        self._tries = []  # stack of (handler entry nodes, has_broad, finally body or None)
        self.by_ast = {}
        outs = self._block(fn.body, [(self.entry, None)])
        for n, lab in outs:
            self._edge(n, self.exit, lab)
        self._edge(self.raise_exit, self.exit, None)
        self._dom = None
        self._pdom = None

    # -- construction -----------------------------------------------------------
    def _new(self, kind, astnode=None, stmt=None, label=None):
        n = Node(len(self.nodes), kind, astnode, stmt, label)
        self.nodes.append(n)
        if astnode is not None:
            self.by_ast.setdefault(id(astnode), n)
        # exceptional edges for nodes inside try bodies
        if kind in ("stmt", "test") and self._tries:
            self._exc_edges(n)
        return n

    def _exc_edges(self, n):
        for handlers, broad, fin in reversed(self._tries):
            for h in handlers:
                self._edge(n, h, "exc")
            if broad:
                return
        # not caught by a broad handler anywhere: may escape (implicit; not an edge,
        # see approximation note) -- only explicit `raise` reaches raise_exit.

    def _edge(self, a, b, label=None):
        if (b, label) not in a.succ:
            a.succ.append((b, label))
            b.pred.append((a, label))

    def _connect(self, ins, node):
        for n, lab in ins:
            self._edge(n, node, lab)

    def _block(self, stmts, ins):
        for s in stmts:
            ins = self._stmt(s, ins)
        return ins

    def _stmt(self, s, ins):
        if isinstance(s, ast.If):
            t = self._new("test", s.test, s)
            self._connect(ins, t)
            a = self._block(s.body, [(t, True)])
            b = self._block(s.orelse, [(t, False)]) if s.orelse else [(t, False)]
            return a + b
        if isinstance(s, (ast.While,)):
            t = self._new("test", s.test, s)
            self._connect(ins, t)
            brk = []
            self._loops.append((t, brk))
            body = self._block(s.body, [(t, True)])
            self._loops.pop()
            for n, lab in body:
                self._edge(n, t, "back" if lab is None else lab)
            outs = [(t, False)]
            if isinstance(s.test, ast.Constant) and s.test.value is True:
                outs = []
            if s.orelse:
                outs = self._block(s.orelse, outs)
            return outs + brk
        if isinstance(s, (ast.For, ast.AsyncFor)):
            t = self._new("test", s.iter, s)  # loop header: evaluates iter / next item
            self._connect(ins, t)
            brk = []
            self._loops.append((t, brk))
            body = self._block(s.body, [(t, True)])
            self._loops.pop()
            for n, lab in body:
                self._edge(n, t, "back" if lab is None else lab)
            outs = [(t, False)]
            if s.orelse:
                outs = self._block(s.orelse, outs)
            return outs + brk
        if isinstance(s, (ast.With, ast.AsyncWith)):
            cur = ins
            for item in s.items:
                t = self._new("test", item.context_expr, s)
                self._connect(cur, t)
                cur = [(t, None)]
            return self._block(s.body, cur)
        if isinstance(s, ast.Try) or (hasattr(ast, "TryStar") and isinstance(s, getattr(ast, "TryStar"))):
            return self._try(s, ins)
        if isinstance(s, ast.Match):
            t = self._new("test", s.subject, s)
            self._connect(ins, t)
            outs = []
            exhaustive = False
            for c in s.cases:
                outs += self._block(c.body, [(t, "case")])
                if isinstance(c.pattern, ast.MatchAs) and c.pattern.pattern is None and c.guard is None:
                    exhaustive = True
            if not exhaustive:
                outs.append((t, False))
            return outs
        n = self._new("stmt", s)
        self._connect(ins, n)
        if isinstance(s, ast.Return):
            self._abrupt(n, self.exit)
            return []
        if isinstance(s, ast.Raise):
            self._raise(n)
            return []
        if isinstance(s, ast.Break):
            if not self._loops:
                raise AnalysisError("break outside loop")
            self._loops[-1][1].append((n, None))
            return []
        if isinstance(s, ast.Continue):
            self._edge(n, self._loops[-1][0], "back")
            return []
        return [(n, None)]

    def _abrupt(self, n, target):
        """return: run pending finally blocks (fresh copies), then go to target."""
        cur = [(n, None)]
        for handlers, broad, fin in reversed(self._tries):
            if fin:
                saved = self._tries
                self._tries = []
                cur = self._block(fin, cur)
                self._tries = saved
        for c, lab in cur:
            self._edge(c, target, lab)

    def _raise(self, n):
        # explicit raise: to the handlers of enclosing tries; escapes if none is broad
        for handlers, broad, fin in reversed(self._tries):
            for h in handlers:
                self._edge(n, h, "exc")
            if broad:
                return
        self._abrupt(n, self.raise_exit)

    def _try(self, s, ins):
        hnodes = [self._new_plain("handler", h, s) for h in s.handlers]
        broad = any(_broad(h) for h in s.handlers)
        self._tries.append((hnodes, broad, s.finalbody or None))
        # the try entry itself may raise before the first statement completes
        body = self._block(s.body, ins)
        self._tries.pop()
        # handlers / else run with the finally still pending
        self._tries.append(([], False, s.finalbody or None))
        outs = []
        if s.orelse:
            body = self._block(s.orelse, body)
        outs += body
        for h, hn in zip(s.handlers, hnodes):
            outs += self._block(h.body, [(hn, None)])
        self._tries.pop()
        if s.finalbody:
            outs = self._block(s.finalbody, outs)
        return outs

    def _new_plain(self, kind, astnode, stmt):
        n = Node(len(self.nodes), kind, astnode, stmt)
        self.nodes.append(n)
        self.by_ast.setdefault(id(astnode), n)
        return n

    # -- queries ----------------------------------------------------------------
    def node_of(self, astnode):
        """CFG node of a statement, or of the statement/test containing an expression."""
        n = astnode
        while n is not None:
            if id(n) in self.by_ast:
                return self.by_ast[id(n)]
            n = getattr(n, "_parent", None)
        return None

    def nodes_where(self, pred):
        return [n for n in self.nodes if n.ast is not None and pred(n)]

    def reachable(self, starts, avoid=(), forward=True):
        avoid = set(avoid)
        seen = set()
        stack = [s for s in starts if s not in avoid]
        while stack:
            n = stack.pop()
            if n in seen:
                continue
            seen.add(n)
            for m, _ in (n.succ if forward else n.pred):
                if m not in seen and m not in avoid:
                    stack.append(m)
        return seen

    def reachable_under(self, starts, facts):
        """Nodes reachable from `starts` when the atomic tests listed in `facts` have the given truth values (source.truth): a test whose value is decided by the
        facts is left through that edge only, every other test through both.  Path-sensitive reachability for questions like "can the scoring be reached when the
        two names differ?" - independent of how the tests are nested, ordered or negated.  (Facts are about values that the paths in question do not reassign.)"""
        from .source import truth
        seen = set()
        stack = list(starts)
        while stack:
            n = stack.pop()
            if n in seen:
                continue
            seen.add(n)
            v = truth(n.ast, facts) if n.kind == "test" and n.ast is not None and isinstance(n.ast, ast.expr) else None
            for m, lab in n.succ:
                if v is not None and lab in (True, False) and lab is not v:
                    continue
                if m not in seen:
                    stack.append(m)
        return seen

    def must_pass(self, a, b, through, include_a=False):
        """Every path a ->* b passes a node of `through` (strictly between, unless a
        itself is in `through` and include_a)."""
        through = set(through)
        if include_a and a in through:
            return True
        if b in through:
            return True
        seen = set()
        stack = [m for m, _ in a.succ]
        while stack:
            n = stack.pop()
            if n in seen or n in through:
                continue
            if n is b:
                return False
            seen.add(n)
            stack.extend(m for m, _ in n.succ)
        return True

    def dominators(self):
        if self._dom is None:
            self._dom = self._compute_dom(self.entry, forward=True)
        return self._dom

    def postdominators(self):
        if self._pdom is None:
            self._pdom = self._compute_dom(self.exit, forward=False)
        return self._pdom

    def _compute_dom(self, root, forward):
        reach = self.reachable([root], forward=forward)
        allset = set(reach)
        dom = {n: set(allset) for n in reach}
        dom[root] = {root}
        order = [n for n in self.nodes if n in reach]
        if not forward:
            order = list(reversed(order))
        changed = True
        while changed:
            changed = False
            for n in order:
                if n is root:
                    continue
                preds = [p for p, _ in (n.pred if forward else n.succ) if p in reach]
                if preds:
                    new = set.intersection(*(dom[p] for p in preds)) | {n}
                else:
                    new = {n}
                if new != dom[n]:
                    dom[n] = new
                    changed = True
        return dom

    def dominates(self, a, b):
        d = self.dominators()
        return b in d and a in d[b]

    def postdominates(self, a, b):
        d = self.postdominators()
        return b in d and a in d[b]

    def paths(self, start, end, max_paths=256, back_limit=1, avoid=()):
        """Enumerate paths start ->* end; every back edge taken at most back_limit
        times.  Hitting max_paths is an analysis error (never a pass)."""
        out = []
        stack = [(start, (start,), {})]
        while stack:
            n, path, used = stack.pop()
            if n is end:
                out.append(path)
                if len(out) > max_paths:
                    raise AnalysisError("path bound %d exceeded in %s" % (max_paths, self.fn.name))
                continue
            for m, lab in n.succ:
                if m in avoid:
                    continue
                if m.id <= n.id and m is not end:  # back edge (ids follow creation order)
                    k = (n.id, m.id)
                    if used.get(k, 0) >= back_limit:
                        continue
                    u2 = dict(used)
                    u2[k] = u2.get(k, 0) + 1
                    stack.append((m, path + (m,), u2))
                else:
                    stack.append((m, path + (m,), used))
        return out

    def between(self, a, b):
        """Nodes on some path from a to b (exclusive of neither)."""
        fwd = self.reachable([a])
        bwd = self.reachable([b], forward=False)
        return fwd & bwd


def feasible(path, fn):
    """False when the path takes an edge that simple facts established EARLIER ON THE SAME PATH rule out.  Facts tracked per local name:
      none      after `x = None`
      nonnull   after `x = y` where y is nonnull, or where the function dereferences y unconditionally elsewhere (`y.attr`: the code's own belief that y is an object)
      nonempty  after the false edge of `len(x) == 0` / `not x`, the true edge of `x` / `len(x) > 0`, and for `x = sorted(y, ...)` / `list(y)` with y nonempty
    Every other store to the name forgets its facts.  Used to discard paths like "the retry loop is left although nothing was picked and candidates remain" without
    depending on how the loop is written."""
    from .source import truth, src as _src
    deref = {a.value.id for a in ast.walk(fn) if isinstance(a, ast.Attribute) and isinstance(a.value, ast.Name)}
    null, empt = {}, {}

    def forget(t):
        for x in ast.walk(t):
            if isinstance(x, ast.Name):
                null.pop(x.id, None)
                empt.pop(x.id, None)

    for k, n in enumerate(path):
        a = n.ast
        if a is None:
            continue
        if n.kind == "stmt":
            if isinstance(a, ast.Assign) and len(a.targets) == 1 and isinstance(a.targets[0], ast.Name):
                x, v = a.targets[0].id, a.value
                null.pop(x, None)
                empt.pop(x, None)
                if isinstance(v, ast.Constant) and v.value is None:
                    null[x] = "none"
                elif isinstance(v, ast.Name) and (null.get(v.id) == "nonnull" or (v.id in deref and null.get(v.id) != "none")):
                    null[x] = "nonnull"
                    if empt.get(v.id):
                        empt[x] = True
                elif isinstance(v, ast.Call) and isinstance(v.func, ast.Name) and v.func.id in ("sorted", "list", "tuple") and v.args and isinstance(v.args[0], ast.Name) \
                        and empt.get(v.args[0].id):
                    empt[x] = True
            elif isinstance(a, (ast.Assign, ast.AugAssign, ast.AnnAssign)):
                for t in (a.targets if isinstance(a, ast.Assign) else [a.target]):
                    forget(t)
            elif isinstance(a, (ast.For, ast.AsyncFor)):
                forget(a.target)
            elif isinstance(a, ast.Delete):
                for t in a.targets:
                    forget(t)
            continue
        if n.kind != "test" or not isinstance(a, ast.expr) or k + 1 >= len(path):
            continue
        stmt = n.stmt
        if isinstance(stmt, (ast.For, ast.AsyncFor)) and a is stmt.iter:
            forget(stmt.target)
            continue
        facts = {}
        for x, st in null.items():
            facts["%s is None" % x] = (st == "none")
            if st == "none":
                facts[x] = False
        for x in empt:
            facts[x] = True
            facts["len(%s) == 0" % x] = False
            facts["len(%s) > 0" % x] = True
        labs = [lab for m, lab in n.succ if m is path[k + 1]]
        v = truth(a, facts) if facts else None
        if v is not None and labs and all(lab in (True, False) for lab in labs) and v not in labs:
            return False
        # facts learnt from the edge taken
        if len(labs) == 1 and labs[0] in (True, False):
            t = _src(a).replace(" ", "")
            for nm in {x.id for x in ast.walk(a) if isinstance(x, ast.Name)}:
                if (t in ("len(%s)==0" % nm, "not%s" % nm, "len(%s)<1" % nm) and labs[0] is False) or (t in (nm, "len(%s)>0" % nm, "len(%s)" % nm, "len(%s)!=0" % nm) and labs[0] is True):
                    empt[nm] = True
    return True


def build(fn):
    return CFG(fn)


def enclosing_trys(node, fn=None):
    """Lexically enclosing (Try, part) pairs, innermost first; part in
    body/handler/orelse/finalbody."""
    out = []
    child = node
    p = getattr(node, "_parent", None)
    while p is not None and p is not fn:
        if isinstance(p, ast.Try):
            if any(child is s for s in p.body):
                out.append((p, "body"))
            elif any(child is h for h in p.handlers):
                out.append((p, "handler"))
            elif any(child is s for s in p.orelse):
                out.append((p, "orelse"))
            elif any(child is s for s in p.finalbody):
                out.append((p, "finalbody"))
        if isinstance(p, (ast.FunctionDef, ast.AsyncFunctionDef, ast.Lambda)):
            break
        child = p
        p = getattr(p, "_parent", None)
    return out


def contained(node, fn=None, broad_only=True):
    """The innermost enclosing try whose *body* contains node and which has a handler
    for Exception (or bare); None when the node is not contained."""
    for t, part in enclosing_trys(node, fn):
        if part == "body":
            for h in t.handlers:
                if _broad(h):
                    return t, h
    return None


def handler_reraises(handler):
    """Does the handler body contain a raise not nested in a function?"""
    for s in handler.body:
        for n in _walk_no_nested(s):
            if isinstance(n, ast.Raise):
                return True
    return False


broad_handler = _broad
