"""Canonical view of a Python module: a few purely syntactic choices that do not change behaviour are made the same way everywhere, so that an
obligation states its fact once and two spellings of the same code give the same verdict.  Applied to the syntax tree the rules see (never to disk),
before helpers are followed (inline.py) and locals are aliased (localnames.py).  Line numbers are kept.

  0. negations     `not` is pushed inward: `not not a`, De Morgan, `not a == b` -> `a != b`, `not a in b` -> `a not in b`, `not a is b` -> `a is not b`
  1. polarity      `if not C: A else: B`                 ->  `if C: B else: A`          (any else part, also an elif chain; likewise for `!=`, `not in`, `is not`)
  2. nesting       `if A: (if B: X)` without else parts   ->  `if A and B: X`            (repeatedly; `and` is flattened)
  3. augmented     `x = x <op> e`                         ->  `x <op>= e`                (x a name / attribute path / constant subscript, same text)
  5. guards        `if C: <ends in return/continue/break/raise>` + rest  ->  `if C: ... else: rest`   (done first; 1 and 2 then apply to the result)
  6. no-op exits   a bare `continue` / `return` in tail position of a loop / function body is dropped, with the branch it leaves empty
  7. dict updates  `d.update({k: v, ...})` as a statement  ->  `d[k] = v` ...
  8. path temps    `t = a.b.c` read exactly once, by the next statement, bound nowhere else  ->  inlined
  4. return temp   `v = e` directly followed by `return v`, v bound nowhere else and read nowhere else  ->  `return e`

Each rewrite is an equivalence of Python programs except 3 for operands whose type defines `__iadd__` differently from `__add__` (lists); the view is
used for reading structure, not for execution, and rules that care about aliasing of containers name their stores explicitly."""
import ast

_OPS = (ast.Add, ast.Sub, ast.Mult, ast.Div, ast.FloorDiv, ast.Mod, ast.BitOr, ast.BitAnd)


def _txt(e):
    try:
        return ast.unparse(e)
    except Exception:
        return None


def _path(e):
    if isinstance(e, ast.Name):
        return True
    if isinstance(e, ast.Attribute):
        return _path(e.value)
    if isinstance(e, ast.Subscript):
        return _path(e.value) and isinstance(e.slice, (ast.Constant, ast.Name))
    return False


def _abrupt_end(stmts):
    return bool(stmts) and isinstance(stmts[-1], (ast.Return, ast.Continue, ast.Break, ast.Raise))


def _elseify(stmts):
    """5. `if c: <ends abruptly>` (no else) followed by rest  ->  `if c: ... else: rest`  (the rest runs exactly when the test fails)"""
    for k, s in enumerate(stmts):
        if isinstance(s, ast.If) and not s.orelse and _abrupt_end(s.body) and k + 1 < len(stmts):
            s.orelse = _elseify(stmts[k + 1:])
            return stmts[:k + 1]
    return stmts


def _is_pass_block(stmts):
    return all(isinstance(x, ast.Pass) for x in stmts)


def _strip_tail(stmts, kind):
    """6. a bare `continue` in tail position of a loop body / a bare `return` in tail position of a function body does nothing: drop it, and drop the branch it leaves empty."""
    if not stmts:
        return stmts
    last = stmts[-1]
    if isinstance(last, kind) and (not isinstance(last, ast.Return) or last.value is None or (isinstance(last.value, ast.Constant) and last.value.value is None and False)):
        rest = stmts[:-1]
        return rest if rest else [ast.copy_location(ast.Pass(), last)]
    if isinstance(last, ast.If):
        last.body = _strip_tail(last.body, kind)
        if last.orelse:
            last.orelse = _strip_tail(last.orelse, kind)
        if last.orelse and _is_pass_block(last.orelse):
            last.orelse = []
        if _is_pass_block(last.body) and last.orelse:
            new_test = ast.UnaryOp(op=ast.Not(), operand=last.test)
            ast.copy_location(new_test, last.test)
            last.test = new_test
            last.body, last.orelse = last.orelse, []
        elif _is_pass_block(last.body) and not last.orelse:
            # `if c: pass` - only the evaluation of the test is left; keep it as it is
            pass
    return stmts


class _Guards(ast.NodeTransformer):
    def generic_visit(self, node):
        super().generic_visit(node)
        for f in ("body", "orelse", "finalbody"):
            v = getattr(node, f, None)
            if isinstance(v, list) and v and isinstance(v[0], ast.stmt):
                setattr(node, f, _elseify(v))
        for h in getattr(node, "handlers", []) or []:
            pass
        if isinstance(node, (ast.For, ast.AsyncFor, ast.While)):
            node.body = _strip_tail(node.body, ast.Continue)
        if isinstance(node, (ast.FunctionDef, ast.AsyncFunctionDef)):
            node.body = _strip_tail(node.body, ast.Return)
        return node


_NEG = {ast.Eq: ast.NotEq, ast.NotEq: ast.Eq, ast.In: ast.NotIn, ast.NotIn: ast.In, ast.Is: ast.IsNot, ast.IsNot: ast.Is}


def _negate(e):
    """`not e` with the negation pushed inward: double negation, De Morgan, and the comparison operators that have an exact opposite (== != in not-in is is-not;
    ordering comparisons are left under the `not`: `not a < b` is not `a >= b` for every type)."""
    if isinstance(e, ast.UnaryOp) and isinstance(e.op, ast.Not):
        return e.operand
    if isinstance(e, ast.BoolOp):
        new = ast.BoolOp(op=ast.Or() if isinstance(e.op, ast.And) else ast.And(), values=[_negate(v) for v in e.values])
        return ast.copy_location(new, e)
    if isinstance(e, ast.Compare) and len(e.ops) == 1 and type(e.ops[0]) in _NEG:
        new = ast.Compare(left=e.left, ops=[_NEG[type(e.ops[0])]()], comparators=e.comparators)
        return ast.copy_location(new, e)
    new = ast.UnaryOp(op=ast.Not(), operand=e)
    return ast.copy_location(new, e)


def _negative(e):
    """a test whose negation is the plainer statement: `not x`, `a != b`, `a not in b`, `a is not b`, or an and/or of such"""
    if isinstance(e, ast.UnaryOp) and isinstance(e.op, ast.Not):
        return True
    if isinstance(e, ast.Compare) and len(e.ops) == 1 and isinstance(e.ops[0], (ast.NotEq, ast.NotIn, ast.IsNot)):
        return True
    if isinstance(e, ast.BoolOp):
        return all(_negative(v) for v in e.values)
    return False


class _Canon(ast.NodeTransformer):
    def __init__(self):
        self.count = 0

    # 0: negation normal form
    def visit_UnaryOp(self, node):
        self.generic_visit(node)
        if isinstance(node.op, ast.Not) and isinstance(node.operand, (ast.UnaryOp, ast.BoolOp, ast.Compare)):
            new = _negate(node.operand)
            if not (isinstance(new, ast.UnaryOp) and isinstance(new.op, ast.Not) and new.operand is node.operand):
                self.count += 1
                # the operand may now expose further negations
                return self.visit(new) if isinstance(new, ast.BoolOp) else new
        return node

    def visit_BoolOp(self, node):
        self.generic_visit(node)
        vals = []
        for v in node.values:
            if isinstance(v, ast.BoolOp) and type(v.op) is type(node.op):
                vals.extend(v.values)
            else:
                vals.append(v)
        node.values = vals
        return node

    # 1 + 2
    def visit_If(self, node):
        self.generic_visit(node)
        if node.orelse and _negative(node.test):
            node.test = _negate(node.test)
            node.body, node.orelse = node.orelse, node.body
            self.count += 1
        while not node.orelse and len(node.body) == 1 and isinstance(node.body[0], ast.If) and not node.body[0].orelse:
            inner = node.body[0]
            vals = []
            for t in (node.test, inner.test):
                if isinstance(t, ast.BoolOp) and isinstance(t.op, ast.And):
                    vals.extend(t.values)
                else:
                    vals.append(t)
            new = ast.BoolOp(op=ast.And(), values=vals)
            ast.copy_location(new, node.test)
            node.test = new
            node.body = inner.body
            self.count += 1
        return node

    # 3
    def visit_Assign(self, node):
        self.generic_visit(node)
        if len(node.targets) == 1 and isinstance(node.value, ast.BinOp) and isinstance(node.value.op, _OPS) and _path(node.targets[0]) \
                and _txt(node.targets[0]) == _txt(node.value.left):
            tgt = node.targets[0]
            new = ast.AugAssign(target=tgt, op=node.value.op, value=node.value.right)
            self.count += 1
            return ast.copy_location(new, node)
        return node

    # 4
    def _blocks(self, node):
        for f in ("body", "orelse", "finalbody"):
            v = getattr(node, f, None)
            if isinstance(v, list) and v and isinstance(v[0], ast.stmt):
                yield f, v

    def fold_returns(self, fn):
        stores, loads = {}, {}
        for n in ast.walk(fn):
            if isinstance(n, ast.Name):
                (stores if isinstance(n.ctx, (ast.Store, ast.Del)) else loads).setdefault(n.id, []).append(n)
        params = {a.arg for a in ast.walk(fn.args) if isinstance(a, ast.arg)}

        # a name is a pure return temporary when EVERY binding is `v = e` directly followed by `return v` and it is read nowhere else
        pairs = {}

        def scan(stmts):
            for i, s in enumerate(stmts):
                nxt = stmts[i + 1] if i + 1 < len(stmts) else None
                if isinstance(s, ast.Assign) and len(s.targets) == 1 and isinstance(s.targets[0], ast.Name) and isinstance(nxt, ast.Return) \
                        and isinstance(nxt.value, ast.Name) and nxt.value.id == s.targets[0].id:
                    pairs[s.targets[0].id] = pairs.get(s.targets[0].id, 0) + 1

        for n in ast.walk(fn):
            for f, v in self._blocks(n):
                scan(v)
        temps = {v for v, k in pairs.items() if v not in params and len(stores.get(v, [])) == k and len(loads.get(v, [])) == k}

        def do(stmts):
            out = []
            i = 0
            while i < len(stmts):
                s = stmts[i]
                nxt = stmts[i + 1] if i + 1 < len(stmts) else None
                if isinstance(s, ast.Assign) and len(s.targets) == 1 and isinstance(s.targets[0], ast.Name) and s.targets[0].id in temps and isinstance(nxt, ast.Return) \
                        and isinstance(nxt.value, ast.Name) and nxt.value.id == s.targets[0].id:
                    r = ast.Return(value=s.value)
                    ast.copy_location(r, nxt)
                    out.append(r)
                    self.count += 1
                    i += 2
                    continue
                out.append(s)
                i += 1
            return out

        for n in ast.walk(fn):
            if n is not fn and isinstance(n, (ast.FunctionDef, ast.AsyncFunctionDef, ast.ClassDef)):
                continue
            for f, v in list(self._blocks(n)):
                new = do(v)
                if len(new) != len(v):
                    v[:] = new


def _split_updates(stmts):
    """7. `d.update({k1: v1, k2: v2})` as a statement  ->  `d[k1] = v1` ; `d[k2] = v2`   (dict literal without ** entries, d a name or attribute path)"""
    out = []
    for s in stmts:
        c = s.value if isinstance(s, ast.Expr) else None
        if isinstance(c, ast.Call) and isinstance(c.func, ast.Attribute) and c.func.attr == "update" and len(c.args) == 1 and not c.keywords \
                and isinstance(c.args[0], ast.Dict) and c.args[0].keys and all(k is not None for k in c.args[0].keys) and _path(c.func.value):
            for k, v in zip(c.args[0].keys, c.args[0].values):
                a = ast.Assign(targets=[ast.Subscript(value=c.func.value, slice=k, ctx=ast.Store())], value=v)
                ast.copy_location(a, s)
                ast.copy_location(a.targets[0], s)
                out.append(a)
        else:
            out.append(s)
    return out


class _Updates(ast.NodeTransformer):
    def generic_visit(self, node):
        super().generic_visit(node)
        for f in ("body", "orelse", "finalbody"):
            v = getattr(node, f, None)
            if isinstance(v, list) and v and isinstance(v[0], ast.stmt):
                setattr(node, f, _split_updates(v))
        return node


def _inline_path_temps(fn):
    """8. `t = <access path>` used exactly once, in the statement that follows directly (its own expression, or the header of a compound statement), and bound nowhere else
    ->  the path is written where `t` stood.  Only names/attributes/constant subscripts are moved (no calls): evaluation order and values are unchanged."""
    stores, loads = {}, {}
    for n in ast.walk(fn):
        if isinstance(n, ast.Name):
            (stores if isinstance(n.ctx, (ast.Store, ast.Del)) else loads).setdefault(n.id, []).append(n)
    params = {a.arg for a in ast.walk(fn.args) if isinstance(a, ast.arg)}
    count = 0

    def header_nodes(s):
        if isinstance(s, (ast.For, ast.AsyncFor)):
            return [s.iter]
        if isinstance(s, (ast.If, ast.While)):
            return [s.test]
        if isinstance(s, (ast.With, ast.AsyncWith)):
            return [i.context_expr for i in s.items]
        if isinstance(s, (ast.FunctionDef, ast.AsyncFunctionDef, ast.ClassDef, ast.Try, ast.Match)):
            return []
        return [s]

    def do(stmts):
        nonlocal count
        out = []
        i = 0
        while i < len(stmts):
            s = stmts[i]
            nxt = stmts[i + 1] if i + 1 < len(stmts) else None
            if isinstance(s, ast.Assign) and len(s.targets) == 1 and isinstance(s.targets[0], ast.Name) and nxt is not None and _path(s.value) \
                    and not isinstance(s.value, ast.Name):
                v = s.targets[0].id
                if v not in params and len(stores.get(v, [])) == 1 and len(loads.get(v, [])) == 1:
                    use = loads[v][0]
                    hs = header_nodes(nxt)
                    if any(use is x for h in hs for x in ast.walk(h)):
                        # the path's own names must not be rebound by the next statement before the use (it is a single simple statement / header: they are not)
                        class R(ast.NodeTransformer):
                            def visit_Name(self, n):
                                return s.value if n is use else n
                        for h in hs:
                            R().visit(h)
                        if isinstance(nxt, (ast.For, ast.AsyncFor)) and nxt.iter is use:
                            nxt.iter = s.value
                        if isinstance(nxt, (ast.If, ast.While)) and nxt.test is use:
                            nxt.test = s.value
                        count += 1
                        i += 1
                        continue
            out.append(s)
            i += 1
        return out

    for n in ast.walk(fn):
        for f in ("body", "orelse", "finalbody"):
            v = getattr(n, f, None)
            if isinstance(v, list) and v and isinstance(v[0], ast.stmt):
                new = do(v)
                if len(new) != len(v):
                    v[:] = new
    return count


def canonicalise(tree):
    _Guards().visit(tree)
    _Updates().visit(tree)
    c = _Canon()
    c.visit(tree)
    for fn in ast.walk(tree):
        if isinstance(fn, (ast.FunctionDef, ast.AsyncFunctionDef)):
            c.fold_returns(fn)
            _inline_path_temps(fn)
    ast.fix_missing_locations(tree)
    return c.count
