"""C09 - After each event the interpreter is quiescent and its dispatch index is exact
(mechanisms without which the incremental index cannot be exact)."""
import ast
import re

from ..pycfg import CFG, walk_no_nested
from ..source import atoms, call_name, AnalysisError, find_function, find_class, first_line, src, functions, enclosing_function, enclosing_class, qualname, linear

SM = "nemoguardrails/colang/v2_x/runtime/statemachine.py"
FLOWS = "nemoguardrails/colang/v2_x/runtime/flows.py"
SER = "nemoguardrails/colang/v2_x/runtime/serialization.py"
RT = "nemoguardrails/colang/v2_x/runtime/runtime.py"
DEREG = "_remove_head_from_event_matching_structures"
REG = "_add_head_to_event_matching_structures"
CHANGED = "_flow_head_changed"
INDEX = ("event_matching_heads", "event_matching_heads_reverse_map")


def v2_files(ctx):
    return ctx.tree.glob("nemoguardrails/colang/v2_x", (".py",)) + ctx.tree.glob("nemoguardrails/actions/v2_x", (".py",))


def run(ctx):
    ctx.explanation = ("C09: the mechanisms that keep the event->waiting-heads index exact: notifying setters are the only writers of head position/status, "
                       "every constructed head has both callbacks bound before it moves, every deletion of heads or flow states de-registers first, "
                       "the index has exactly two maintainers, and run_to_completion drains the internal queue.")
    ctx.decided = ["a: no raw store to _position/_status outside the setters", "b: construct -> bind callbacks -> use at every FlowHead construction (3 sites + deserialisation)",
                   "c: de-register before delete at every head / flow-state deletion site", "d: only the two maintainers write the index, symmetrically",
                   "e: single return after the loops, no break in the internal-event loop, loop flags derived from the head lists only"]
    ctx.not_decided = ["the invariant over all reachable states (quiescence, exactness) as such"]
    a_setters(ctx)
    b_construct(ctx)
    c_delete(ctx)
    d_writers(ctx)
    e_drain(ctx)
    f_flow_configs(ctx)
    f_flow_configs_per_state(ctx)
    c_cleanup_purges_children(ctx)
    b_instance_uid_unique(ctx)
    d_index_key_fresh(ctx)
    g_action_refs(ctx)
    g_group_members_copied(ctx)


EXP_ = "nemoguardrails/colang/v2_x/lang/expansion.py"


def g_group_members_copied(ctx):
    """`every action or flow referenced by a running flow still exists`, `no stale entry remains`: the normaliser of and/or groups puts ONE Spec object of a member into every
    and-group it belongs to (`start (a or b) and c`: c is in both).  _expand_element_group hands each member on as the `spec` of a new statement, and the expansion of THAT
    statement writes into the spec (`start`: flow_instance_uid).  Handed on uncopied, the first group starts c with the second group's uid variable: an instance with the uid
    'None', later a second instance under a uid in use - the running instance is overwritten and its head stays in the dispatch index (F167)."""
    mod = ctx.tree.ast(EXP_)
    nf = find_function(mod, "normalize_element_groups")
    fn = find_function(mod, "_expand_element_group")
    if nf is None or fn is None:
        raise AnalysisError("normalize_element_groups / _expand_element_group not found", anchor=EXP_ + "::_expand_element_group")
    shares = not any(isinstance(c, ast.Call) and src(c.func) in ("copy.deepcopy", "deepcopy", "copy.copy") for c in ast.walk(nf))
    loops = [l for l in ast.walk(fn) if isinstance(l, ast.For) and isinstance(l.target, ast.Name) and "elements" in src(l.iter)]
    n = 0
    for l in loops:
        v = l.target.id
        for c in ast.walk(l):
            if isinstance(c, ast.Call) and src(c.func) == "SpecOp":
                for k in c.keywords:
                    if k.arg == "spec" and any(isinstance(x, ast.Name) and x.id == v for x in ast.walk(k.value)):
                        # with a single and-group no member is in two groups: that branch is exempt
                        single = False
                        child, par = c, getattr(c, "_parent", None)
                        while par is not None and par is not fn:
                            if isinstance(par, ast.If) and re.sub(r"\s", "", src(par.test)).endswith("==1") and "len(" in src(par.test) and any(
                                    child is b_ or any(child is y for y in ast.walk(b_)) for b_ in par.body):
                                single = True
                            child, par = par, getattr(par, "_parent", None)
                        if single:
                            continue
                        n += 1
                        copied = isinstance(k.value, ast.Call) and src(k.value.func) in ("copy.deepcopy", "deepcopy") or any(
                            isinstance(a, ast.Assign) and src(a.targets[0]) == v and isinstance(a.value, ast.Call) and src(a.value.func) in ("copy.deepcopy", "deepcopy")
                            and a.lineno < c.lineno for a in l.body)
                        ok = copied or not shares
                        ctx.check("C09.g.group-members-copied", EXP_, "_expand_element_group", "SpecOp(spec=%s)" % first_line(k.value, 40), ok,
                                  "the member handed on to the next expansion is a copy" if ok else
                                  "the member `%s` is handed on as it is, but the normaliser shares one object between the and-groups it belongs to and the expansion of the new statement "
                                  "writes into it: in `start (a or b) and c` both groups start c with the LAST group's instance uid variable" % v, line=c.lineno)
    ctx.floor("C09.g.group-members-copied", EXP_, "group members handed on as the spec of a new statement", n, 1)


def a_setters(ctx):
    n = 0
    for rel in v2_files(ctx):
        t = ctx.tree.ast(rel)
        for x in ast.walk(t):
            if isinstance(x, ast.Attribute) and x.attr in ("_position", "_status") and isinstance(x.ctx, ast.Store):
                cls = enclosing_class(x)
                fn = enclosing_function(x)
                ok = cls is not None and cls.name in ("FlowHead", "FlowState") and fn is not None and fn.name in ("position", "status") \
                    and any("setter" in src(d) for d in fn.decorator_list)
                n += 1
                ctx.check("C09.a.setters", rel, qualname(fn) if fn else "<module>", first_line(x), ok,
                          "raw store to %s %s" % (x.attr, "inside the notifying property setter" if ok else
                                                  "OUTSIDE the property setter: the head moves without notifying the matching index"), line=x.lineno)
            # setattr(head, "_position", ...)
            if isinstance(x, ast.Call) and isinstance(x.func, ast.Name) and x.func.id == "setattr" and len(x.args) >= 2 \
                    and isinstance(x.args[1], ast.Constant) and x.args[1].value in ("_position", "_status"):
                ctx.check("C09.a.setters", rel, qualname(enclosing_function(x)), first_line(x), False, "setattr of %s bypasses the notifying setter" % x.args[1].value, line=x.lineno)
    ctx.floor("C09.a.setters", FLOWS, "raw stores to _position/_status (inside setters)", n, 3)
    # the setters notify
    t = ctx.tree.ast(FLOWS)
    cls = find_class(t, "FlowHead")
    if cls is None:
        raise AnalysisError("class FlowHead not found", anchor=FLOWS + "::FlowHead")
    for prop, cb in (("position", "position_changed_callback"), ("status", "status_changed_callback")):
        setter = [f for f in cls.body if isinstance(f, ast.FunctionDef) and f.name == prop and any("setter" in src(d) for d in f.decorator_list)]
        ok = bool(setter) and any(isinstance(c, ast.Call) and src(c.func) == "self.%s" % cb and [src(a) for a in c.args] == ["self"] for c in ast.walk(setter[0]))
        # the call happens after the store
        if ok:
            store = [x for x in ast.walk(setter[0]) if isinstance(x, ast.Attribute) and x.attr == "_" + prop and isinstance(x.ctx, ast.Store)]
            call = [c for c in ast.walk(setter[0]) if isinstance(c, ast.Call) and src(c.func) == "self.%s" % cb]
            ok = bool(store) and store[0].lineno < call[0].lineno
        ctx.check("C09.a.setters", FLOWS, "FlowHead.%s" % prop, "setter notifies", ok,
                  "the %s setter stores the new value and then calls %s(self)" % (prop, cb), line=(setter[0].lineno if setter else cls.lineno))


def _bindings(fn, var):
    """{callback name: (stmt, partial args)} for `var.<cb> = partial(_flow_head_changed, a, b)`"""
    out = {}
    for s in walk_no_nested(fn):
        if isinstance(s, ast.Assign) and isinstance(s.targets[0], ast.Attribute) and src(s.targets[0].value) == var \
                and s.targets[0].attr in ("position_changed_callback", "status_changed_callback"):
            v = s.value
            if isinstance(v, ast.Call) and src(v.func).endswith("partial") and v.args and src(v.args[0]) == CHANGED:
                out.setdefault(s.targets[0].attr, (s, [src(a) for a in v.args[1:]]))
    return out


def b_construct(ctx):
    t = ctx.tree.ast(SM)
    sites = [c for c in ast.walk(t) if isinstance(c, ast.Call) and isinstance(c.func, ast.Name) and c.func.id == "FlowHead"]
    others = []
    for rel in v2_files(ctx):
        if rel in (SM, FLOWS):
            continue
        others += [(rel, c) for c in ast.walk(ctx.tree.ast(rel)) if isinstance(c, ast.Call) and isinstance(c.func, ast.Name) and c.func.id == "FlowHead"]
    ctx.floor("C09.b.construct", SM, "FlowHead( construction sites", len(sites), 3)
    for rel, c in others:
        ctx.check("C09.b.construct", rel, qualname(enclosing_function(c)), first_line(c), False,
                  "FlowHead constructed outside statemachine.py: no rule establishes that its callbacks are bound", line=c.lineno)
    for c in sites:
        fn = enclosing_function(c)
        unit = fn.name
        par = getattr(c, "_parent", None)
        kw = {k.arg: src(k.value) for k in c.keywords}
        owner = kw.get("flow_state_uid", "")
        if isinstance(par, ast.Assign) and isinstance(par.targets[0], ast.Name):
            var = par.targets[0].id
            b = _bindings(fn, var)
            ok = set(b) == {"position_changed_callback", "status_changed_callback"}
            msg = "both callbacks of `%s` are bound to partial(_flow_head_changed, state, <owner flow>)" % var
            if ok:
                for cb, (s, args) in b.items():
                    if len(args) != 2 or args[0] != "state" or owner != args[1] + ".uid":
                        ok, msg = False, "callback %s is bound with %s but the head belongs to %s" % (cb, args, owner)
            else:
                msg = "head `%s` is constructed but only %s bound: its moves do not update the matching index" % (var, sorted(b) or "no callback is")
            if ok:
                cfg = CFG(fn)
                cnode = cfg.node_of(par)
                bind_nodes = [cfg.node_of(s) for s, _ in b.values()]
                uses = [n for n in cfg.nodes if n.kind == "stmt" and isinstance(n.ast, (ast.Assign, ast.AugAssign))
                        and any(isinstance(x, ast.Attribute) and x.attr in ("position", "status") and src(x.value) == var and isinstance(x.ctx, ast.Store)
                                for x in ast.walk(n.ast))]
                for u in uses:
                    for bn in bind_nodes:
                        if u in cfg.reachable([cnode]) and not cfg.must_pass(cnode, u, [bn]):
                            ok, msg = False, "`%s` is executed on a path from the construction that has not bound %s yet" % (first_line(u.ast, 50), first_line(bn.ast, 40))
                # the head is registered once explicitly or by a first move
                touched = bool(uses) or any(isinstance(x, ast.Call) and src(x.func) == CHANGED and src(x.args[-1]) == var for x in walk_no_nested(fn))
                if ok and not touched:
                    ok, msg = False, "the new head is never registered (no first move and no explicit _flow_head_changed call)"
            ctx.check("C09.b.construct", SM, unit, "FlowHead(...) -> %s" % var, ok, msg, line=c.lineno)
        else:
            # constructed inline (create_flow_instance): bound by add_new_flow_instance
            add = find_function(t, "add_new_flow_instance")
            ok, msg = False, "inline construction but add_new_flow_instance not found"
            if add is not None:
                hv = [s.targets[0].id for s in linear(add.body) if isinstance(s, ast.Assign) and isinstance(s.targets[0], ast.Name) and ".heads" in src(s.value)]
                if hv:
                    b = _bindings(add, hv[0])
                    fs = add.args.args[1].arg
                    ok = set(b) == {"position_changed_callback", "status_changed_callback"} and all(a == ["state", fs] for _, a in b.values()) \
                        and any(isinstance(x, ast.Call) and src(x.func) == CHANGED and [src(a) for a in x.args] == ["state", fs, hv[0]] for x in ast.walk(add))
                    msg = "the head built inline in %s is bound and registered by add_new_flow_instance" % unit
                # every caller hands the new instance straight to add_new_flow_instance
                callers = []
                for f in functions(t):
                    for cc in ast.walk(f):
                        if isinstance(cc, ast.Call) and isinstance(cc.func, ast.Name) and cc.func.id == unit:
                            callers.append((f, cc))
                for f, cc in callers:
                    p2 = getattr(cc, "_parent", None)
                    direct = isinstance(p2, ast.Call) and src(p2.func) == "add_new_flow_instance"
                    if not direct and isinstance(p2, ast.Assign) and isinstance(p2.targets[0], ast.Name):
                        v = p2.targets[0].id
                        cfg = CFG(f)
                        cn = cfg.node_of(p2)
                        adds = [n for n in cfg.nodes if n.ast is not None and any(isinstance(x, ast.Call) and src(x.func) == "add_new_flow_instance" and src(x.args[-1]) == v
                                                                                   for x in walk_no_nested(n.ast))]
                        moves = [n for n in cfg.nodes if n.ast is not None and n.kind == "stmt" and re.search(r"\b%s\.heads\b" % v, src(n.ast)) and n not in adds]
                        reach = cfg.reachable([cn])
                        stored = [n for n in cfg.nodes if n.ast is not None and n in reach and n not in adds and re.search(r"flow_states\b.*\b%s\b" % v, src(n.ast))
                                  and isinstance(n.ast, (ast.Assign, ast.Expr))]
                        # a temporary instance that is never added, never stored and whose heads are never touched is fine
                        direct = all(cfg.must_pass(cn, m, adds) for m in moves + stored if m in reach)
                    ctx.check("C09.b.construct", SM, f.name, first_line(cc), direct,
                              "the instance returned by %s reaches add_new_flow_instance before any of its heads is touched" % unit, line=cc.lineno)
                ctx.floor("C09.b.construct", SM, "callers of create_flow_instance", len(callers), 2)
            ctx.check("C09.b.construct", SM, unit, "FlowHead(...) inline", ok, msg, line=c.lineno)
    # deserialisation re-binds every head
    ts = ctx.tree.ast(SER)
    fn = find_function(ts, "json_to_state")
    if fn is None:
        raise AnalysisError("json_to_state not found", anchor=SER + "::json_to_state")
    ok = False
    for f1 in [n for n in ast.walk(fn) if isinstance(n, ast.For) and "flow_states" in src(n.iter)]:
        for f2 in [n for n in ast.walk(f1) if isinstance(n, ast.For) and ".heads" in src(n.iter)]:
            hv = f2.target.elts[-1].id if isinstance(f2.target, ast.Tuple) else (f2.target.id if isinstance(f2.target, ast.Name) else None)
            fsv = f1.target.elts[-1].id if isinstance(f1.target, ast.Tuple) else (f1.target.id if isinstance(f1.target, ast.Name) else None)
            b = {}
            for s in f2.body:
                if isinstance(s, ast.Assign) and isinstance(s.targets[0], ast.Attribute) and src(s.targets[0].value) == hv and isinstance(s.value, ast.Call):
                    b[s.targets[0].attr] = [src(a) for a in s.value.args]
            ok = set(b) == {"position_changed_callback", "status_changed_callback"} and all(a == [CHANGED, "state", fsv] for a in b.values())
    ctx.check("C09.b.deserialise", SER, "json_to_state", "re-bind callbacks", ok,
              "after decoding, both callbacks of every head of every flow state are re-bound to partial(_flow_head_changed, state, flow_state)", line=fn.lineno)


def c_delete(ctx):
    sites = []
    for rel in v2_files(ctx):
        t = ctx.tree.ast(rel)
        for n in ast.walk(t):
            if isinstance(n, ast.Delete):
                for tg in n.targets:
                    if isinstance(tg, ast.Subscript) and isinstance(tg.value, ast.Attribute) and tg.value.attr in ("heads", "flow_states"):
                        sites.append((rel, n, tg.value.attr, "del", tg))
            elif isinstance(n, ast.Expr) and isinstance(n.value, ast.Call) and isinstance(n.value.func, ast.Attribute) \
                    and n.value.func.attr in ("clear", "pop", "popitem") and isinstance(n.value.func.value, ast.Attribute) \
                    and n.value.func.value.attr in ("heads", "flow_states"):
                sites.append((rel, n, n.value.func.value.attr, n.value.func.attr, n.value.func.value))
            elif isinstance(n, ast.Assign) and any(isinstance(x, ast.Attribute) and x.attr == "heads" for x in n.targets) and enclosing_function(n) is not None \
                    and enclosing_function(n).name != "__init__":
                sites.append((rel, n, "heads", "assign", n.targets[0]))
    ctx.floor("C09.c.deregister-before-delete", SM, "deletions of heads / flow states", len(sites), 6)
    for rel, n, what, how, tg in sites:
        fn = enclosing_function(n)
        unit = qualname(fn) if fn else "<module>"
        cfg = CFG(fn)
        node = cfg.node_of(n)
        ok, msg = False, ""
        if what == "heads":
            owner = src(tg.value) if how == "del" else src(tg.value if how != "assign" else tg.value)
            if how == "del":
                # del X.heads[k]  after  X.heads[k].status = INACTIVE  (status store triggers the callback => removal)
                key = src(tg.slice)
                pre = [m for m in cfg.nodes if m.kind == "stmt" and isinstance(m.ast, ast.Assign) and src(m.ast.targets[0]) == "%s[%s].status" % (src(tg.value), key)
                       and src(m.ast.value) == "FlowHeadStatus.INACTIVE"]
                pre += [m for m in cfg.nodes if m.ast is not None and any(isinstance(c, ast.Call) and src(c.func) == DEREG and key in src(c) for c in walk_no_nested(m.ast))]
                ok = bool(pre) and any(cfg.dominates(p, node) for p in pre)
                msg = "`%s` is dominated by setting that head INACTIVE (the status callback removes it from the index)" % first_line(n)
            else:
                # clear() / assignment: preceded on every path by the de-registration loop over the same heads
                owner = src(tg.value)
                loops = [m for m in cfg.nodes if m.kind == "test" and isinstance(m.stmt, ast.For) and re.sub(r"\s", "", src(m.stmt.iter)) in
                         ("%s.heads.values()" % owner, "list(%s.heads.values())" % owner)
                         and any(isinstance(c, ast.Call) and src(c.func) == DEREG for c in ast.walk(m.stmt))]
                ok = bool(loops) and any(cfg.dominates(l, node) for l in loops)
                msg = "`%s` is dominated by the loop that de-registers every head of %s from the index" % (first_line(n), owner)
        else:
            # del state.flow_states[uid]
            if fn.name == "_clean_up_state":
                # age-based deletion: only done instances are candidates, and done statuses are only stored after heads.clear()
                from ._railrules import cleanup_candidates
                cands = cleanup_candidates(fn)
                cvars = {re.sub(r"\W", "", v) for _, _, v in cands}
                # the deletion loop iterates over the collected candidates (possibly after they were filtered into another local list derived from them)
                derived = set(cvars)
                for a_ in ast.walk(fn):
                    if isinstance(a_, ast.Assign) and isinstance(a_.targets[0], ast.Name) and any(isinstance(x, ast.Name) and x.id in derived for x in ast.walk(a_.value)):
                        derived.add(a_.targets[0].id)
                ok = bool(cands) and any(isinstance(a, ast.For) and any(isinstance(x, ast.Name) and x.id in derived for x in ast.walk(a.iter)) for a in _anc(n, fn))
                msg = "age-based deletion only removes instances collected under the done-status test (their heads were cleared when the status was stored)"
            else:
                # any other deletion must de-register the heads of the deleted instance first (or abort it)
                dereg = [m for m in cfg.nodes if m.ast is not None and any(isinstance(c, ast.Call) and src(c.func).split(".")[-1] in (DEREG, "_abort_flow") for c in walk_no_nested(m.ast))]
                dereg += [m for m in cfg.nodes if m.kind == "test" and isinstance(m.stmt, ast.For) and ".heads" in src(m.stmt.iter)
                          and any(isinstance(c, ast.Call) and src(c.func).split(".")[-1] == DEREG for c in ast.walk(m.stmt))]
                ok = bool(dereg) and any(cfg.dominates(d, node) for d in dereg)
                msg = "`%s` is dominated by de-registration of the instance's heads" % first_line(n) if ok else \
                    "`%s` deletes flow states whose waiting heads stay in state.event_matching_heads: the next event of that name looks up a flow state that no longer exists (KeyError in run_to_completion)" % first_line(n)
        ctx.check("C09.c.deregister-before-delete", rel, unit, first_line(n), ok, msg, line=n.lineno)
    # done statuses are stored only after heads.clear()
    t = ctx.tree.ast(SM)
    for fn in functions(t):
        stores = [s for s in walk_no_nested(fn) if isinstance(s, ast.Assign) and isinstance(s.targets[0], ast.Attribute) and s.targets[0].attr == "status"
                  and src(s.value) in ("FlowStatus.STOPPED", "FlowStatus.FINISHED")]
        if not stores:
            continue
        cfg = CFG(fn)
        for s in stores:
            owner = src(s.targets[0].value)
            clears = [m for m in cfg.nodes if m.kind == "stmt" and re.sub(r"\s", "", src(m.ast)) == "%s.heads.clear()" % owner]
            ok = bool(clears) and any(cfg.dominates(c, cfg.node_of(s)) for c in clears)
            ctx.check("C09.c.done-after-clear", SM, fn.name, src(s), ok,
                      "the done status is stored only after `%s.heads.clear()` (finished or failed instances hold no position)" % owner, line=s.lineno)


def d_writers(ctx):
    n = 0
    for rel in v2_files(ctx):
        t = ctx.tree.ast(rel)
        for x in ast.walk(t):
            hit = None
            if isinstance(x, ast.Attribute) and x.attr in INDEX:
                par = getattr(x, "_parent", None)
                if isinstance(x.ctx, ast.Store):
                    hit = x
                elif isinstance(par, ast.Subscript) and isinstance(getattr(par, "ctx", None), (ast.Store, ast.Del)):
                    hit = par
                elif isinstance(par, ast.Attribute) and par.attr in ("update", "pop", "clear", "setdefault", "popitem", "append", "remove", "extend", "insert") \
                        and isinstance(getattr(par, "_parent", None), ast.Call):
                    hit = par
                elif isinstance(par, ast.Subscript):
                    # state.event_matching_heads[name].remove(...) / .append(...)
                    p2 = getattr(par, "_parent", None)
                    if isinstance(p2, ast.Attribute) and p2.attr in ("append", "remove", "pop", "clear", "extend", "insert") and isinstance(getattr(p2, "_parent", None), ast.Call):
                        hit = p2
            if hit is not None:
                fn = enclosing_function(x)
                q = qualname(fn) if fn else "<module>"
                ok = rel == SM and q in (REG, DEREG)
                n += 1
                ctx.check("C09.d.index-writers", rel, q, first_line(getattr(hit, "_parent", hit)), ok,
                          "mutation of the matching index %s" % ("by one of its two maintainers" if ok else
                                                                 "outside its two maintainers: index and reverse map can diverge from the heads"), line=x.lineno)
    ctx.floor("C09.d.index-writers", SM, "mutations of the matching index", n, 4)
    # aliases obtained through .get() that are mutated (heads = state.event_matching_heads.get(...); heads.append(...))
    t = ctx.tree.ast(SM)
    for fn in functions(t):
        aliases = {s.targets[0].id for s in walk_no_nested(fn) if isinstance(s, ast.Assign) and isinstance(s.targets[0], ast.Name)
                   and any(isinstance(a, ast.Attribute) and a.attr in INDEX for a in ast.walk(s.value))
                   and not (isinstance(s.value, ast.Call) and isinstance(s.value.func, ast.Attribute) and s.value.func.attr == "copy")}
        for c in walk_no_nested(fn):
            if isinstance(c, ast.Call) and isinstance(c.func, ast.Attribute) and c.func.attr in ("append", "remove", "pop", "clear", "extend", "insert", "update") \
                    and isinstance(c.func.value, ast.Name) and c.func.value.id in aliases:
                ok = fn.name in (REG, DEREG)
                ctx.check("C09.d.index-writers", SM, fn.name, first_line(c), ok,
                          "mutation of an alias of the matching index %s" % ("by a maintainer" if ok else "outside the maintainers (a `.copy()` is missing)"), line=c.lineno)
    # symmetry of the two maintainers
    add = find_function(t, REG)
    rem = find_function(t, DEREG)
    if add is None or rem is None:
        raise AnalysisError("index maintainers not found", anchor=SM + "::" + REG)
    a_src, r_src = re.sub(r"\s", "", src(add)), re.sub(r"\s", "", src(rem))
    ok = "(flow_state.uid,head.uid)" in a_src and "flow_state.uid+head.uid" in a_src and \
        ("event_matching_heads_reverse_map.update" in a_src or "event_matching_heads_reverse_map[flow_state.uid+head.uid]=" in a_src)
    ctx.check("C09.d.maintainers", SM, REG, "adds to both maps", ok, "registration appends (flow uid, head uid) under the event name and records the event name in the reverse map under flow uid + head uid", line=add.lineno)
    ok = ".remove((flow_state.uid,head.uid))" in r_src and "event_matching_heads_reverse_map.pop(flow_state.uid+head.uid)" in r_src
    ctx.check("C09.d.maintainers", SM, DEREG, "removes from both maps", ok, "de-registration removes the same pair and the same reverse key", line=rem.lineno)
    ch = find_function(t, CHANGED)
    if ch is None:
        raise AnalysisError("_flow_head_changed not found", anchor=SM + "::" + CHANGED)
    body = ch.body[1:] if isinstance(ch.body[0], ast.Expr) and isinstance(ch.body[0].value, ast.Constant) else ch.body
    ok = isinstance(body[0], ast.Expr) and src(body[0].value.func) == DEREG and any(isinstance(s, ast.If) and REG in src(s) and "is_match_op_element" in src(s.test)
                                                                                      and "INACTIVE" in src(s.test) for s in body[1:])
    ctx.check("C09.d.maintainers", SM, CHANGED, "remove then conditional add", ok,
              "the change callback first removes the head and re-adds it only if it is active, its flow listens and it stands on a match element", line=ch.lineno)


def e_drain(ctx):
    t = ctx.tree.ast(SM)
    fn = find_function(t, "run_to_completion")
    if fn is None:
        raise AnalysisError("run_to_completion not found", anchor=SM + "::run_to_completion")
    rets = [n for n in walk_no_nested(fn) if isinstance(n, ast.Return)]
    ok = len(rets) == 1 and rets[0] is fn.body[-1]
    ctx.check("C09.e.drain", SM, "run_to_completion", "single return", ok, "the only return is the last statement, after the processing loops", line=fn.lineno)
    loops = [n for n in walk_no_nested(fn) if isinstance(n, ast.While)]
    q = [w for w in loops if re.sub(r"\s", "", src(w.test)) == "state.internal_events"]
    ok = len(q) == 1
    ctx.check("C09.e.drain", SM, "run_to_completion", "while state.internal_events", ok, "internal events are processed by a `while state.internal_events` loop", line=fn.lineno)
    if ok:
        w = q[0]

        def own_breaks(loop):
            out = []
            stack = list(loop.body)
            while stack:
                s = stack.pop()
                if isinstance(s, ast.Break):
                    out.append(s)
                if isinstance(s, (ast.For, ast.While, ast.FunctionDef, ast.AsyncFunctionDef)):
                    continue
                for f in ("body", "orelse", "finalbody", "handlers"):
                    for ch in getattr(s, f, []) or []:
                        stack.append(ch)
            return out

        ctx.check("C09.e.drain", SM, "run_to_completion", "no break in the queue loop", not own_breaks(w) and not [r for r in ast.walk(w) if isinstance(r, ast.Return)],
                  "the queue loop has no break/return: it ends only when no internal event is pending", line=w.lineno)
        pops = [c for c in ast.walk(w) if isinstance(c, ast.Call) and re.sub(r"\s", "", src(c.func)) in ("state.internal_events.popleft", "state.internal_events.pop")]
        ctx.check("C09.e.drain", SM, "run_to_completion", "queue consumed", len(pops) == 1, "each iteration consumes exactly one event from the queue", line=w.lineno)
    for flag, lst in (("heads_are_advancing", "advancing_heads"), ("heads_are_merging", "merging_heads")):
        outer = [w for w in loops if re.sub(r"\s", "", src(w.test)) == flag]
        stores = [s for s in walk_no_nested(fn) if isinstance(s, ast.Assign) and isinstance(s.targets[0], ast.Name) and s.targets[0].id == flag]
        # the flag is True, "the head list is not empty", or that OR "internal events are pending" (a disjunct can only keep the loop going: more draining, never less)
        def _work_pending(e):
            txt = re.sub(r"\s", "", src(e))
            return txt in ("len(%s)>0" % lst, "bool(%s)" % lst, "len(state.internal_events)>0", "bool(state.internal_events)")

        def _ok_value(v):
            if src(v) == "True" or _work_pending(v):
                return True
            return isinstance(v, ast.BoolOp) and isinstance(v.op, ast.Or) and all(_work_pending(x) for x in v.values) and any(
                re.sub(r"\s", "", src(x)) in ("len(%s)>0" % lst, "bool(%s)" % lst) for x in v.values)
        good = all(_ok_value(s.value) for s in stores)
        derived = any(_ok_value(s.value) and src(s.value) != "True" for s in stores)
        ctx.check("C09.e.drain", SM, "run_to_completion", "loop flag %s" % flag, len(outer) == 1 and good and derived,
                  "`while %s` ends only when `%s` is empty (the flag is assigned True or len(%s) > 0 only)" % (flag, lst, lst), line=fn.lineno)


def _anc(node, stop):
    p = getattr(node, "_parent", None)
    while p is not None and p is not stop:
        yield p
        p = getattr(p, "_parent", None)


def d_index_key_fresh(ctx):
    """The dispatch index must hold a waiting head under the event name its pattern denotes NOW.  For `match $ref.Finished()` the name depends on the object the
    variable holds in this instance, so the key has to be computed from (state, flow_state, element) at every registration - never taken from a per-statement cache -
    and the shared flow configuration is read-only at run time."""
    t = ctx.tree.ast(SM)
    reg = find_function(t, REG)
    if reg is None:
        raise AnalysisError("%s not found" % REG, anchor=SM + "::" + REG)
    keys = set()
    for c in ast.walk(reg):
        if isinstance(c, ast.Call) and isinstance(c.func, ast.Attribute) and src(c.func.value) == "state.event_matching_heads" and c.func.attr in ("get", "setdefault") and c.args:
            keys.add(src(c.args[0]))
        if isinstance(c, ast.Subscript) and src(c.value) == "state.event_matching_heads":
            keys.add(src(c.slice))
    keys = {k for k in keys if k.isidentifier()}
    if not keys:
        raise AnalysisError("index key variable not found in %s" % REG, anchor=SM + "::" + REG + "::key")
    for k in sorted(keys):
        defs = [a for a in ast.walk(reg) if isinstance(a, ast.Assign) and any(src(x) == k for x in a.targets)]
        ok = bool(defs) and all(isinstance(a.value, ast.Call) and src(a.value.func) == "get_event_name_from_element" and
                                [src(x) for x in a.value.args][:3] == ["state", "flow_state", "element"] for a in defs)
        ctx.check("C09.d.index-key", SM, REG, "%s = ..." % k, ok,
                  "the index key is get_event_name_from_element(state, flow_state, element), computed at every registration" if ok else
                  "the index key `%s` has a definition that is not a fresh get_event_name_from_element(state, flow_state, element) (%s): for `match $ref.<Event>()` the name depends on the object in "
                  "THIS instance's variable, a remembered name registers the head under another action's event and the event it waits for never reaches it"
                  % (k, "; ".join(first_line(a, 50) for a in defs if not (isinstance(a.value, ast.Call) and src(a.value.func) == "get_event_name_from_element"))), line=(defs[0].lineno if defs else reg.lineno))
    # no function of the state machine other than initialize_flow writes into a flow configuration
    writers = []
    for fn in functions(t):
        if fn.name == "initialize_flow":
            continue
        for n in walk_no_nested(fn):
            tg = n.targets if isinstance(n, ast.Assign) else [n.target] if isinstance(n, ast.AugAssign) else []
            for x in tg:
                b = x
                while isinstance(b, (ast.Attribute, ast.Subscript)):
                    b = b.value
                if isinstance(x, (ast.Attribute, ast.Subscript)) and isinstance(b, ast.Name) and b.id in ("flow_config", "main_flow_config"):
                    writers.append((fn, n))
            if isinstance(n, ast.Call) and isinstance(n.func, ast.Attribute) and n.func.attr in ("update", "append", "pop", "setdefault", "clear", "extend", "insert") \
                    and re.match(r"(flow_config|main_flow_config)\.\w+", src(n.func.value)):
                writers.append((fn, n))
    ctx.check("C09.d.index-key", SM, "<module>", "flow configurations are read-only at run time", not writers,
              "only initialize_flow writes into a FlowConfig" if not writers else
              "flow configuration written at run time: %s" % "; ".join("%s: %s" % (f.name, first_line(n, 50)) for f, n in writers), line=(writers[0][1].lineno if writers else 1))


def f_flow_configs(ctx):
    """Head positions are indexes into FlowConfig.elements: the element list of a flow that may
    have running instances must never be replaced while the state lives."""
    t = ctx.tree.ast(RT)
    n = 0
    for fn in functions(t):
        stores = []
        for x in walk_no_nested(fn):
            if isinstance(x, ast.Call) and isinstance(x.func, ast.Attribute) and x.func.attr in ("update", "__setitem__", "setdefault") and src(x.func.value) == "state.flow_configs":
                stores.append(x)
            if isinstance(x, ast.Assign) and isinstance(x.targets[0], ast.Subscript) and src(x.targets[0].value) == "state.flow_configs":
                stores.append(x)
        if not stores:
            continue
        cfg = CFG(fn)
        for st in stores:
            n += 1
            snode = cfg.node_of(st)
            key = None
            if isinstance(st, ast.Call) and st.args and isinstance(st.args[0], ast.Dict) and st.args[0].keys:
                key = src(st.args[0].keys[0])
            elif isinstance(st, ast.Assign):
                key = src(st.targets[0].slice)
            tests = [m for m in cfg.nodes if m.kind == "test" and isinstance(m.stmt, ast.If) and key is not None
                     and re.sub(r"\s", "", src(m.ast)) == "%sinstate.flow_configs" % re.sub(r"\s", "", key) and cfg.dominates(m, snode)]
            ok = False
            for m in tests:
                outs = {lab: x for x, lab in m.succ}
                if True in outs and snode not in cfg.reachable([outs[True]], avoid={m}):
                    ok = True
            ctx.check("C09.f.flow-config-immutable", RT, qualname(fn), first_line(st), ok,
                      "a flow configuration is stored only for a name that is not yet in state.flow_configs (existing definitions are never replaced)" if ok else
                      "`%s` can overwrite the configuration of an existing flow: running instances keep head positions that index the OLD element list, so heads end up on non-waiting statements and the matching index goes stale" % first_line(st),
                      line=st.lineno)
    ctx.floor("C09.f.flow-config-immutable", RT, "run-time stores into state.flow_configs", n, 1)


RT2 = "nemoguardrails/colang/v2_x/runtime/runtime.py"


def f_flow_configs_per_state(ctx):
    """`every flow referenced by a running flow still exists`: AddFlowsAction / RemoveFlowsAction edit `state.flow_configs`.  If a new conversation state is created with the
    runtime's own table (`flow_configs=self.flow_configs`) all conversations share ONE table: a flow removed in conversation A vanishes under a running instance of
    conversation B, whose waiting head stays in the index and raises KeyError on every later event (F108).  A new State gets a copy of the table."""
    t = ctx.tree.ast(RT2)
    cons = [c for c in ast.walk(t) if isinstance(c, ast.Call) and src(c.func) == "State" and any(k.arg == "flow_configs" for k in c.keywords)]
    ctx.floor("C09.f.flow-configs-per-state", RT2, "State(...) constructions with a flow_configs table", len(cons), 1)
    for c in cons:
        v = [k.value for k in c.keywords if k.arg == "flow_configs"][0]
        shared = isinstance(v, ast.Attribute) and isinstance(v.value, ast.Name) and v.value.id == "self"
        fn = enclosing_function(c)
        ctx.check("C09.f.flow-configs-per-state", RT2, qualname(fn) if fn is not None else "<module>", "flow_configs of a new State", not shared,
                  "a new conversation state gets its own copy of the flow configuration table" if not shared else
                  "`flow_configs=%s`: every conversation state aliases the runtime's table, so flows added/removed at run time in one conversation change the program of all others" % src(v),
                  line=c.lineno)


def c_cleanup_purges_children(ctx):
    """An activated flow is entered in the child list of EVERY flow that activates it, but knows only one parent.  When the clean-up discards a finished instance it has to take
    its uid out of all child lists (or every walk over child_flow_uids has to tolerate unknown uids): otherwise a later deactivate/abort of another activator indexes
    `state.flow_states[<discarded uid>]` and raises KeyError - the activator is never stopped (F109)."""
    t = ctx.tree.ast(SM)
    cu = find_function(t, "_clean_up_state")
    if cu is None:
        raise AnalysisError("_clean_up_state not found", anchor=SM + "::_clean_up_state")
    dels = [d for d in ast.walk(cu) if isinstance(d, ast.Delete) and any("flow_states[" in src(tg) for tg in d.targets)]
    ctx.floor("C09.c.cleanup-purges-children", SM, "deletion of discarded flow instances", len(dels), 1)
    purges = [c for c in ast.walk(cu) if isinstance(c, ast.Call) and isinstance(c.func, ast.Attribute) and c.func.attr in ("remove", "discard") and "child_flow_uids" in src(c.func.value)]
    purges += [a for a in ast.walk(cu) if isinstance(a, ast.Assign) and "child_flow_uids" in src(a.targets[0])]
    def _all_flows(l):
        its = [l.iter] if isinstance(l, ast.For) else [g.iter for g in l.generators]
        return any(re.sub(r"\s", "", src(i)) in ("state.flow_states.values()", "state.flow_states.items()", "list(state.flow_states.values())") for i in its)
    over_all = any(isinstance(l, (ast.For, ast.ListComp, ast.GeneratorExp)) and _all_flows(l) and any(p_ in list(ast.walk(l)) for p_ in purges) for l in ast.walk(cu))
    # alternative: all walks over child_flow_uids that index flow_states are guarded
    unguarded = []
    for fn in functions(t):
        for l in [x for x in ast.walk(fn) if isinstance(x, ast.For) and "child_flow_uids" in src(x.iter)]:
            v = src(l.target)
            for sub in ast.walk(l):
                if isinstance(sub, ast.Subscript) and src(sub.value).endswith("flow_states") and src(sub.slice) == v and isinstance(sub.ctx, ast.Load):
                    guarded = any(isinstance(p_, ast.If) and any(isinstance(a_, ast.Compare) and isinstance(a_.ops[0], (ast.In, ast.NotIn)) and src(a_.left) == v for a_ in atoms(p_.test))
                                  for p_ in list(_anc(sub, l)) + [x for x in l.body if isinstance(x, ast.If)])
                    if not guarded:
                        unguarded.append((fn.name, sub))
    ok = over_all or not unguarded
    ctx.check("C09.c.cleanup-purges-children", SM, "_clean_up_state", "discarded instances leave every child list", ok,
              "the clean-up removes the uid of a discarded instance from the child list of every remaining flow" if over_all else (
                  "every walk over child_flow_uids tolerates unknown uids" if ok else
                  "the clean-up deletes instances but leaves their uid in the child lists of other activators, and %d walk(s) over child_flow_uids index state.flow_states unguarded "
                  "(first: %s): KeyError when such an activator is deactivated or aborted after the idle time" % (len(unguarded), unguarded[0][0])),
              line=(dels[0].lineno if dels else cu.lineno))


def b_instance_uid_unique(ctx):
    """A StartFlow event may name the uid of the new instance (`send StartFlow(flow_id=..., flow_instance_uid=...)`, the documented expanded form of `start`).  Registering an
    instance under a uid that a RUNNING instance already has overwrites that instance: its waiting head stays in the index, pointing at a head the new instance does not have
    (F112).  Either the dispatch ignores such a start or add_new_flow_instance refuses it."""
    t = ctx.tree.ast(SM)
    add = find_function(t, "add_new_flow_instance")
    disp = find_function(t, "_process_internal_events_without_default_matchers")
    if add is None or disp is None:
        raise AnalysisError("add_new_flow_instance / dispatch not found", anchor=SM + "::add_new_flow_instance")
    from ..pycfg import build
    cfg = build(add)
    lookups = {a.targets[0].id for a in ast.walk(add) if isinstance(a, ast.Assign) and isinstance(a.targets[0], ast.Name) and isinstance(a.value, ast.Call)
               and isinstance(a.value.func, ast.Attribute) and a.value.func.attr == "get" and src(a.value.func.value).endswith("flow_states") and "uid" in src(a.value)}

    def in_use(e):
        # the positive form of "an instance is registered under this uid"
        if isinstance(e, ast.Compare) and len(e.ops) == 1 and isinstance(e.ops[0], ast.In) and src(e.comparators[0]).endswith("flow_states") and "uid" in src(e.left):
            return True
        return isinstance(e, ast.Name) and e.id in lookups

    def is_none(e):
        return isinstance(e, ast.Compare) and len(e.ops) == 1 and isinstance(e.ops[0], ast.Is) and isinstance(e.left, ast.Name) and e.left.id in lookups and src(e.comparators[0]) == "None"

    def is_not_none(e):
        return isinstance(e, ast.Compare) and len(e.ops) == 1 and isinstance(e.ops[0], ast.IsNot) and isinstance(e.left, ast.Name) and e.left.id in lookups and src(e.comparators[0]) == "None"

    def not_in_use(e):
        return isinstance(e, ast.Compare) and len(e.ops) == 1 and isinstance(e.ops[0], ast.NotIn) and src(e.comparators[0]).endswith("flow_states") and "uid" in src(e.left)

    def done(e):
        return isinstance(e, ast.Call) and call_name(e) == "_is_done_flow"

    writes = [n for n in cfg.nodes if n.stmt is not None and n.kind != "test" and (
        (isinstance(n.stmt, ast.Expr) and isinstance(n.stmt.value, ast.Call) and src(n.stmt.value.func).endswith("flow_states.update")) or
        (isinstance(n.stmt, ast.Assign) and isinstance(n.stmt.targets[0], ast.Subscript) and src(n.stmt.targets[0].value).endswith("flow_states")))]
    ctx.floor("C09.b.instance-uid-unique", SM, "registrations in state.flow_states by add_new_flow_instance", len(writes), 1)
    alive = cfg.reachable_under([cfg.entry], {in_use: True, is_none: False, is_not_none: True, not_in_use: False, done: False})
    ended = cfg.reachable_under([cfg.entry], {in_use: True, is_none: False, is_not_none: True, not_in_use: False, done: True})
    start_branches = [i for i in ast.walk(disp) if isinstance(i, ast.If) and "START_FLOW" in src(i.test)]
    ignored = any(isinstance(j, ast.If) and "flow_instance_uid" in src(j.test) and "flow_states" in src(j.test) and "source_flow_instance_uid" not in src(j.test)
                  for i in start_branches for st in i.body for j in ast.walk(st))
    ok = ignored or not any(w in alive for w in writes)
    ctx.check("C09.b.instance-uid-unique", SM, "add_new_flow_instance", "a uid in use is not registered again", ok,
              "a start that names the uid of an instance that has not ended is refused: the registration is not reachable when the uid is in use by a live instance" if ok else
              "state.flow_states[uid] is overwritten without looking whether a running instance has that uid: the old instance's waiting head stays in event_matching_heads and every "
              "later event of that name raises KeyError (no flow can process it any more)", line=add.lineno)
    # the other direction (F169): ended instances stay registered until the clean-up, such a uid is free again
    raises = [n for n in ended if n.stmt is not None and isinstance(n.stmt, ast.Raise)]
    ok2 = not raises
    ctx.check("C09.b.ended-uid-free", SM, "add_new_flow_instance", "a uid whose instance has ended can be used again", ok2,
              "no refusal is reachable when the registered instance has ended" if ok2 else
              "`%s` is reached also when the instance registered under the uid has ENDED (ended instances stay in state.flow_states until the clean-up): a flow that is "
              "started again under the uid of its finished predecessor is refused and its sender fails" % first_line(raises[0].stmt), line=(raises[0].stmt.lineno if raises else add.lineno))
    if any(w in ended for w in writes) and any(in_use(a_) or is_none(a_) or is_not_none(a_) or not_in_use(a_) for n in cfg.nodes if n.kind == "test" and isinstance(n.ast, ast.expr) for a_ in atoms(n.ast)):
        # the ended instance is replaced: its entry in the per-flow list goes with it (the list is what restarts and deactivations walk)
        removal = [n for n in cfg.nodes if n.stmt is not None and isinstance(n.stmt, ast.Expr) and isinstance(n.stmt.value, ast.Call) and isinstance(n.stmt.value.func, ast.Attribute)
                   and n.stmt.value.func.attr == "remove" and "flow_id_states" in src(n.stmt.value.func.value)]
        ok3 = any(r in ended for r in removal)
        ctx.check("C09.b.ended-uid-free", SM, "add_new_flow_instance", "the replaced instance leaves the per-flow list", ok3,
                  "the ended instance is taken out of state.flow_id_states before its uid is registered again" if ok3 else
                  "the ended instance is overwritten in state.flow_states but stays in state.flow_id_states[flow_id]: the per-flow list then holds an instance that the state no longer knows "
                  "(deactivation and restart walk that list and look its members up by uid)", line=add.lineno)


def g_action_refs(ctx):
    """Every action referenced by a running flow still exists: an Action is referenced from
    FlowState.action_uids, from the action lists of the flow's open scopes and from context
    variables; a site that deletes one Action from state.actions must redirect all three."""
    t = ctx.tree.ast(SM)
    sites = [n for n in ast.walk(t) if isinstance(n, ast.Delete) and any(isinstance(tg, ast.Subscript) and src(tg.value) == "state.actions" for tg in n.targets)]
    sites += [n for n in ast.walk(t) if isinstance(n, ast.Expr) and isinstance(n.value, ast.Call) and src(n.value.func) in ("state.actions.pop",)]
    ctx.floor("C09.g.action-refs", SM, "deletions of single actions from state.actions", len(sites), 1)
    for d in sites:
        fn = enclosing_function(d)
        blk = None
        p = getattr(d, "_parent", None)
        for f in ("body", "orelse"):
            b = getattr(p, f, None)
            if isinstance(b, list) and d in b:
                blk = b[: b.index(d)]
        text = " ".join(src(s) for s in (blk or []))
        refs = {"action_uids": re.search(r"\.action_uids\[[^\]]+\]\s*=", text) is not None,
                "scopes": ".scopes" in text and re.search(r"scope\w*\[[^\]]+\]\s*=", text) is not None,
                "context": re.search(r"\.context\[[^\]]+\]\s*=", text) is not None}
        missing = sorted(k for k, v in refs.items() if not v)
        ctx.check("C09.g.action-refs", SM, qualname(fn), first_line(d), not missing,
                  "before the Action is deleted its uid is redirected in action_uids, in the open scopes' action lists and in the context" if not missing else
                  "`%s` deletes an Action but does not redirect its uid in %s of the flow that referenced it: a later EndScope / flow end looks the uid up in state.actions and raises KeyError, failing a flow that did nothing wrong" % (
                      first_line(d), missing), line=d.lineno)
