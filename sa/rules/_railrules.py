"""Rule functions shared by C01 / C02 / C03 / C16 (rails pipeline written in Colang)."""
import re

from .. import rails
from ..cobase import py_expr, vars_in
from ..coflow import AObj, TOP, Walker, induction_loop
from ..source import AnalysisError


def classify_rail(flow):
    n = flow.name
    if re.search(r"\binput\b", n):
        return "input"
    if re.search(r"\boutput\b|facts|hallucination|truthcheck|trustworthiness", n):
        return "output"
    if re.search(r"\bretrieval\b", n):
        return "retrieval"
    return "generic"


# frozen table: blocking rail flows confirmed by reading on today's tree
# (file, flow name).  A flow of this table that no longer contains stop/abort is reported.
BLOCKING = [
    ("activefence/flows.co", "activefence moderation"),
    ("activefence/flows.co", "activefence moderation detailed"),
    ("activefence/flows.v1.co", "activefence moderation"),
    ("activefence/flows.v1.co", "activefence moderation detailed"),
    ("autoalign/flows.co", "autoalign check input"),
    ("autoalign/flows.co", "autoalign check output"),
    ("autoalign/flows.v1.co", "autoalign check input"),
    ("autoalign/flows.v1.co", "autoalign check output"),
    ("cleanlab/flows.co", "cleanlab trustworthiness"),
    ("cleanlab/flows.v1.co", "cleanlab trustworthiness"),
    ("content_safety/flows.co", "content safety check input"),
    ("content_safety/flows.co", "content safety check output"),
    ("content_safety/flows.v1.co", "content safety check input"),
    ("content_safety/flows.v1.co", "content safety check output"),
    ("factchecking/align_score/flows.co", "alignscore check facts"),
    ("factchecking/align_score/flows.v1.co", "alignscore check facts"),
    ("gcp_moderate_text/flows.co", "gcpnlp moderation"),
    ("gcp_moderate_text/flows.co", "gcpnlp moderation detailed"),
    ("gotitai/flows.co", "gotitai rag truthcheck"),
    ("gotitai/flows.v1.co", "gotitai rag truthcheck"),
    ("hallucination/flows.co", "self check hallucination"),
    ("hallucination/flows.v1.co", "self check hallucination"),
    ("jailbreak_detection/flows.co", "jailbreak detection heuristics"),
    ("jailbreak_detection/flows.v1.co", "jailbreak detection heuristics"),
    ("llama_guard/flows.co", "llama guard check input"),
    ("llama_guard/flows.co", "llama guard check output"),
    ("llama_guard/flows.v1.co", "llama guard check input"),
    ("llama_guard/flows.v1.co", "llama guard check output"),
    ("patronusai/flows.co", "patronus lynx check output hallucination"),
    ("patronusai/flows.v1.co", "patronus lynx check output hallucination"),
    ("self_check/facts/flows.co", "self check facts"),
    ("self_check/facts/flows.v1.co", "self check facts"),
    ("self_check/input_check/flows.co", "self check input"),
    ("self_check/input_check/flows.v1.co", "self check input"),
    ("self_check/output_check/flows.co", "self check output"),
    ("self_check/output_check/flows.v1.co", "self check output"),
    ("sensitive_data_detection/flows.co", "detect sensitive data on input"),
    ("sensitive_data_detection/flows.co", "detect sensitive data on output"),
    ("sensitive_data_detection/flows.co", "detect sensitive data on retrieval"),
    ("sensitive_data_detection/flows.v1.co", "detect sensitive data on input"),
    ("sensitive_data_detection/flows.v1.co", "detect sensitive data on output"),
    ("sensitive_data_detection/flows.v1.co", "detect sensitive data on retrieval"),
]


def reject_stop(ctx, rule, categories):
    """Reject => stop/abort: on every path of every blocking rail flow of the given
    categories, a rejection marker is followed by stop/abort before the flow ends."""
    tree = ctx.tree
    flows = rails.library_flows(tree)
    by_key = {}
    for f in flows:
        by_key[(f.file.replace("nemoguardrails/library/", ""), f.name)] = f
    scope = []
    for f in flows:
        if f.kind == "unknown-define":
            continue
        if classify_rail(f) not in categories:
            continue
        has_stop = any(s.kind in ("stop", "abort") for s in f.walk())
        key = (f.file.replace("nemoguardrails/library/", ""), f.name)
        if has_stop or key in BLOCKING:
            scope.append(f)
    # frozen instances that vanished (or lost their only stop)
    for key in BLOCKING:
        f = by_key.get(key)
        cat = None
        if f is None:
            # classify by name to attribute the missing instance to the right property
            class _N:  # noqa
                name = key[1]
            cat = classify_rail(_N)
            if cat in categories:
                ctx.check(rule, "nemoguardrails/library/" + key[0], key[1], "flow %s" % key[1], False,
                          "blocking rail flow '%s' confirmed on the reference tree no longer exists in %s" % (key[1], key[0]))
            continue
        if classify_rail(f) in categories and not any(s.kind in ("stop", "abort") for s in f.walk()):
            ctx.check(rule, f.file, f.name, "flow %s" % f.name, False,
                      "blocking rail flow '%s' no longer contains any stop/abort: a rejection cannot end the turn" % f.name, line=f.line)
    n_markers = 0
    for f in scope:
        f.require_classified()
        w = Walker()
        paths = w.run(f.body, {})
        ctx.count(len(paths))
        # per marker statement: ok iff every path through it ends in stop/abort
        verdict = {}
        for p in paths:
            cond_depth = 0
            for i, s in enumerate(p.steps):
                if s.kind == "branch":
                    cond_depth += 1
                mk = rails.is_rejection_marker(s)
                if mk is None:
                    continue
                if mk == "bot" and cond_depth == 0:
                    continue  # an unconditional utterance / trigger is not a rejection
                ok = p.outcome in ("stop", "abort")
                v = verdict.setdefault(id(s), [s, True, None])
                if not ok:
                    v[1] = False
                    v[2] = p
        for s, ok, p in verdict.values():
            n_markers += 1
            ctx.check(rule, f.file, f.name, s.text, ok,
                      "rejection marker `%s` in rail flow '%s' is %s" % (
                          s.text[:70], f.name,
                          "followed by stop/abort on every path" if ok else
                          "NOT followed by stop/abort: the path %s ends with outcome '%s', so the turn continues after the rail rejected" % (
                              " > ".join(x.text[:40] for x in p.steps if x.kind in ("branch", "create_event", "send", "bot", "call", "stop", "abort")), p.outcome)),
                      line=s.line)
    return scope, n_markers


def runner_order_once(ctx, rule, flows, category):
    """Induction-variable rule on the runner's while loop: each configured rail is
    called exactly once, in list order."""
    f = rails.find_runner(flows, category)
    if f is None:
        raise AnalysisError("runner subflow for $config.rails.%s.flows not found in llm_flows.co" % category,
                            anchor="llm_flows.co::runner(%s)" % category)
    idx = None
    for i, s in enumerate(f.body):
        if s.kind == "while" and any(x.kind == "do" and x.name.startswith("$") for x in s.walk()):
            idx = i
            break
    if idx is None:
        raise AnalysisError("runner loop not found in '%s'" % f.name, anchor="llm_flows.co::%s::while" % f.name)
    info = induction_loop(f.body, idx)
    unit = f.name
    file = f.file
    if info is None:
        ctx.check(rule, file, unit, f.body[idx].text, False,
                  "loop guard of the %s rails runner is not of the form `$i < len($flows)`: cannot establish that every configured rail runs" % category,
                  line=f.body[idx].line)
        return f
    w = info["loop"]
    ctx.check(rule, file, unit, "init %s" % info["var"], info["init_ok"],
              "index variable $%s is initialised to the literal 0 immediately before the loop (found: %s)" % (
                  info["var"], info["init"].text if info["init"] else "no unconditional initialisation"),
              line=(info["init"].line if info["init"] else w.line))
    cd = info["coll_def"]
    ok = cd is not None and re.sub(r"\s", "", cd.expr) == "$config.rails.%s.flows" % category
    ctx.check(rule, file, unit, "collection %s" % info["coll"], ok,
              "loop collection $%s is bound to $config.rails.%s.flows (found: %s)" % (info["coll"], category, cd.text if cd else None),
              line=(cd.line if cd else w.line))
    ctx.check(rule, file, unit, "increment %s" % info["var"], info["incr_uncond"] and info["step"] == 1,
              "exactly one unconditional `$%s = $%s + 1` per iteration (found %d write(s), step %s, unconditional=%s)" % (
                  info["var"], info["var"], info["incr_count"], info["step"], info["incr_uncond"]), line=w.line)
    ctx.check(rule, file, unit, "no reassign/break", not info["coll_reassigned"] and not info["has_break_continue"],
              "the rail list is not reassigned and the loop has no break/continue that would skip a rail", line=w.line)
    calls = info["calls"]
    top_level = [c for c in calls if any(c[0] is s for s in w.body)]
    ctx.check(rule, file, unit, "calls per iteration", len(calls) == 1 and len(top_level) == 1,
              "exactly one unconditional `do $%s[...]` per iteration (found %d, %d unconditional)" % (info["coll"], len(calls), len(top_level)),
              line=w.line)
    for c, off, _ in calls:
        ctx.check(rule, file, unit, c.text, off == 0,
                  "rail call `%s` indexes the list at the iteration's entry value of $%s (offset %s): rails run in configured order, none skipped or repeated" % (
                      c.text, info["var"], off), line=c.line)
    return f


def cleanup_candidates(fn):
    """How _clean_up_state collects the flow states it will delete: [(collecting node, [conjunct expr nodes], collection variable)] for both forms -
    `if <cond>: X.append(uid)` inside a loop over the flow states, and `X = [fs.uid for fs in ... if <cond>]`."""
    import ast as _ast
    from ..source import src as _src
    out = []
    for n in _ast.walk(fn):
        if isinstance(n, _ast.If):
            apps = [c for st in n.body for c in _ast.walk(st) if isinstance(c, _ast.Call) and isinstance(c.func, _ast.Attribute) and c.func.attr == "append" and "uid" in _src(c)]
            if apps and "_is_done_flow" in _src(n.test):
                te = n.test
                conj = list(te.values) if isinstance(te, _ast.BoolOp) and isinstance(te.op, _ast.And) else [te]
                out.append((n, conj, _src(apps[0].func.value)))
        if isinstance(n, _ast.Assign) and isinstance(n.value, _ast.ListComp) and n.value.generators and "flow_states" in _src(n.value.generators[0].iter) \
                and "uid" in _src(n.value.elt) and n.value.generators[0].ifs:
            conj = []
            for te in n.value.generators[0].ifs:
                conj += list(te.values) if isinstance(te, _ast.BoolOp) and isinstance(te.op, _ast.And) else [te]
            if any("_is_done_flow" in _src(c) for c in conj):
                out.append((n, conj, _src(n.targets[0])))
    return out


def refusal_defined(ctx, rule, categories):
    """A Colang 1.0 rail refuses with `bot <intent>` + `stop`.  If no `define bot <intent>` exists, generate_bot_message falls back to GENERATING the text with the main LLM
    (in passthrough mode with the raw user message as the prompt): the turn in which the rail rejected makes an LLM call and returns its completion.  So every refusal intent
    used by a shipped blocking rail must be defined in the shipped library (or in llm_flows.co)."""
    from .. import colang1
    tree = ctx.tree
    defined = set()
    for rel in list(rails.library_co_files(tree)) + [rails.LLM_FLOWS]:
        text = tree.text(rel)
        if rails.dialect_of(text) != "1.0":
            continue
        _, msgs = colang1.parse(text, rel)
        defined |= {name for (k, name) in msgs if k == "bot"}
    n = 0
    for f in rails.library_flows(tree):
        if f.dialect != "1.0" or f.kind == "unknown-define" or classify_rail(f) not in categories:
            continue
        if not any(s.kind in ("stop", "abort") for s in f.walk()):
            continue
        w = Walker()
        for pth in w.run(f.body, {}):
            if pth.outcome not in ("stop", "abort"):
                continue
            depth = 0
            for s in pth.steps:
                if s.kind == "branch":
                    depth += 1
                if s.kind == "bot" and depth > 0:
                    name = (s.name or s.text[3:]).strip()
                    if name.startswith("$") or name == "...":
                        continue
                    n += 1
                    ok = name in defined
                    ctx.check(rule, f.file, f.name, s.text, ok,
                              "refusal `%s` has a predefined message" % s.text if ok else
                              "the rail refuses with `%s`, but no `define bot %s` exists in the shipped library: generate_bot_message falls back to the main LLM (in passthrough mode "
                              "with the rejected user message as the prompt) and the completion is returned instead of a refusal" % (s.text, name), line=s.line)
    return n


def context_globals(ctx, rule, categories):
    """Colang 2.x: a variable is shared with the rest of the configuration only after the flow EXECUTED `global $x`.  A shipped rail that reads `$user_message`,
    `$bot_message`, `$check_facts`, ... before such a statement reads an unset local: its action receives None / its enabling test is never true, and the rail never
    checks anything.  Decided per flow in statement order: every `$x` read is a parameter, a return member, assigned or bound (`as $x`) earlier in the flow, or declared
    global earlier on the way."""
    from ..cobase import vars_in
    n = 0
    for f in rails.library_flows(ctx.tree):
        if f.dialect != "2.x" or f.kind == "unknown-define" or classify_rail(f) not in categories:
            continue
        names = [x[0] if isinstance(x, tuple) else x for x in list(f.params) + list(f.returns)]
        defined = {str(x).lstrip("$") for x in names} | {"system", "self"}
        reported = set()
        for s in f.walk():
            txt = " ".join(x for x in [s.expr or "", s.args or "", s.cond or ""] if x)
            if s.branches:
                txt += " " + " ".join(c for c, _ in s.branches if isinstance(c, str))
            if s.kind in ("log", "print"):
                txt = ""
            for m in re.finditer(r"\bas\s+\$(\w+)", s.text or ""):
                defined.add(m.group(1))
            for r in sorted(vars_in(txt)):
                n += 1
                if r in defined or r in reported:
                    continue
                reported.add(r)
                ctx.check(rule, f.file, f.name, s.text[:90], False,
                          "`$%s` is read here before the flow declared it `global` (or bound it): in Colang 2.x that is an unset local, so the rail's action receives None / its "
                          "test is never true and the configured rail never checks the message" % r, line=s.line)
            if s.kind == "global" and s.target:
                defined.add(s.target)
            if s.target:
                defined.add(s.target)
            if s.ref:
                defined.add(s.ref.lstrip("$"))
        ctx.check(rule, f.file, f.name, "reads of context variables", not reported,
                  "every variable the rail reads is a parameter, bound earlier, or declared global before the read" if not reported else
                  "reads of undeclared variables: %s" % sorted(reported), line=f.line)
    return n
