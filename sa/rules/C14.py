"""C14 - Colang 1.0 dialog flows are followed like structured programs."""
import ast
import re

from .. import emit1
from ..emit1 import Aff, Seg, El
from ..pycalls import CallGraph
from ..pycfg import walk_no_nested
from ..source import atoms, atom_key, side, truth as cond_truth, AnalysisError, find_function, find_class, first_line, src, functions, qualname

COYML = "nemoguardrails/colang/v1_0/lang/coyml_parser.py"
SLIDING = "nemoguardrails/colang/v1_0/runtime/sliding.py"
FLOWS1 = "nemoguardrails/colang/v1_0/runtime/flows.py"
RT1 = "nemoguardrails/colang/v1_0/runtime/runtime.py"
OFFSET_KEYS = ("_next", "_next_else", "_next_on_break", "_next_on_continue", "branch_heads", "_absolute")
INERT = {
    "any": "dead feature: produced by the parser, consumed nowhere; outside the structured subset of the property",
    "meta": "leading meta elements are stripped into the flow's meta data; elsewhere they never match an event",
    "start_flow": "runtime-created marker consumed by the event matcher when a dynamic flow is started",
}


def run(ctx):
    ctx.explanation = ("C14: (a) source structure <-> relative offsets of the Colang 1.0 compiler, as affine identities (emit1); (b) every element type the compiler can "
                       "emit has a consumer; (c) the decision is a function of the history: no observable mutation of shared configuration along compute_next_steps.")
    ctx.decided = ["a: if/else, while/break/continue, branch and goto offsets land on the element the source construct designates", "a': consumer/producer agreement of offset keys",
                   "b: opcode exhaustiveness (parser element types vs slide / flows.py consumers)",
                   "c: compute_next_steps builds a fresh State, stores into shared flow configuration only under keys nobody reads, writes no module globals"]
    ctx.not_decided = ["the replay semantics of compute_next_state itself (matching of intents, priorities)"]
    offsets(ctx, "C14.a")
    post_passes(ctx, "C14.a.post-pass")
    key_agreement(ctx, "C14.a.keys")
    b_opcodes(ctx)
    c_no_mutation(ctx)
    d_subflow_resume(ctx)
    e_assignment(ctx)
    f_decision_priority(ctx)
    d_completion_siblings(ctx)
    b_branch_indentation(ctx)
    c_start_probe(ctx)
    c_no_module_state(ctx)
    d_instance_uids(ctx)
    b_else_binding(ctx)
    b_branch_choice(ctx)
    b_pass_is_noop(ctx)
    d_waiting_flow_triggered(ctx)
    c_history_only(ctx)
    g_compound_assignment(ctx)
    g_consecutive_when(ctx)
    g_inner_loop_offsets_kept(ctx)
    from . import C04 as _C04
    _C04.e_literal_text_verbatim(ctx, rule="C14.g.literal-text-verbatim", EVAL=EVAL1)


def b_branch_choice(ctx):
    """`when A ... else when B ...` is followed like an if / else-if chain: at a branching point the FIRST branch whose statement matches the event is taken (F98), and a
    flow may START with such a block - the start of new flows resolves a `branch` element like the advance of running flows does (F99, sibling agreement)."""
    t = ctx.tree.ast(FLOWS1)
    cns = find_function(t, "compute_next_state")
    if cns is None:
        raise AnalysisError("compute_next_state not found", anchor=FLOWS1 + "::compute_next_state")
    loops = [l for l in ast.walk(cns) if isinstance(l, ast.For) and "branch_heads" in src(l.iter)]
    ctx.floor("C14.b.branch-choice", FLOWS1, "loops over the heads of a branching point", len(loops), 1)
    for l in loops:
        rev = "reversed(" in src(l.iter)
        # the statement that records the chosen head, and whether the loop ends there
        stores = [a for a in ast.walk(l) if isinstance(a, ast.Assign) and isinstance(a.targets[0], ast.Name) and "head" in a.targets[0].id]
        first_wins = False
        for a in stores:
            blk = getattr(a, "_parent", None)
            body = [x for f_ in ("body", "orelse") for x in (getattr(blk, f_, []) or [])]
            later = body[body.index(a) + 1:] if a in body else []
            if any(isinstance(x, (ast.Break, ast.Return)) for x in later):
                first_wins = True
        ok = (first_wins and not rev) or (rev and not first_wins)
        ctx.check("C14.b.branch-choice", FLOWS1, "compute_next_state", "for %s in %s" % (src(l.target), first_line(l.iter, 50)), ok,
                  "the first branch (in source order) whose statement matches the event is followed" if ok else
                  "every matching branch overwrites the chosen head: with `when user A ... else when user ...` the LAST matching branch is followed, not the first "
                  "(an `else when` that also matches wins over the branch written before it)", line=l.lineno)
    # sibling agreement: elements are matched against the event at two places (running flows, new flows); both resolve a branching point
    matchers = [i for i in ast.walk(cns) if isinstance(i, ast.If) and any(
        isinstance(a_, ast.Compare) and len(a_.ops) == 1 and isinstance(a_.ops[0], ast.Eq) and any(isinstance(c_, ast.Constant) and c_.value == "branch" for c_ in [a_.left] + a_.comparators)
        for a_ in atoms(i.test))]
    starts = [c for c in ast.walk(cns) if isinstance(c, ast.Call) and src(c.func) == "FlowState" and any(k.arg == "head" for k in c.keywords)]
    # the branch-aware test belongs to the start site when it sits in the same loop (the loop over the flow configurations) as the creation of the new instance
    def _loop_of(n):
        p_ = getattr(n, "_parent", None)
        while p_ is not None and not isinstance(p_, (ast.For, ast.While)):
            p_ = getattr(p_, "_parent", None)
        return p_
    start_aware = bool(starts) and all(any(_loop_of(m) is _loop_of(c) or any(m is x for x in ast.walk(_loop_of(c) or cns)) and _loop_of(c) is not None and
                                           any(m is x for x in ast.walk(_loop_of(c))) for m in matchers) for c in starts)
    ctx.check("C14.b.branch-choice", FLOWS1, "compute_next_state", "a new flow may start at a branching point", start_aware or not starts,
              "both the advance of running flows and the start of new flows resolve a `branch` element to the first matching branch" if start_aware else
              "only the advance of running flows resolves a `branch` element; the start of new flows matches the event against the `branch` pseudo element itself, which never "
              "matches: a flow whose first statement is `when ... else when ...` is never started", line=(starts[0].lineno if starts else cns.lineno))


def d_waiting_flow_triggered(ctx):
    """A running flow is looked at for an event only if the event's type is one of the flow's trigger types; any other flow is copied unchanged.  A flow that is parked ON a
    statement waiting for exactly this type of event (`event UserSilent` in the middle of a flow) must not be skipped that way (F101): either the skip test also looks at what
    the flow waits for, or the loader registers the type of every event-matching element as a trigger type."""
    t = ctx.tree.ast(FLOWS1)
    cns = find_function(t, "compute_next_state")
    skips = [i for i in ast.walk(cns) if isinstance(i, ast.If) and any(
        isinstance(a_, ast.Compare) and len(a_.ops) == 1 and isinstance(a_.ops[0], (ast.In, ast.NotIn)) and "trigger_event_types" in src(a_.comparators[0]) for a_ in atoms(i.test))]
    ctx.floor("C14.d.waiting-flow-triggered", FLOWS1, "skip of flows not triggered by the event type", len(skips), 1)
    # names that describe what the flow is waiting for: derived from the element(s) at the flow's head
    derived = set()
    changed = True
    while changed:
        changed = False
        for a in ast.walk(cns):
            if isinstance(a, ast.Assign) and isinstance(a.targets[0], ast.Name) and a.targets[0].id not in derived:
                txt = src(a.value)
                if re.search(r"\.elements\[\s*flow_state\.head", txt) or any(isinstance(x, ast.Name) and x.id in derived for x in ast.walk(a.value)):
                    derived.add(a.targets[0].id)
                    changed = True
    rt = ctx.tree.ast(RT1)
    lf = None
    for f in ast.walk(rt):
        if isinstance(f, (ast.FunctionDef, ast.AsyncFunctionDef)) and f.name == "_load_flow_config":
            lf = f
    registers_all = lf is not None and any(
        isinstance(c, ast.Call) and isinstance(c.func, ast.Attribute) and c.func.attr in ("append", "add") and "trigger_event_types" in src(c.func.value)
        and c.args and re.sub(r"\s", "", src(c.args[0])) in ("element['_type']", 'element["_type"]') for c in ast.walk(lf))
    for i in skips:
        looks = any(isinstance(x, ast.Name) and x.id in derived for x in ast.walk(i.test)) or re.search(r"\.elements\[\s*flow_state\.head", src(i.test)) is not None
        ok = looks or registers_all
        ctx.check("C14.d.waiting-flow-triggered", FLOWS1, "compute_next_state", "flows that do not list the event type as a trigger are skipped", ok,
                  "a flow parked on a statement that waits for this type of event is not skipped" if ok else
                  "the skip depends on the flow's static trigger types only: a flow that matched up to `event X` in its middle is never advanced when X arrives (X is not a trigger "
                  "type unless the flow itself creates it), so its next statement is never decided", line=i.lineno)


def c_history_only(ctx):
    """`The decision is a function of the event history alone`: multi-step generation announces an LLM-generated flow by a `start_flow` event that carries the flow's body.  The
    flow must be known whenever that event is in the history - not only on the instance that happened to process it as the newest event (F102)."""
    rt = ctx.tree.ast(RT1)
    ge = psf = None
    for f in ast.walk(rt):
        if isinstance(f, (ast.FunctionDef, ast.AsyncFunctionDef)):
            if f.name == "generate_events":
                ge = f
            if f.name == "_process_start_flow":
                psf = f
    if ge is None or psf is None:
        raise AnalysisError("generate_events / _process_start_flow not found", anchor=RT1 + "::generate_events")
    registers = any(isinstance(c, ast.Call) and src(c.func) == "self._load_flow_config" for c in ast.walk(psf))
    if not registers:
        ctx.check("C14.c.history-only", RT1, "RuntimeV1_0._process_start_flow", "dynamic flows", True, "dynamic flows are not kept on the instance", line=psf.lineno)
        return
    # somewhere on the way to the replay the whole history is scanned for start_flow events (a loop over the events that registers unknown flows)
    scans = [l for l in ast.walk(ge) if isinstance(l, ast.For) and "events" in src(l.iter) and "start_flow" in src(l)
             and any(isinstance(c, ast.Call) and "flow" in src(c.func) and src(c.func).startswith("self.") for c in ast.walk(l))]
    ctx.check("C14.c.history-only", RT1, "RuntimeV1_0.generate_events", "flows announced by start_flow events of the history are registered", bool(scans),
              "every start_flow event of the history registers its flow before the history is replayed" if scans else
              "an LLM-generated flow is registered only while its start_flow event is the LAST event, and only on the instance that processes it: replaying the same history on "
              "another instance (or after a restart) decides differently - the generated flow is unknown there", line=ge.lineno)


def b_pass_is_noop(ctx):
    """`pass` does nothing.  The compiler must not map it to the element that `continue` maps to: inside a `while` body every element carries `_next_on_continue`, and
    slide() follows it for a `continue` element - the rest of the iteration would be skipped (F100)."""
    t = ctx.tree.ast(COYML)
    fn = find_function(t, "_dict_to_element")
    if fn is None:
        raise AnalysisError("_dict_to_element not found", anchor=COYML + "::_dict_to_element")
    bad = None
    seen = False
    for i in ast.walk(fn):
        if isinstance(i, ast.If):
            for a_ in atoms(i.test):
                if isinstance(a_, ast.Compare) and len(a_.ops) == 1 and isinstance(a_.ops[0], (ast.In, ast.Eq)) and \
                        any(isinstance(c_, ast.Constant) and c_.value == "pass" for c_ in ast.walk(a_)):
                    seen = True
                    v = cond_truth(i.test, {atom_key(a_)[0]: True})
                    blk = side(i, v) if v is not None else i.body
                    for d in [x for st in blk for x in ast.walk(st) if isinstance(x, ast.Dict)]:
                        for k, val in zip(d.keys, d.values):
                            if isinstance(k, ast.Constant) and k.value == "_type" and isinstance(val, ast.Constant) and val.value == "continue":
                                bad = i
    ctx.check("C14.b.pass-noop", COYML, "_dict_to_element", "element compiled for `pass`", seen and bad is None,
              "`pass` compiles to an element of its own (a jump to the next element), not to `continue`" if seen and bad is None else
              "`pass` compiles to the same element as `continue`: inside a `while` body the rest of the iteration is skipped when it runs", line=(bad.lineno if bad is not None else fn.lineno))


# ---------------------------------------------------------------------------------
def _fn(ctx):
    t = ctx.tree.ast(COYML)
    fn = find_function(t, "_extract_elements")
    if fn is None:
        raise AnalysisError("_extract_elements not found", anchor=COYML + "::_extract_elements")
    return t, fn


def _end(lay):
    return lay.length()


def offsets(ctx, rule):
    t, fn = _fn(ctx)
    cases = emit1.find_cases(fn)
    for k in ("if", "while", "branch"):
        if k not in cases:
            raise AnalysisError("case `%s` of _extract_elements not found" % k, anchor=COYML + "::_extract_elements::" + k)
    line = {k: v[0].lineno for k, v in cases.items()}

    def ident(name, got, want, case, unit, ln):
        ok = isinstance(got, Aff) and got == want
        ctx.check(rule + ".offsets", COYML, unit, "%s (%s)" % (name, case), ok,
                  "%s = %r lands on its target (target - own position = %r)" % (name, got, want) if ok else
                  "%s is computed as %r but the distance to the element it must reach is %r: the flow head lands on the wrong element (or outside the flow)" % (name, got, want), line=ln)

    # ---- if / else ----
    if_runs = []
    for es, label in ((0, "no else"), (1, "with else")):
        for lay, it, dec in emit1.run_case_all(cases["if"], "if", esplit=es):
            extra = {k_: v_ for k_, v_ in dec.items() if k_ != "len(else_elements) > 0"}
            if_runs.append((es, label + ("" if not extra else " / " + ", ".join("%s=%s" % (k_[:50], v_) for k_, v_ in sorted(extra.items()))), lay))
    for es, label, lay in if_runs:
        items = lay.items
        ifel = [x for x in items if isinstance(x, El) and x.fields.get("_type") == "if"]
        if len(ifel) != 1:
            raise AnalysisError("emit1: if element not emitted exactly once")
        ifel = ifel[0]
        p_if = lay.position(ifel)
        segT = [x for x in items if isinstance(x, Seg) and x.name == "T"]
        ctx.check(rule + ".offsets", COYML, "_extract_elements[if]", "then block follows the if (%s)" % label, bool(segT) and lay.position(segT[0]) == p_if + 1,
                  "the then-block is emitted directly after the `if` element (true => head + 1)", line=line["if"])
        if es == 0:
            ident("if._next_else", ifel.fields.get("_next_else"), _end(lay) - p_if, label, "_extract_elements[if]", line["if"])
            ctx.check(rule + ".offsets", COYML, "_extract_elements[if]", "no jump without else", not [x for x in items if isinstance(x, El) and x.fields.get("_type") == "jump"],
                      "without an else block nothing is emitted after the then-block", line=line["if"])
        else:
            segE = [x for x in items if isinstance(x, Seg) and x.name == "E"]
            jumps = [x for x in items if isinstance(x, El) and x.fields.get("_type") == "jump"]
            if len(segE) != 1 or len(jumps) != 1:
                ctx.check(rule + ".offsets", COYML, "_extract_elements[if]", "layout with else", False, "expected [if, then, jump, else]; got %s" % items, line=line["if"])
                continue
            ident("if._next_else", ifel.fields.get("_next_else"), lay.position(segE[0]) - p_if, label, "_extract_elements[if]", line["if"])
            ident("jump-over-else._next", jumps[0].fields.get("_next"), _end(lay) - lay.position(jumps[0]), label, "_extract_elements[if]", line["if"])
            ctx.check(rule + ".offsets", COYML, "_extract_elements[if]", "jump sits between then and else", lay.position(jumps[0]) == lay.position(segT[0]) + segT[0].length
                      and lay.position(segE[0]) == lay.position(jumps[0]) + 1, "the then-block ends in the jump over the else-block", line=line["if"])
        ctx.check(rule + ".offsets", COYML, "_extract_elements[if]", "raw blocks removed (%s)" % label, "then" not in ifel.fields and "else" not in ifel.fields,
                  "the raw then/else lists are deleted from the emitted `if` element", line=line["if"])
    # ---- while ----
    for lay, it, dec in emit1.run_case_all(cases["while"], "while"):
        label_w = ("decisions %s" % sorted(dec.items())) if dec else "loop"
        items = lay.items
        wel = [x for x in items if isinstance(x, El) and x.fields.get("_type") == "while"][0]
        segN = [x for x in items if isinstance(x, Seg) and x.name == "N"]
        jumps = [x for x in items if isinstance(x, El) and x.fields.get("_type") == "jump"]
        if len(segN) != 1:
            raise AnalysisError("emit1: while layout has no single body block: %s" % items)
        p_w, p_b = lay.position(wel), lay.position(segN[0])
        bad0 = len([o for o in ctx.obligations if not o.ok])
        ident("while._next_on_break", wel.fields.get("_next_on_break"), _end(lay) - p_w, "loop exit; " + label_w, "_extract_elements[while]", line["while"])
        fa = segN[0].forall
        j_ = Aff.sym("j")
        ident("body[j]._next_on_break", fa.get("_next_on_break"), _end(lay) - (p_b + j_), "for all 0 <= j < N; " + label_w, "_extract_elements[while]", line["while"])
        ident("body[j]._next_on_continue", fa.get("_next_on_continue"), p_w - (p_b + j_), "for all 0 <= j < N; " + label_w, "_extract_elements[while]", line["while"])
        ctx.check(rule + ".offsets", COYML, "_extract_elements[while]", "inner loops keep their own offsets (%s)" % label_w, segN[0].guard_key == "_next_on_break",
                  "body elements that already carry `_next_on_break` (elements of an inner loop) are not overwritten", line=line["while"])
        if len(jumps) != 1:
            if len([o for o in ctx.obligations if not o.ok]) == bad0:
                # offsets are consistent with this layout, but the layout itself is not the one this analysis understands
                raise AnalysisError("emit1: while layout is not [while, body, jump] under %s: %s" % (label_w, items))
            continue
        p_j = lay.position(jumps[0])
        ctx.check(rule + ".offsets", COYML, "_extract_elements[while]", "body follows the while (%s)" % label_w, p_b == p_w + 1 and p_j == p_b + segN[0].length and _end(lay) == p_j + 1,
                  "layout is [while, body, back-jump] (true => head + 1 enters the body)", line=line["while"])
        ident("back-jump._next", jumps[0].fields.get("_next"), p_w - p_j, "re-check condition; " + label_w, "_extract_elements[while]", line["while"])
    # ---- branch ----
    ks = (1, 2, 3, 4) if ctx.thorough else (1, 2)
    for k in ks:
        lay, env, dec, it = emit1.run_case(cases["branch"], "branch", k=k)
        items = lay.items
        bel = [x for x in items if isinstance(x, El) and x.fields.get("_type") == "branch"][0]
        segs = [x for x in items if isinstance(x, Seg) and x.name.startswith("B")]
        jumps = [x for x in items if isinstance(x, El) and x.fields.get("_type") == "jump"]
        p_br = lay.position(bel)
        heads = bel.fields.get("branch_heads")
        ok = isinstance(heads, list) and len(heads) == k and len(segs) == k and len(jumps) == k
        ctx.check(rule + ".offsets", COYML, "_extract_elements[branch]", "layout k=%d" % k, ok, "k=%d: one head, one block and one jump per branch" % k, line=line["branch"])
        if not ok:
            continue
        for i in range(k):
            ident("branch_heads[%d]" % i, heads[i], lay.position(segs[i]) - p_br, "k=%d" % k, "_extract_elements[branch]", line["branch"])
            ident("branch %d end-jump._next" % i, jumps[i].fields.get("_next"), _end(lay) - lay.position(jumps[i]), "k=%d" % k, "_extract_elements[branch]", line["branch"])
            ctx.check(rule + ".offsets", COYML, "_extract_elements[branch]", "jump closes branch %d (k=%d)" % (i, k), lay.position(jumps[i]) == lay.position(segs[i]) + segs[i].length,
                      "every branch is followed directly by its end-jump", line=line["branch"])
    # ---- goto / labels ----
    rg = find_function(t, "_resolve_gotos")
    if rg is None:
        raise AnalysisError("_resolve_gotos not found", anchor=COYML + "::_resolve_gotos")
    s = re.sub(r"\s", "", src(rg))
    ctx.check(rule + ".offsets", COYML, "_resolve_gotos", "goto offset", "element['_next']=checkpoint_idx[checkpoint]-i" in s,
              "a goto becomes a jump by (index of the label) - (own index)", line=rg.lineno)
    ctx.check(rule + ".offsets", COYML, "_resolve_gotos", "label falls through", "element['_type']='jump'element['_next']=1" in s.replace("\n", ""),
              "a label becomes a jump to the next element", line=rg.lineno)
    # a membership test of the label table whose "already there" side raises (duplicate) and one whose "not there" side raises (missing) - any spelling / polarity
    def _raises_when(present):
        for i in [x for x in ast.walk(rg) if isinstance(x, ast.If)]:
            for a_ in atoms(i.test):
                if isinstance(a_, ast.Compare) and len(a_.ops) == 1 and isinstance(a_.ops[0], (ast.In, ast.NotIn)) and src(a_.comparators[0]) == "checkpoint_idx":
                    v = cond_truth(i.test, {atom_key(a_)[0]: present})
                    if v is not None and any(isinstance(x, ast.Raise) for st_ in side(i, v) for x in ast.walk(st_)):
                        return True
        return False
    ctx.check(rule + ".offsets", COYML, "_resolve_gotos", "missing/duplicate labels rejected", _raises_when(True) and _raises_when(False),
              "a goto to an undefined label and a duplicate label raise (no dangling jump)", line=rg.lineno)
    # `return` = absolute jump to -1 (flow end)
    d2e = find_function(t, "_dict_to_element")
    ok = d2e is not None and re.search(r"\{'_type':'jump','_next':'-1','_absolute':True\}", re.sub(r"\s", "", src(d2e))) is not None
    ctx.check(rule + ".offsets", COYML, "_dict_to_element", "return", ok, "`return` is an absolute jump to -1, which slide treats as end of flow (head < 0)", line=(d2e.lineno if d2e else 1))


def post_passes(ctx, rule):
    """Relative offsets are final once _extract_elements returns.  Every later pass of parse_flow_elements must keep each element at its index:
    it either edits the list's elements in place (never the list), or rebuilds the list with exactly one output element per input element."""
    from ..pycfg import build
    t = ctx.tree.ast(COYML)
    pf = find_function(t, "parse_flow_elements")
    if pf is None:
        raise AnalysisError("parse_flow_elements not found", anchor=COYML + "::parse_flow_elements")
    calls = []
    seen_extract = False
    for st in pf.body:
        for c in [c for c in ast.walk(st) if isinstance(c, ast.Call) and isinstance(c.func, ast.Name)]:
            if c.func.id == "_extract_elements":
                seen_extract = True
            elif seen_extract and find_function(t, c.func.id) is not None:
                calls.append(c)
        if seen_extract and isinstance(st, (ast.Assign, ast.AugAssign, ast.Expr)) and not any(isinstance(c, ast.Call) for c in ast.walk(st)) and "elements" in src(st):
            ctx.check(rule, COYML, "parse_flow_elements", first_line(st), False, "the compiled list is modified inline after the offsets were computed", line=st.lineno)
    if not seen_extract:
        raise AnalysisError("parse_flow_elements no longer calls _extract_elements", anchor=COYML + "::parse_flow_elements")
    ctx.floor(rule, COYML, "passes after _extract_elements", len(calls), 2)
    LIST_MUT = {"append", "extend", "insert", "pop", "remove", "clear", "sort", "reverse"}
    for c in calls:
        fn = find_function(t, c.func.id)
        param = fn.args.args[0].arg
        problems = []
        # (1) the input list itself is never restructured
        for n in walk_no_nested(fn):
            if isinstance(n, ast.Call) and isinstance(n.func, ast.Attribute) and n.func.attr in LIST_MUT and src(n.func.value) == param:
                problems.append((n.lineno, "`%s` changes the length/order of the compiled list" % first_line(n)))
            if isinstance(n, ast.Delete):
                for x in n.targets:
                    if isinstance(x, ast.Subscript) and src(x.value) == param:
                        problems.append((n.lineno, "`%s` removes an element of the compiled list" % first_line(n)))
            if isinstance(n, ast.Assign) and any(isinstance(x, ast.Subscript) and src(x.value) == param and isinstance(x.slice, ast.Slice) for x in n.targets):
                problems.append((n.lineno, "`%s` replaces a slice of the compiled list" % first_line(n)))
        # (2) what is returned
        rets = [n for n in walk_no_nested(fn) if isinstance(n, ast.Return)]
        outs = set(src(r.value) for r in rets if r.value is not None)
        how = None
        if outs == {param}:
            how = "edits elements in place and returns the same list"
        elif len(outs) == 1 and list(outs)[0].isidentifier():
            out = list(outs)[0]
            inits = [n for n in walk_no_nested(fn) if isinstance(n, ast.Assign) and src(n.targets[0]) == out]
            loops = [l for l in fn.body if isinstance(l, ast.For) and (re.sub(r"\s", "", src(l.iter)) in ("range(len(%s))" % param, param, "enumerate(%s)" % param))]
            adds_outside = [n for n in walk_no_nested(fn) if isinstance(n, ast.Call) and isinstance(n.func, ast.Attribute) and n.func.attr in LIST_MUT and src(n.func.value) == out
                            and not any(_inside(n, l) for l in loops)]
            if len(inits) != 1 or not isinstance(inits[0].value, ast.List) or inits[0].value.elts or len(loops) != 1 or adds_outside:
                problems.append((fn.lineno, "the rebuilt list `%s` is not produced by one loop over the input starting from an empty list" % out))
            else:
                l = loops[0]
                cfg = build(fn)
                hdr = cfg.node_of(l.iter)
                if hdr is None:
                    raise AnalysisError("loop header of %s not found in its CFG" % fn.name, anchor=COYML + "::" + fn.name)
                body_nodes = [m for m in cfg.nodes if m.ast is not None and m is not hdr and _inside(m.ast, l)]
                appends = [m for m in body_nodes if isinstance(m.ast, ast.Expr) and isinstance(m.ast.value, ast.Call) and isinstance(m.ast.value.func, ast.Attribute)
                           and src(m.ast.value.func.value) == out]
                bad_kind = [m for m in appends if m.ast.value.func.attr != "append"]
                for m in bad_kind:
                    problems.append((m.ast.lineno, "`%s`: only a single `append` per input element keeps the indices" % first_line(m.ast)))
                aset = set(appends)
                # every iteration passes exactly one append: from the header into the body and back to the header
                entry = [m for m, lab in hdr.succ if _inside(m.ast, l)] if hdr is not None else []
                for e0 in entry:
                    # zero appends on some path?
                    if e0 not in aset and not cfg.must_pass(e0, hdr, aset, include_a=True):
                        problems.append((l.lineno, "some path through the loop body appends nothing: the element is dropped and every offset that spans it is off by one"))
                    # two appends on some path?
                    for a in appends:
                        after = cfg.reachable([m for m, _ in a.succ], avoid=[hdr])
                        if any(b in after for b in appends):
                            problems.append((a.ast.lineno, "a path through the loop body appends more than one element for one input element"))
                            break
                exits = [n for n in ast.walk(l) if isinstance(n, (ast.Break, ast.Return))]
                if exits:
                    problems.append((exits[0].lineno, "the loop can stop early and truncate the compiled list"))
                how = "rebuilds the list with exactly one append per input element on every path"
        else:
            problems.append((fn.lineno, "returns %s: not recognisably the same or a 1:1 rebuilt list" % sorted(outs)))
        ok = not problems
        ctx.check(rule, COYML, fn.name, "index-preserving pass", ok, ("%s %s" % (fn.name, how)) if ok else "; ".join("line %d: %s" % p for p in problems), line=(problems[0][0] if problems else fn.lineno))


def _inside(node, anc):
    p = node
    while p is not None:
        if p is anc:
            return True
        p = getattr(p, "_parent", None)
    return False


CPARSER1 = "nemoguardrails/colang/v1_0/lang/colang_parser.py"
EVAL1 = "nemoguardrails/colang/v1_0/runtime/eval.py"


def g_compound_assignment(ctx):
    """`variable assignment behaves as in an ordinary structured program`: `$x -= e` means `$x = $x - (e)`.  The Colang 1.0 parser implements `+=` / `-=` by rewriting the line
    text; the rewrite must carry the WHOLE right hand side in parentheses, otherwise `$budget -= $spent - 1` becomes `$budget - $spent - 1` (F158)."""
    t = ctx.tree.ast(CPARSER1)
    fn = find_function(t, "_normalize_line_text")
    if fn is None:
        raise AnalysisError("_normalize_line_text not found", anchor=CPARSER1 + "::_normalize_line_text")
    n = 0
    for tp in ast.walk(fn):
        if isinstance(tp, ast.Tuple) and len(tp.elts) == 2 and all(isinstance(e, ast.Constant) and isinstance(e.value, str) for e in tp.elts):
            pat, repl = tp.elts[0].value, tp.elts[1].value
            m = re.search(r"\\([+\-])=", pat)
            if not m:
                continue
            n += 1
            groups = len(re.findall(r"(?<!\\)\((?!\?)", pat))
            ok = groups >= 2 and re.search(r"\(\\%d\)" % groups, repl) is not None
            ctx.check("C14.g.compound-assignment", CPARSER1, "_normalize_line_text", "rewrite of `%s=`" % m.group(1), ok,
                      "the rewrite captures the right hand side and puts it in parentheses (`%s`)" % repl if ok else
                      "`%s` -> `%s` rewrites only the start of the line: the right hand side follows without parentheses, so `$x %s= a - 1` computes `$x %s a - 1`"
                      % (pat, repl, m.group(1), m.group(1)), line=tp.lineno)
    ctx.floor("C14.g.compound-assignment", CPARSER1, "rewrite rules for compound assignments", n, 2)


def g_consecutive_when(ctx):
    """`sequencing`: two `when` statements in a row are two statements.  The parser hands each when-body to the parent branch as a bare list and the element extraction merges
    ADJACENT lists into one `branch` (that is how `when / else when` is built) - so a plain `when` that follows a when block must be separated from it, or the second wait is
    skipped and its condition is accepted in place of the first (F159)."""
    t = ctx.tree.ast(CPARSER1)
    fn = find_function(t, "_parse_when")
    if fn is None:
        raise AnalysisError("_parse_when not found", anchor=CPARSER1 + "::_parse_when")
    seps = [i for i in ast.walk(fn) if isinstance(i, ast.If) and "main_token" in src(i.test) and re.search(r"['\"]when['\"]", src(i.test)) and "isinstance" in src(i.test)
            and any(isinstance(c, ast.Call) and isinstance(c.func, ast.Attribute) and c.func.attr == "append" and c.args and not isinstance(c.args[0], (ast.List, ast.Subscript, ast.Name))
                    for st in i.body for c in ast.walk(st))]
    app = [c for c in ast.walk(fn) if isinstance(c, ast.Call) and isinstance(c.func, ast.Attribute) and c.func.attr == "append" and c.args and "elements" in src(c.args[0])
           and "new_branch" in src(c.args[0])]
    ok = bool(seps) and bool(app) and min(i.lineno for i in seps) < max(c.lineno for c in app)
    ctx.check("C14.g.consecutive-when", CPARSER1, "_parse_when", "a `when` after a when block starts a new statement", ok,
              "a separator element is put between a when block and a following plain `when`" if ok else
              "every when-body is appended to the parent as a bare list and adjacent lists are merged into ONE branch: `when A: ... / when B: ... / bot thank` runs as "
              "`when A / else when B`, the second wait is skipped", line=fn.lineno)


def g_inner_loop_offsets_kept(ctx):
    """`while` nested in `while`: when the outer loop is compiled, the elements of its body already include the compiled inner loop, whose `break` / `continue` elements carry
    the offsets of the INNER loop.  The outer loop writes its own offsets onto its body elements - it must leave alone every element that has offsets already, otherwise an
    inner `break` leaves both loops."""
    from ..pycfg import CFG
    t, fn = _fn(ctx)
    cfg = CFG(fn)
    stores = [n for n in cfg.nodes if n.kind == "stmt" and isinstance(n.ast, ast.Assign) and isinstance(n.ast.targets[0], ast.Subscript)
              and isinstance(n.ast.targets[0].slice, ast.Constant) and n.ast.targets[0].slice.value in ("_next_on_break", "_next_on_continue")
              and not src(n.ast.targets[0].value).startswith("while_element")]
    ctx.floor("C14.g.inner-loop-offsets", COYML, "break/continue offsets written onto loop body elements", len(stores), 2)
    has = (lambda a: isinstance(a, ast.Compare) and len(a.ops) == 1 and isinstance(a.ops[0], ast.In) and isinstance(a.left, ast.Constant) and a.left.value in ("_next_on_break", "_next_on_continue"))
    hasnt = (lambda a: isinstance(a, ast.Compare) and len(a.ops) == 1 and isinstance(a.ops[0], ast.NotIn) and isinstance(a.left, ast.Constant) and a.left.value in ("_next_on_break", "_next_on_continue"))
    reach = cfg.reachable_under([cfg.entry], {has: True, hasnt: False})
    leak = [n for n in stores if n in reach]
    ok = bool(stores) and not leak
    ctx.check("C14.g.inner-loop-offsets", COYML, "_extract_elements", "offsets of an inner loop are not overwritten", ok,
              "a body element that already has break/continue offsets keeps them" if ok else
              "`%s` is reached also for an element that already carries offsets (those of an inner loop): a `break` / `continue` inside a nested `while` then jumps by the OUTER "
              "loop's distance and leaves both loops" % first_line(leak[0].ast, 60), line=(leak[0].line if leak else fn.lineno))


def key_agreement(ctx, rule):
    ts = ctx.tree.ast(SLIDING)
    slide = find_function(ts, "slide")
    if slide is None:
        raise AnalysisError("slide (v1) not found", anchor=SLIDING + "::slide")
    # keys read per element type in slide
    required = {}
    optional = {}
    for n in ast.walk(slide):
        if isinstance(n, ast.If) and isinstance(n.test, ast.Compare) and src(n.test.left) == "p_type":
            types = [c.value for c in ast.walk(n.test) if isinstance(c, ast.Constant) and isinstance(c.value, str)]
            for x in [y for s in n.body for y in ast.walk(s)]:
                if isinstance(x, ast.Subscript) and src(x.value) == "pattern_item" and isinstance(x.slice, ast.Constant) and x.slice.value in OFFSET_KEYS:
                    # narrow to the innermost p_type test when nested
                    for ty in types:
                        required.setdefault(ty, set()).add(x.slice.value)
                if isinstance(x, ast.Call) and src(x.func) == "pattern_item.get" and x.args and isinstance(x.args[0], ast.Constant) and x.args[0].value in OFFSET_KEYS:
                    for ty in types:
                        optional.setdefault(ty, set()).add(x.args[0].value)
    # refine: in the combined branch ["check","if","jump"], attribute keys by the inner tests
    refined = {"if": {"_next_else"}, "jump": {"_next"}, "while": {"_next_on_break"}}
    t, fn = _fn(ctx)
    written = {}
    for f in (fn, find_function(t, "_resolve_gotos"), find_function(t, "_dict_to_element")):
        if f is None:
            continue
        for d in ast.walk(f):
            if isinstance(d, ast.Dict):
                ty = [v.value for k, v in zip(d.keys, d.values) if isinstance(k, ast.Constant) and k.value == "_type" and isinstance(v, ast.Constant)]
                if ty:
                    for k in d.keys:
                        if isinstance(k, ast.Constant) and k.value in OFFSET_KEYS:
                            written.setdefault(ty[0], set()).add(k.value)
            if isinstance(d, ast.Assign) and isinstance(d.targets[0], ast.Subscript) and isinstance(d.targets[0].slice, ast.Constant) and d.targets[0].slice.value in OFFSET_KEYS:
                base = src(d.targets[0].value)
                ty = {"if_element": "if", "while_element": "while", "jump_element": "jump", "element": "jump"}.get(base)
                if base.startswith("do_elements"):
                    ty = "<loop body>"
                if ty:
                    written.setdefault(ty, set()).add(d.targets[0].slice.value)
    for ty, keys in sorted(refined.items()):
        for k in sorted(keys):
            rd = k in required.get(ty, set())
            wr = k in written.get(ty, set())
            ctx.check(rule, SLIDING, "slide", "%s[%s]" % (ty, k), rd and wr,
                      "slide reads `%s` of a `%s` element without default and the parser writes it for every `%s`" % (k, ty, ty) if rd and wr else
                      "key `%s` of `%s` elements: read by slide=%s, written by the parser=%s: a missing key raises KeyError / a renamed key is silently replaced by the default" % (k, ty, rd, wr),
                      line=slide.lineno)
    for k in ("_next_on_break", "_next_on_continue"):
        wr = k in written.get("<loop body>", set())
        rd = any(k in v for v in optional.values())
        ctx.check(rule, SLIDING, "slide", "loop body[%s]" % k, wr and rd, "`%s` is written on loop-body elements and read by slide for break/continue" % k, line=slide.lineno)
    tf = ctx.tree.ast(FLOWS1)
    reads_heads = any(isinstance(x, ast.Subscript) and isinstance(x.slice, ast.Constant) and x.slice.value == "branch_heads" for x in ast.walk(tf))
    ctx.check(rule, FLOWS1, "flows.py", "branch[branch_heads]", reads_heads and "branch_heads" in written.get("branch", set()),
              "`branch_heads` is written on branch elements and read by the flow runtime", line=1)
    # every offset key the parser writes is known to a consumer
    all_read = set().union(*required.values()) | set().union(*optional.values()) | ({"branch_heads"} if reads_heads else set())
    all_written = set().union(*written.values()) if written else set()
    ctx.check(rule, COYML, "_extract_elements", "no unread offset key", all_written <= all_read, "every offset key written by the parser is read by the runtime (written %s, read %s)" % (sorted(all_written), sorted(all_read)))


# ---------------------------------------------------------------------------------
def b_opcodes(ctx):
    t, fn = _fn(ctx)
    produced = {}
    for f in functions(t):
        for d in ast.walk(f):
            if isinstance(d, ast.Dict):
                for k, v in zip(d.keys, d.values):
                    if isinstance(k, ast.Constant) and k.value == "_type" and isinstance(v, ast.Constant) and isinstance(v.value, str):
                        produced.setdefault(v.value, (f.name, d.lineno))
            if isinstance(d, ast.Assign) and isinstance(d.targets[0], ast.Subscript) and isinstance(d.targets[0].slice, ast.Constant) and d.targets[0].slice.value == "_type" \
                    and isinstance(d.value, ast.Constant):
                produced.setdefault(d.value.value, (f.name, d.lineno))
    for f in functions(ctx.tree.ast(RT1)):
        for d in ast.walk(f):
            if isinstance(d, ast.Dict):
                for k, v in zip(d.keys, d.values):
                    if isinstance(k, ast.Constant) and k.value == "_type" and isinstance(v, ast.Constant):
                        produced.setdefault(v.value, (f.name, d.lineno))
    ctx.floor("C14.b.opcodes", COYML, "element types the compiler can emit", len(produced), 15, sorted(produced))
    slide = find_function(ctx.tree.ast(SLIDING), "slide")
    slide_types = set()
    for n in ast.walk(slide):
        if isinstance(n, ast.Compare) and src(n.left) == "p_type":
            slide_types |= {c.value for c in ast.walk(n) if isinstance(c, ast.Constant) and isinstance(c.value, str)}
    tf = ctx.tree.ast(FLOWS1)
    flow_types = set()
    for n in ast.walk(tf):
        if isinstance(n, ast.Compare) and re.search(r"\[['\"]_type['\"]\]$", src(n.left)):
            flow_types |= {c.value for x in n.comparators for c in ast.walk(x) if isinstance(c, ast.Constant) and isinstance(c.value, str)}
    removed = set()
    rg = src(find_function(t, "_resolve_gotos"))
    for ty in ("label", "goto"):
        if "== '%s'" % ty in rg and "element['_type'] = 'jump'" in rg:
            removed.add(ty)
    EVENT_TYPES = {"UserIntent", "BotIntent", "UtteranceUserActionFinished", "StartUtteranceBotAction", "run_action"}
    for ty, (f, line) in sorted(produced.items()):
        if ty in slide_types:
            how = "executed by slide"
        elif ty in flow_types or ty in EVENT_TYPES or re.match(r"^[A-Z]", ty):
            how = "matched / executed by the flow runtime (flows.py)"
        elif ty in removed:
            how = "rewritten to `jump` before run time (_resolve_gotos)"
        elif ty in INERT:
            how = "inert by design: " + INERT[ty]
            if ty == "any":
                ctx.note("C14.b: element type `any` has no consumer (dead feature; not part of the structured subset)")
        else:
            how = None
        ctx.check("C14.b.opcodes", COYML, f, "element type %s" % ty, how is not None,
                  "element type `%s` is %s" % (ty, how) if how else
                  "the compiler can emit element type `%s` (at %s:%d) but neither slide nor flows.py consumes it: the head stops on it forever / it is skipped silently" % (ty, COYML, line), line=line)
    # slide handles every control element of the structured subset
    for ty in ("if", "while", "jump", "set", "break", "continue", "stop", "check"):
        ctx.check("C14.b.opcodes", SLIDING, "slide", "control element %s" % ty, ty in slide_types, "slide has a branch for `%s`" % ty, line=slide.lineno)


# ---------------------------------------------------------------------------------
def c_no_mutation(ctx):
    tf = ctx.tree.ast(FLOWS1)
    cns = find_function(tf, "compute_next_steps")
    if cns is None:
        raise AnalysisError("compute_next_steps not found", anchor=FLOWS1 + "::compute_next_steps")
    # (1) fresh State with literal containers
    st = [a for a in walk_no_nested(cns) if isinstance(a, ast.Assign) and isinstance(a.value, ast.Call) and src(a.value.func) == "State"]
    ok = len(st) >= 1
    if ok:
        kw = {k.arg: k.value for k in st[0].value.keywords}
        ok = isinstance(kw.get("context"), ast.Dict) and not kw["context"].keys and isinstance(kw.get("flow_states"), ast.List) and not kw["flow_states"].elts
    ctx.check("C14.c.fresh-state", FLOWS1, "compute_next_steps", "State(context={}, flow_states=[])", ok,
              "every call starts from a State constructed inside the call with fresh literal containers (no state survives between calls)", line=cns.lineno)
    # reachable functions
    cg = CallGraph(ctx.tree, [FLOWS1, SLIDING])
    reach = cg.reach(FLOWS1, cns, stop=lambda r, q: r not in (FLOWS1, SLIDING))
    reach = {k: v for k, v in reach.items() if k[0] in (FLOWS1, SLIDING)}
    ctx.stat("functions_reachable_from_compute_next_steps", sorted(q for _, q in reach))
    ctx.floor("C14.c.no-shared-mutation", FLOWS1, "functions reachable from compute_next_steps", len(reach), 8)
    # keys loaded anywhere in the v1 runtime from flow elements
    loaded = set()
    for rel in (FLOWS1, SLIDING, RT1):
        for x in ast.walk(ctx.tree.ast(rel)):
            if isinstance(x, ast.Subscript) and isinstance(x.ctx, ast.Load) and isinstance(x.slice, ast.Constant) and isinstance(x.slice.value, str):
                loaded.add(x.slice.value)
            if isinstance(x, ast.Call) and isinstance(x.func, ast.Attribute) and x.func.attr == "get" and x.args and isinstance(x.args[0], ast.Constant):
                loaded.add(x.args[0].value)
            if isinstance(x, ast.Compare) and isinstance(x.left, ast.Constant) and isinstance(x.left.value, str) and any(isinstance(o, (ast.In, ast.NotIn)) for o in x.ops):
                loaded.add(x.left.value)
    n_stores = 0
    for (rel, q), fn in sorted(reach.items()):
        # aliases of shared configuration: x = flow_config.elements[...] / state.flow_configs[...] ...
        shared = set()
        for a in walk_no_nested(fn):
            if isinstance(a, ast.Assign) and len(a.targets) == 1 and isinstance(a.targets[0], ast.Name) and re.search(r"flow_config(s)?\b.*(elements|\[)", src(a.value)):
                shared.add(a.targets[0].id)
            if isinstance(a, ast.For) and isinstance(a.target, ast.Name) and re.search(r"\.elements\b", src(a.iter)):
                shared.add(a.target.id)
        for a in walk_no_nested(fn):
            tgt = None
            if isinstance(a, ast.Assign):
                tgt = a.targets[0]
            elif isinstance(a, ast.AugAssign):
                tgt = a.target
            if isinstance(a, ast.Global):
                ctx.check("C14.c.no-shared-mutation", rel, q, src(a), False, "writes a module global: the next decision depends on earlier calls", line=a.lineno)
            if tgt is None or not isinstance(tgt, ast.Subscript):
                continue
            base = tgt.value
            is_shared = (isinstance(base, ast.Name) and base.id in shared) or re.search(r"flow_config(s)?\b.*\.elements\[", src(base)) is not None
            if not is_shared:
                continue
            n_stores += 1
            key = tgt.slice.value if isinstance(tgt.slice, ast.Constant) else None
            ok = key is not None and key not in loaded
            ctx.check("C14.c.no-shared-mutation", rel, q, first_line(a), ok,
                      "store into a shared flow element under key `%s`, which no function of the v1 runtime ever reads (dead annotation, not observable)" % key if ok else
                      "store into a shared flow element under key `%s`, which the runtime READS: the flow configuration is shared between calls, so an earlier call changes what a later call decides" % key,
                      line=a.lineno)
    ctx.stat("stores_into_shared_flow_elements", n_stores)
    # stores to self.* along generate_events
    tr = ctx.tree.ast(RT1)
    cls = find_class(tr, "RuntimeV1_0")
    gen = find_function(tr, "generate_events", "RuntimeV1_0")
    if gen is None:
        raise AnalysisError("RuntimeV1_0.generate_events not found", anchor=RT1 + "::generate_events")
    cg2 = CallGraph(ctx.tree, [RT1])
    r2 = cg2.reach(RT1, gen, stop=lambda r, q: r != RT1)
    for (rel, q), fn in sorted(r2.items()):
        if rel != RT1:
            continue
        for a in walk_no_nested(fn):
            tg = a.targets[0] if isinstance(a, ast.Assign) else (a.target if isinstance(a, ast.AugAssign) else None)
            if tg is None:
                continue
            b = tg
            while isinstance(b, ast.Subscript):
                b = b.value
            if isinstance(b, ast.Attribute) and isinstance(b.value, ast.Name) and b.value.id == "self":
                ok = q.endswith("_load_flow_config")
                ctx.check("C14.c.self-stores", RT1, q, first_line(a), ok,
                          "instance store inside _load_flow_config (dynamic flows created by a start_flow event: outside the structured subset of the property)" if ok else
                          "the runtime instance is modified while deciding the next step: later decisions depend on earlier calls", line=a.lineno)


def d_subflow_resume(ctx):
    """`do subflow` behaves like a call: the caller resumes when the callee has completed.  The resume loop
    changes statuses while it runs (a resumed flow may complete at once and release ITS caller in the next
    round), so the status of the interrupter must be read from the live flow states, never from a snapshot
    taken before the loop."""
    tf = ctx.tree.ast(FLOWS1)
    fn = find_function(tf, "compute_next_state")
    if fn is None:
        raise AnalysisError("compute_next_state not found", anchor=FLOWS1 + "::compute_next_state")
    loops = [w for w in ast.walk(fn) if isinstance(w, ast.While) and any(isinstance(a, ast.Assign) and src(a.targets[0]).endswith(".status") and "FlowStatus.ACTIVE" in src(a.value)
                                                                         for a in ast.walk(w))
             and any("INTERRUPTED" in src(c) for c in ast.walk(w))]
    ctx.floor("C14.d.resume-live-status", FLOWS1, "resume loop of interrupted flows", len(loops), 1)
    for w in loops:
        # names read inside the loop that hold status information computed BEFORE the loop
        before = []
        for st in fn.body:
            if st is w or (hasattr(st, "lineno") and st.lineno >= w.lineno):
                break
        snap = {}
        for a in ast.walk(fn):
            if isinstance(a, ast.Assign) and isinstance(a.targets[0], ast.Name) and a.lineno < w.lineno and ".status" in src(a.value) \
                    and isinstance(a.value, (ast.DictComp, ast.ListComp, ast.SetComp, ast.Dict, ast.Call)) and "flow_states" in src(a.value):
                snap[a.targets[0].id] = a
        used = sorted({n.id for n in ast.walk(w) if isinstance(n, ast.Name) and n.id in snap})
        # the live read: an inner scan of new_state.flow_states comparing uid with interrupted_by and reading .status
        live = any(isinstance(f, ast.For) and "flow_states" in src(f.iter) and any(".status ==" in src(c) or ".status==" in src(c) for c in ast.walk(f) if isinstance(c, ast.Compare))
                   and any("interrupted_by" in src(c) for c in ast.walk(f) if isinstance(c, ast.Compare)) for f in ast.walk(w) if f is not w)
        ok = not used and live
        ctx.check("C14.d.resume-live-status", FLOWS1, "compute_next_state", "status of the interrupting flow", ok,
                  "inside the resume loop the interrupter's status is read from the live flow states" if ok else
                  "the resume loop decides with %s: statuses that change inside the loop (a resumed flow that completes at once) are not seen, so with subflow calls nested two deep the outer caller is never resumed" % (
                      ("the snapshot `%s` taken before the loop" % used[0]) if used else "no live read of the interrupter's status"), line=w.lineno)


def e_assignment(ctx):
    """`$x = execute action` assigns the action's return value - whatever it is, None included."""
    from ..coflow import evaluate, truth
    tr = ctx.tree.ast(RT1)
    fn = find_function(tr, "_process_start_action")
    stores = [a for a in walk_no_nested(fn) if isinstance(a, ast.Assign) and isinstance(a.targets[0], ast.Subscript) and src(a.targets[0].slice) == "action_result_key"]
    ctx.floor("C14.e.assignment", RT1, "store of the action result under the result key", len(stores), 1)
    for st in stores:
        guards = []
        p = getattr(st, "_parent", None)
        while p is not None and p is not fn:
            if isinstance(p, ast.If) and any(st is x or st in list(ast.walk(x)) for x in p.body):
                guards.append(p.test)
            p = getattr(p, "_parent", None)
        ok = True
        why = "the result is recorded whenever a result key was given"
        for g in guards:
            for rv in (None, 0, "", False, [], "text"):
                v = truth(evaluate(g, {"action_result_key": "x", "return_value": rv, "result": rv}))
                if v is not True:
                    ok = False
                    why = "the store is guarded by `%s`, which is not true for return value %r: `$x = execute a` then keeps the OLD value of $x, unlike an assignment" % (first_line(g, 70), rv)
        ctx.check("C14.e.assignment", RT1, qualname(fn), first_line(st), ok, why, line=st.lineno)
        ctx.check("C14.e.assignment", RT1, qualname(fn), "value stored", src(st.value) == "return_value", "the value recorded is the action's return value", line=st.lineno)


def f_decision_priority(ctx):
    """Flows that decide on the CURRENT event outrank a step that a flow not triggered by this event still has pending from earlier history.  Decided: the
    next step recorded for a not-triggered flow carries a priority modifier strictly between 0 and 1, the modifier enters the recorded priority, and a
    recorded step is only replaced by a strictly higher priority."""
    t = ctx.tree.ast(FLOWS1)
    cns = find_function(t, "compute_next_state")
    rec = find_function(t, "_record_next_step")
    if cns is None or rec is None:
        raise AnalysisError("compute_next_state / _record_next_step not found", anchor=FLOWS1 + "::compute_next_state")
    stale = None
    for i in [x for x in ast.walk(cns) if isinstance(x, ast.If)]:
        for a_ in atoms(i.test):
            if isinstance(a_, ast.Compare) and len(a_.ops) == 1 and isinstance(a_.ops[0], (ast.In, ast.NotIn)) and "trigger_event_types" in src(a_.comparators[0]):
                v = cond_truth(i.test, {atom_key(a_)[0]: False})      # the side taken when the event is NOT one of the flow's triggers
                if v is None:
                    # ... and nothing else makes the flow a candidate (every other atomic test false, e.g. "the flow waits for this event")
                    v = cond_truth(i.test, {atom_key(a_)[0]: False, (lambda e: True): False})
                if v is not None:
                    stale = side(i, v)
    if stale is None:
        raise AnalysisError("branch for flows not triggered by the current event not found", anchor=FLOWS1 + "::compute_next_state::not-triggered")
    calls = [c for st in stale for c in ast.walk(st) if isinstance(c, ast.Call) and src(c.func) == "_record_next_step"]
    params = [a.arg for a in rec.args.args]
    for c in calls:
        mod = None
        for k in c.keywords:
            if k.arg and "priority" in k.arg:
                mod = k.value
        if mod is None and len(c.args) > 3:
            mod = c.args[3]
        ok = isinstance(mod, ast.Constant) and isinstance(mod.value, (int, float)) and 0 < mod.value < 1
        ctx.check("C14.f.decision-priority", FLOWS1, "compute_next_state", first_line(c, 80), ok,
                  "a pending step of a flow NOT triggered by the current event is recorded with priority modifier %s (< 1)" % (src(mod) if mod is not None else None) if ok else
                  "the pending step of a flow not triggered by the current event is recorded at full priority: on a replayed history a stale step (e.g. `execute generate_user_intent` of an earlier turn) "
                  "ties with - and, being first, beats - `process user input` for the new message, so the input rails are skipped", line=c.lineno)
    if not calls:
        ctx.note("C14.f: flows not triggered by the current event record no next step")
    modp = [p for p in params if "priority" in p]
    uses = [a for a in ast.walk(rec) if isinstance(a, ast.Assign) and src(a.targets[0]).endswith("next_step_priority")]
    ok = bool(uses) and (not calls or (bool(modp) and all(any(isinstance(x, ast.Name) and x.id == modp[0] for x in ast.walk(a.value)) and "priority" in src(a.value) for a in uses)))
    ctx.check("C14.f.decision-priority", FLOWS1, "_record_next_step", "modifier enters the recorded priority", ok,
              "next_step_priority = flow priority x modifier", line=rec.lineno)
    tests = [i for i in ast.walk(rec) if isinstance(i, ast.If) and "next_step_priority" in src(i.test)]
    ok = bool(tests) and all(re.search(r"priority\s*>\s*\w+\.next_step_priority|next_step_priority\s*<\s*\w+\.priority", src(i.test)) for i in tests)
    ctx.check("C14.f.decision-priority", FLOWS1, "_record_next_step", "strictly higher priority replaces", ok,
              "a recorded next step is replaced only by a flow of strictly higher priority (ties keep the first)", line=rec.lineno)


CP1 = "nemoguardrails/colang/v1_0/lang/colang_parser.py"


def d_completion_siblings(ctx):
    """Sibling agreement inside compute_next_state: wherever a flow is slid, a negative head afterwards means it ran to its end and must be marked COMPLETED
    (the advance path does so; a flow that starts AND finishes on the same event takes the start path).  And a called subflow contributes a next step only
    while it waits on its own head (status ACTIVE), not when it is itself interrupted by a deeper subflow (F42, F43)."""
    t = ctx.tree.ast(FLOWS1)
    cns = find_function(t, "compute_next_state")
    if cns is None:
        raise AnalysisError("compute_next_state not found", anchor=FLOWS1 + "::compute_next_state")
    calls = [c for c in ast.walk(cns) if isinstance(c, ast.Call) and src(c.func) == "_slide_with_subflows" and len(c.args) == 2]
    ctx.floor("C14.d.completion", FLOWS1, "slides of a flow inside compute_next_state", len(calls), 2)
    for c in calls:
        fs = src(c.args[1])
        st = c
        while not isinstance(st, ast.stmt):
            st = st._parent
        blk = None
        p_ = st._parent
        for f in ("body", "orelse"):
            b = getattr(p_, f, None)
            if isinstance(b, list) and st in b:
                blk = b
        after = blk[blk.index(st) + 1:] if blk else []
        ok = any(isinstance(i, ast.If) and re.sub(r"\s", "", src(i.test)) == "%s.head<0" % fs and
                 any(isinstance(a, ast.Assign) and src(a.targets[0]) == "%s.status" % fs and src(a.value).endswith("COMPLETED") for a in ast.walk(i)) for i in after)
        ctx.check("C14.d.completion", FLOWS1, "compute_next_state", first_line(st, 70), ok,
                  "after sliding, a negative head marks the flow COMPLETED" if ok else
                  "a flow slid here is not marked COMPLETED when it runs to its end: an instance that starts and finishes on the same event stays ACTIVE with a negative head - the flow cannot start again, "
                  "and later events re-execute its last statements", line=st.lineno)
    cs = find_function(t, "_call_subflow")
    if cs is None:
        raise AnalysisError("_call_subflow not found", anchor=FLOWS1 + "::_call_subflow")
    recs = [c for c in ast.walk(cs) if isinstance(c, ast.Call) and src(c.func) == "_record_next_step"]
    for c in recs:
        fs = src(c.args[1]) if len(c.args) > 1 else None
        guarded = False
        p_ = getattr(c, "_parent", None)
        while p_ is not None and p_ is not cs:
            if isinstance(p_, ast.If) and re.sub(r"\s", "", src(p_.test)) in ("%s.status==FlowStatus.ACTIVE" % fs,):
                guarded = True
            p_ = getattr(p_, "_parent", None)
        ctx.check("C14.d.subflow-step", FLOWS1, "_call_subflow", first_line(c, 70), guarded,
                  "the called subflow contributes a next step only while it is ACTIVE (waiting on its own head)" if guarded else
                  "the next step of the called subflow is recorded unconditionally: if that subflow is itself waiting for a deeper subflow, its head is already past the call, so the statement AFTER the "
                  "inner call is decided while the inner subflow still waits", line=c.lineno)


def b_branch_indentation(ctx):
    """Blocks are delimited by comparing later lines with the indentation recorded for the branch.  The recorded value must be the indentation of the branch's OWN
    first line (`self.next_line`); the then-branch may reuse the value it has just stored in self.ifs from next_line.  An else-branch that reuses the THEN body's
    indentation is closed by its own first line when it is indented less, and its body is compiled after the `if`, i.e. runs unconditionally (F45)."""
    t = ctx.tree.ast(CP1)
    n = 0
    for fn in functions(t):
        for c in [c for c in walk_no_nested(fn) if isinstance(c, ast.Call) and src(c.func) == "self.branches.append" and c.args and isinstance(c.args[0], ast.Dict)]:
            d = c.args[0]
            ind = [v for k, v in zip(d.keys, d.values) if isinstance(k, ast.Constant) and k.value == "indentation"]
            if not ind:
                continue
            n += 1
            txt = re.sub(r"\s", "", src(ind[0]))
            own = "self.next_line['indentation']" in txt.replace('"', "'")
            reuse = txt.replace('"', "'") == "self.ifs[-1]['indentation']" and any(
                isinstance(x, ast.Call) and src(x.func) == "self.ifs.append" and "next_line" in src(x) and x.lineno < c.lineno for x in walk_no_nested(fn))
            ok = own or reuse
            ctx.check("C14.b.branch-indentation", CP1, qualname(fn), "branches.append(indentation=%s)" % src(ind[0])[:50], ok,
                      "the branch is delimited by the indentation of its own first line" if ok else
                      "the branch is delimited by `%s`, the indentation of ANOTHER block: an else body indented less than the then body is closed by its own first line and compiled after the `if`, "
                      "where it executes unconditionally" % src(ind[0])[:50], line=c.lineno)
    ctx.floor("C14.b.branch-indentation", CP1, "branch registrations with an indentation", n, 4)


def _anc_nodes(node, stop):
    p = getattr(node, "_parent", None)
    while p is not None and p is not stop:
        yield p
        p = getattr(p, "_parent", None)


def c_start_probe(ctx):
    """To see whether a flow can start on the current event, compute_next_state first slides it from position 0 ("in case a flow starts with sliding logic").
    slide() EXECUTES `set` elements (it writes the state's context).  Probing on the live state therefore runs the leading assignments of every flow on every
    event, whether or not the flow starts (F44)."""
    sl = find_function(ctx.tree.ast(SLIDING), "slide")
    cns = find_function(ctx.tree.ast(FLOWS1), "compute_next_state")
    if sl is None or cns is None:
        raise AnalysisError("slide / compute_next_state not found", anchor=SLIDING + "::slide")
    sp = sl.args.args[0].arg
    effects = [n for n in ast.walk(sl) if (isinstance(n, ast.Call) and isinstance(n.func, ast.Attribute) and n.func.attr in ("update", "append") and src(n.func.value).startswith(sp + ".context")) or
               (isinstance(n, ast.Assign) and src(n.targets[0]).startswith(sp + ".context"))]
    probes = [c for c in ast.walk(cns) if isinstance(c, ast.Call) and src(c.func) == "slide" and c.args]
    ctx.floor("C14.c.start-probe", FLOWS1, "start probes in compute_next_state", len(probes), 1)
    for c in probes:
        live = src(c.args[0]) == "new_state"
        ok = not (effects and live)
        if ok and effects and isinstance(c.args[0], ast.Name):
            # the scratch state (and the copy of the context in it) is made PER PROBE: inside the same loop iteration as the probe, from a fresh copy expression
            sv = c.args[0].id
            loop = next((p_ for p_ in _anc_nodes(c, cns) if isinstance(p_, (ast.For, ast.While))), None)
            mk = [a for a in ast.walk(cns) if isinstance(a, ast.Assign) and isinstance(a.targets[0], ast.Name) and a.targets[0].id == sv]
            fresh = bool(mk) and loop is not None and all(any(a is y for y in ast.walk(loop)) for a in mk)
            if fresh:
                for a in mk:
                    kws = {k.arg: k.value for k in a.value.keywords} if isinstance(a.value, ast.Call) else {}
                    cv = kws.get("context")
                    if cv is not None and isinstance(cv, ast.Name):
                        # a name: it must itself be bound to a copy inside the loop
                        defs = [d for d in ast.walk(cns) if isinstance(d, ast.Assign) and isinstance(d.targets[0], ast.Name) and d.targets[0].id == cv.id]
                        fresh = fresh and bool(defs) and all(any(d is y for y in ast.walk(loop)) for d in defs)
            if not fresh:
                ok = False
                ctx.check("C14.c.start-probe", FLOWS1, "compute_next_state", "scratch state of %s" % first_line(c, 50), False,
                          "the scratch state (or the context copy in it) that the start probes slide on is made once OUTSIDE the loop over the flows: the leading statements of a flow "
                          "that is not started leak into the probes of the flows defined after it", line=c.lineno)
                continue
        ctx.check("C14.c.start-probe", FLOWS1, "compute_next_state", first_line(c, 70), ok,
                  "the start probe cannot change the live state" if ok else
                  "the start probe slides the flow on the LIVE state and slide() executes `set` elements (%d context writes in slide): assignments before a flow's first `user`/event step run on every event "
                  "even if the flow never starts, and are published as ContextUpdate - another flow's `if $greeted` then takes the wrong branch" % len(effects), line=c.lineno)


def c_no_module_state(ctx):
    """`deciding the next step` is a function of (history, configuration): the Colang 1.0 interpreter modules keep no module-level container a function writes
    and memoise no evaluation - a result remembered from one history would be replayed into another."""
    from . import C08
    C08.c_no_module_state(ctx, modules=["nemoguardrails/colang/v1_0/runtime/eval.py", FLOWS1, SLIDING, "nemoguardrails/colang/v1_0/runtime/utils.py"],
                          rule="C14.c.no-module-state", floor=3,
                          why_all="a value computed while replaying one history is reused for another history (e.g. `if $answer == 4` decided for the int 4 is replayed for the string \"4\")")


def d_instance_uids(ctx):
    """Flow instances are told apart by uid (`interrupted_by` points at the uid of the subflow instance a caller waits for): every FlowState gets a fresh id."""
    t = ctx.tree.ast(FLOWS1)
    cons = [c for c in ast.walk(t) if isinstance(c, ast.Call) and src(c.func) == "FlowState"]
    ctx.floor("C14.d.instance-uid", FLOWS1, "FlowState constructions", len(cons), 2)
    for c in cons:
        uid = [k.value for k in c.keywords if k.arg == "uid"]
        v = uid[0] if uid else None
        if isinstance(v, ast.Name):
            fn = c
            while fn is not None and not isinstance(fn, (ast.FunctionDef, ast.AsyncFunctionDef)):
                fn = getattr(fn, "_parent", None)
            defs = [a for a in ast.walk(fn) if isinstance(a, ast.Assign) and src(a.targets[0]) == v.id] if fn else []
            v = defs[0].value if len(defs) == 1 else v
        ok = isinstance(v, ast.Call) and src(v.func) in ("new_uuid", "uuid.uuid4", "new_readable_uuid")
        ctx.check("C14.d.instance-uid", FLOWS1, "FlowState(...)", "uid=%s" % (src(uid[0]) if uid else None), ok,
                  "the instance gets a fresh uid" if ok else
                  "the instance uid `%s` is derived, not fresh: two calls of the same subflow from one flow share a uid, the caller is resumed by the COMPLETED first instance while the second call still runs"
                  % (src(uid[0]) if uid else None), line=c.lineno)


def b_else_binding(ctx):
    """An `else` belongs to the `if` whose KEYWORD stands at the same indentation.  The parser keeps the open ifs on a stack; on `else` it may pop an `if` only when the
    else is indented less than that if's keyword - so the keyword indentation must be recorded and compared."""
    t = ctx.tree.ast(CP1)
    rec = False
    for c in ast.walk(t):
        if isinstance(c, ast.Call) and src(c.func) == "self.ifs.append" and c.args and isinstance(c.args[0], ast.Dict):
            for k, v in zip(c.args[0].keys, c.args[0].values):
                if isinstance(k, ast.Constant) and k.value == "keyword_indentation" and src(v) == "self.current_indentation":
                    rec = True
    ctx.check("C14.b.else-binding", CP1, "ColangParser._parse_if_branch", "keyword indentation recorded", rec,
              "every open `if` records the indentation of its keyword" if rec else "the indentation of the `if` keyword is not recorded: an `else` cannot be matched with its `if` by position", line=1)
    fn = None
    for f in functions(t):
        if f.name == "_check_ifs_and_branches":
            fn = f
    if fn is None:
        raise AnalysisError("_check_ifs_and_branches not found", anchor=CP1 + "::_check_ifs_and_branches")
    loops = [w for w in ast.walk(fn) if isinstance(w, ast.While) and any(isinstance(c, ast.Call) and src(c.func) == "self.ifs.pop" for c in ast.walk(w))]
    ok = bool(loops) and all(any(isinstance(c, ast.Compare) and "keyword_indentation" in src(c) and "current_indentation" in src(c) for c in ast.walk(w.test)) and "else" in src(w.test) for w in loops)
    ctx.check("C14.b.else-binding", CP1, "ColangParser._check_ifs_and_branches", "else pops by keyword indentation", ok,
              "on `else`/`else if` an open `if` is closed only if the else is indented less than that if's keyword" if ok else
              "the decision which open `if` an `else` closes does not compare the else's indentation with the if's keyword indentation: an outer `else` after a then-block ending in a nested `if` "
              "binds to the NESTED if and runs under the inner condition", line=(loops[0].lineno if loops else fn.lineno))
