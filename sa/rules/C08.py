"""C08 - Flow calls bind parameters, defaults and return values; locals are private.
Decided: the protocol constants that three components must agree on, and the aliasing sites."""
import ast
import re

from ..pycfg import CFG, walk_no_nested
from ..source import truth, dict_key_writes, AnalysisError, find_function, find_class, first_line, src, functions, qualname, enclosing_function

TR = "nemoguardrails/colang/v2_x/lang/transformer.py"
SM = "nemoguardrails/colang/v2_x/runtime/statemachine.py"
FLOWS = "nemoguardrails/colang/v2_x/runtime/flows.py"
EXP = "nemoguardrails/colang/v2_x/lang/expansion.py"


def run(ctx):
    ctx.explanation = ("C08: agreement of the positional-argument key protocol ($0, $1, ...) between the producer (transformer) and the consumers (statemachine), "
                       "the return-value channel (Return -> _return_value -> FlowFinished.return_value -> await assignment), the binding order named/positional/default, "
                       "and the single, explicit site where a foreign context is shared.")
    ctx.decided = ["a: positional keys `$<n>`: producer counts from 0 by 1; every consumer uses `$<zero-based enumerate index>` without arithmetic",
                   "a': named argument wins, default expression is evaluated only when the name is absent; positional overrides by declaration order",
                   "b: return-value channel constants agree at all four sites",
                   "c: a foreign context is assigned to a flow only under the explicit `context` argument; every new FlowState gets fresh containers"]
    ctx.not_decided = ["value identity for all signatures and argument types (evaluation semantics)"]
    a_positional(ctx)
    a_reference_match(ctx)
    a_presence_by_key(ctx)
    b_return_channel(ctx)
    b_return_var_every_branch(ctx)
    c_context(ctx)
    c_no_module_state(ctx)
    a_single_evaluation(ctx)
    a_reserved_names(ctx)
    a_arguments_bound_once(ctx)
    a_restart_arguments(ctx)
    b_return_presence(ctx)


def _fstring_dollar(e):
    """f"${name}" -> the inner expression node, or None"""
    if isinstance(e, ast.JoinedStr) and len(e.values) == 2 and isinstance(e.values[0], ast.Constant) and e.values[0].value == "$" and isinstance(e.values[1], ast.FormattedValue):
        return e.values[1].value
    return None


def a_positional(ctx):
    # ---- producer ----
    t = ctx.tree.ast(TR)
    prod = []
    for fn in functions(t):
        for n in walk_no_nested(fn):
            if isinstance(n, ast.Assign) and isinstance(n.targets[0], ast.Subscript) and _fstring_dollar(n.targets[0].slice) is not None:
                prod.append((fn, n, _fstring_dollar(n.targets[0].slice)))
    ctx.floor("C08.a.positional-keys", TR, "producer sites of positional keys", len(prod), 3)
    for fn, n, idx in prod:
        unit = qualname(fn)
        ok = isinstance(idx, ast.Name)
        why = ""
        if ok:
            v = idx.id
            inits = [a for a in walk_no_nested(fn) if isinstance(a, ast.Assign) and isinstance(a.targets[0], ast.Name) and a.targets[0].id == v]
            incs = [a for a in walk_no_nested(fn) if isinstance(a, ast.AugAssign) and isinstance(a.target, ast.Name) and a.target.id == v]
            ok = bool(inits) and all(isinstance(a.value, ast.Constant) and a.value.value == 0 for a in inits) \
                and bool(incs) and all(isinstance(a.op, ast.Add) and isinstance(a.value, ast.Constant) and a.value.value == 1 for a in incs)
            # the increment directly follows the use, in the same block
            blk = _block_of(n)
            if ok and blk is not None:
                i = blk.index(n)
                ok = i + 1 < len(blk) and isinstance(blk[i + 1], ast.AugAssign) and src(blk[i + 1].target) == v
            why = "counter `%s` starts at 0 and is incremented by 1 right after each positional use" % v
        ctx.check("C08.a.positional-keys", TR, unit, first_line(n), ok,
                  "positional argument key `$<n>`: %s" % why if ok else "positional key `%s` is not a zero-based counter incremented by one after each use" % src(n.targets[0].slice), line=n.lineno)
    # ---- consumers ----
    sm = ctx.tree.ast(SM)
    cons = []
    for fn in functions(sm):
        for n in walk_no_nested(fn):
            inner = _fstring_dollar(n) if isinstance(n, ast.JoinedStr) else None
            if inner is not None:
                cons.append((fn, n, inner))
    ctx.floor("C08.a.positional-keys", SM, "consumer sites of positional keys", len(cons), 4)
    for fn, n, inner in cons:
        unit = fn.name
        # the index must be the index variable of an enclosing `enumerate` loop, used without arithmetic
        loop = None
        for p in _anc(n, fn):
            if isinstance(p, ast.For) and isinstance(p.iter, ast.Call) and src(p.iter.func) == "enumerate" and isinstance(p.target, ast.Tuple) \
                    and isinstance(p.target.elts[0], ast.Name) and len(p.iter.args) == 1:
                loop = p
                break
        ok = isinstance(inner, ast.Name) and loop is not None and inner.id == loop.target.elts[0].id
        allowed_surplus = False
        if not ok and fn.name == "_start_flow":
            # the one allowed exception: the surplus test, i.e. the first key beyond the declared parameters: `${last_idx+1}` or `${len(<the enumerated list>)}`
            txt = re.sub(r"\s", "", src(inner))
            enumerated = [re.sub(r"\s", "", src(l.iter.args[0])) for l in ast.walk(fn) if isinstance(l, ast.For) and isinstance(l.iter, ast.Call) and src(l.iter.func) == "enumerate" and l.iter.args]
            allowed_surplus = txt == "last_idx+1" or any(txt == "len(%s)" % e for e in enumerated)
        ctx.check("C08.a.positional-keys", SM, unit, "f\"${%s}\"" % src(inner), ok or allowed_surplus,
                  ("consumer key `$<%s>` is the zero-based index of `%s`, used without arithmetic" % (src(inner), src(loop.iter)) if ok else
                   "surplus test `${last_idx+1}`: the first key beyond the parameters consumed by the loop") if ok or allowed_surplus else
                  "consumer builds the positional key from `%s`, which is not a plain zero-based enumerate index: caller's $n and callee's $n no longer denote the same parameter" % src(inner),
                  line=n.lineno)
    # ---- positional keys are resolved against the DECLARED parameter list (the bound-arguments dict also holds the keys $0, $1, ... themselves) ----
    for fn, n, inner in cons:
        for p in _anc(n, fn):
            if isinstance(p, ast.For) and isinstance(p.iter, ast.Call) and src(p.iter.func) == "enumerate" and p.iter.args:
                it = p.iter.args[0]
                txt = src(it)
                if isinstance(it, ast.Name):
                    defs = [a for a in walk_no_nested(fn) if isinstance(a, ast.Assign) and src(a.targets[0]) == it.id]
                    txt = src(defs[0].value) if defs else txt
                ok = txt.endswith(".parameters")
                ctx.check("C08.a.positional-keys", SM, fn.name, "enumerate(%s)" % src(it), ok,
                          "positions are counted over the flow's declared parameters" if ok else
                          "positions are counted over `%s`, which is not the declared parameter list (the bound-arguments dict also contains the positional keys): surplus positional arguments of a flow WITH parameters "
                          "are not rejected but written into the context under bogus keys, and the caller hangs" % txt, line=p.lineno)
                break
    # ---- binding order in create_flow_instance ----
    fn = find_function(sm, "create_flow_instance")
    if fn is None:
        raise AnalysisError("create_flow_instance not found", anchor=SM + "::create_flow_instance")
    loops = [l for l in fn.body if isinstance(l, ast.For) and re.sub(r"\s", "", src(l.iter)) == "enumerate(flow_config.parameters)"]
    ok = len(loops) >= 2
    named_ok = default_ok = pos_ok = False
    if ok:
        l0 = loops[0]
        pv = l0.target.elts[1].id if isinstance(l0.target, ast.Tuple) else None
        for i in [x for x in ast.walk(l0) if isinstance(x, ast.If)]:
            if re.sub(r"\s", "", src(i.test)) == "%s.nameinevent_arguments" % pv:
                named_ok = any(re.sub(r"\s", "", src(s)) == "val=event_arguments[%s.name]" % pv for s in i.body)
                default_ok = any("default_value_expr" in src(s) and "eval_expression" in src(s) for s in i.orelse) and \
                    not any("eval_expression" in src(s) for s in i.body)
        store = any(re.sub(r"\s", "", src(s)) == "flow_state.arguments[%s.name]=val" % pv for s in l0.body)
        named_ok = named_ok and store
        l1 = loops[1]
        pv1 = l1.target.elts[1].id if isinstance(l1.target, ast.Tuple) else None
        pos_ok = l1.lineno > l0.lineno and any(isinstance(i, ast.If) and re.search(r"in event_arguments$", src(i.test))
                                               and any(re.sub(r"\s", "", src(s)) == "flow_state.arguments[%s.name]=val" % pv1 for s in i.body) for i in l1.body)
    ctx.check("C08.a.binding", SM, "create_flow_instance", "named argument", named_ok,
              "a parameter named in the call receives exactly event_arguments[param.name]", line=fn.lineno)
    ctx.check("C08.a.binding", SM, "create_flow_instance", "default only when absent", default_ok,
              "the default expression is evaluated only in the branch where the name is absent from the call", line=fn.lineno)
    ctx.check("C08.a.binding", SM, "create_flow_instance", "positional by declaration order", pos_ok,
              "after the named/default pass, `$<idx>` (idx = position in the declared parameter list) overrides the parameter of that position", line=fn.lineno)
    ctxupd = (any(isinstance(c, ast.Call) and src(c.func) == "flow_state.context.update" for c in ast.walk(loops[0])) or
              any(isinstance(a, ast.Assign) and isinstance(a.targets[0], ast.Subscript) and src(a.targets[0].value) == "flow_state.context" for a in ast.walk(loops[0]))) if ok else False
    # return members are initialised AFTER the parameters were bound: a member that has the name of a parameter (`flow f $text -> $text`) must not overwrite it (F131)
    rm = [l for l in fn.body if isinstance(l, ast.For) and "return_members" in src(l.iter)]
    for l in rm:
        mv = l.target.elts[1].id if isinstance(l.target, ast.Tuple) and len(l.target.elts) == 2 else src(l.target)
        plain = [a for a in ast.walk(l) if isinstance(a, ast.Assign) and isinstance(a.targets[0], ast.Subscript) and src(a.targets[0].value) == "flow_state.context"] \
            or [c for c in ast.walk(l) if isinstance(c, ast.Call) and src(c.func) == "flow_state.context.update"]
        guarded = any(isinstance(i, ast.If) and any(isinstance(a_, ast.Compare) and isinstance(a_.ops[0], (ast.In, ast.NotIn)) and mv in src(a_.left)
                                                    and ("arguments" in src(a_.comparators[0]) or "context" in src(a_.comparators[0])) for a_ in ast.walk(i.test)) for i in ast.walk(l)) \
            or any(isinstance(c, ast.Call) and src(c.func) == "flow_state.context.setdefault" for c in ast.walk(l))
        ctx.check("C08.a.binding", SM, "create_flow_instance", "return members do not overwrite parameters", guarded or not plain,
                  "a return member with the name of a parameter keeps the bound value" if guarded or not plain else
                  "the return members are written into the context after the parameters: with `flow normalize $text -> $text`, `await normalize $text=\"Hi\"` runs the flow with "
                  "$text = None (FlowState.arguments and the FlowStarted event hold the right value, the variable the flow reads does not)", line=l.lineno)
    ctx.check("C08.a.binding", SM, "create_flow_instance", "parameters visible as locals", ctxupd, "bound parameters are copied into the instance's own context", line=fn.lineno)


def a_presence_by_key(ctx):
    """Whether the call supplied an argument is a question about the KEYS of the call's argument mapping.  `None` is a value a caller can pass (the result of a flow that
    returned nothing, an unset variable): deciding presence from `<mapping>.get(<parameter key>)` treats an explicit None as "not given" - the parameter silently gets
    its default and, for positional arguments, every later positional argument is dropped as well."""
    sm = ctx.tree.ast(SM)
    n = 0
    for name in ("create_flow_instance", "_start_flow", "_get_reference_activated_flow_instance"):
        fn = find_function(sm, name)
        if fn is None:
            raise AnalysisError("%s not found" % name, anchor=SM + "::" + name)
        maps = [a.arg for a in fn.args.args if "arguments" in a.arg]
        n += 1
        gets = [c for c in walk_no_nested(fn) if isinstance(c, ast.Call) and isinstance(c.func, ast.Attribute) and c.func.attr in ("get", "pop", "setdefault")
                and ((isinstance(c.func.value, ast.Name) and c.func.value.id in maps) or (isinstance(c.func.value, ast.Attribute) and c.func.value.attr == "arguments"
                                                                                          and src(c.func.value.value) in ("event", "start_event")))
                and c.args and not isinstance(c.args[0], ast.Constant)]
        ctx.check("C08.a.presence-by-key", SM, name, "parameter keys of the call are tested with `in`", not gets,
                  "presence of a named / positional argument is decided by key membership (an explicit None is a value)" if not gets else
                  "`%s` reads a parameter key with .get(): an argument that was passed as None (e.g. `await report \"a\" $missing \"high\"`) counts as absent - the parameter gets its "
                  "default and the positional arguments after it are dropped" % first_line(gets[0], 60), line=(gets[0].lineno if gets else fn.lineno))
    ctx.floor("C08.a.presence-by-key", SM, "functions binding call arguments", n, 3)


def a_reference_match(ctx):
    """An `activate`d flow is re-used only when the reference instance was bound to exactly the same parameter values:
    every clause that can set `matched` compares the instance's bound value with what the call would bind."""
    sm = ctx.tree.ast(SM)
    fn = find_function(sm, "_get_reference_activated_flow_instance")
    if fn is None:
        raise AnalysisError("_get_reference_activated_flow_instance not found", anchor=SM + "::_get_reference_activated_flow_instance")
    def _loops(f):
        return [l for l in ast.walk(f) if isinstance(l, ast.For) and "parameters" in src(l.iter) and src(getattr(l.iter, "func", l.iter)) == "enumerate"]
    loops = _loops(fn)
    if not loops:
        # the comparison may have been extracted into a module-level helper called from here
        for c in ast.walk(fn):
            if isinstance(c, ast.Call) and isinstance(c.func, ast.Name):
                h = find_function(sm, c.func.id)
                if h is not None and _loops(h):
                    fn = h
                    loops = _loops(h)
                    break
    if not loops:
        raise AnalysisError("parameter comparison loop not found", anchor=SM + "::_get_reference_activated_flow_instance")
    loop = loops[0]
    # the variable holding the instance's bound value
    bound = [a for a in loop.body if isinstance(a, ast.Assign) and isinstance(a.targets[0], ast.Name) and re.search(r"\.arguments\[", src(a.value))]
    bv = bound[0].targets[0].id if bound else None
    clauses = []
    for n in ast.walk(loop):
        if isinstance(n, ast.Assign) and src(n.targets[0]) == "matched" and not (isinstance(n.value, ast.Constant)):
            clauses.append((n, n.value))
        elif isinstance(n, ast.AugAssign) and src(n.target) == "matched":
            clauses.append((n, n.value))
    ctx.floor("C08.a.reference-match", SM, "clauses that accept a reference instance", len(clauses), 3)
    kinds = set()
    for n, v in clauses:
        cmps = [c for c in ast.walk(v) if isinstance(c, ast.Compare) and len(c.ops) == 1 and isinstance(c.ops[0], ast.Eq)
                and (src(c.left) == bv or src(c.comparators[0]) == bv)]
        ok = bool(cmps) and not (isinstance(v, ast.BoolOp) and isinstance(v.op, ast.Or))
        # the comparison must be a conjunct (not optional)
        if ok and isinstance(v, ast.BoolOp):
            ok = any(c in v.values for c in cmps)
        if cmps:
            other = cmps[0].comparators[0] if src(cmps[0].left) == bv else cmps[0].left
            o = re.sub(r"\s", "", src(other))
            if "default_value_expr" in o and "eval_expression" in o:
                kinds.add("default")
            elif _fstring_dollar(getattr(other, "slice", None)) is not None:
                kinds.add("positional")
            elif o.endswith(".name]"):
                kinds.add("named")
        ctx.check("C08.a.reference-match", SM, fn.name, first_line(n, 70), ok,
                  "the clause accepts the reference instance only if its bound value equals the value this call binds" if ok else
                  "this clause sets `matched` without comparing the reference instance's bound value `%s`: a call with other (or defaulted) arguments is served by an instance bound to different values" % bv,
                  line=n.lineno)
    ctx.check("C08.a.reference-match", SM, fn.name, "named/positional/default all compared", kinds == {"named", "positional", "default"},
              "the three binding forms (named, positional `$<idx>`, default expression) each have a value comparison: %s" % sorted(kinds), line=loop.lineno)
    rej = any(isinstance(i, ast.If) and re.sub(r"\s", "", src(i.test)) == "notmatched" and any(
        isinstance(s, (ast.Break, ast.Continue, ast.Assign)) or (isinstance(s, ast.Return) and isinstance(s.value, ast.Constant) and s.value.value is False) for s in i.body) for i in loop.body)
    ctx.check("C08.a.reference-match", SM, fn.name, "mismatch rejects", rej, "a parameter for which no clause matched rejects the candidate instance", line=loop.lineno)


RUNTIME_MODULES = ["nemoguardrails/colang/v2_x/runtime/eval.py", SM, FLOWS, "nemoguardrails/colang/v2_x/runtime/utils.py"]
MUTATORS = {"update", "setdefault", "append", "add", "extend", "insert", "pop", "clear", "appendleft"}


def c_no_module_state(ctx, modules=None, rule="C08.c.no-module-state", why_all=None, floor=4):
    """Values bound to one flow instance (evaluated defaults, locals) must not be reachable from another instance through the module:
    the interpreter modules keep no module-level container that a function writes, and memoise no evaluation."""
    n_mod = 0
    for path in (modules or RUNTIME_MODULES):
        if not ctx.tree.exists(path):
            continue
        n_mod += 1
        t = ctx.tree.ast(path)
        containers = {}
        for s in t.body:
            tgt = val = None
            if isinstance(s, ast.Assign) and isinstance(s.targets[0], ast.Name):
                tgt, val = s.targets[0].id, s.value
            elif isinstance(s, ast.AnnAssign) and isinstance(s.target, ast.Name) and s.value is not None:
                tgt, val = s.target.id, s.value
            if tgt is None:
                continue
            if isinstance(val, (ast.Dict, ast.List, ast.Set, ast.DictComp, ast.ListComp, ast.SetComp)) or \
                    (isinstance(val, ast.Call) and src(val.func).split(".")[-1] in ("dict", "list", "set", "defaultdict", "OrderedDict", "deque", "WeakValueDictionary", "LRUCache")):
                containers[tgt] = s
        bad = []
        for fn in functions(t):
            for d in fn.decorator_list:
                dn = src(d.func if isinstance(d, ast.Call) else d).split(".")[-1]
                if dn in ("lru_cache", "cache", "cached", "memoize"):
                    bad.append((fn.lineno, qualname(fn), "@%s" % dn, "memoises results across flow instances"))
            # a mutable default is ONE object for all calls: if the function writes into the parameter (or hands it on / returns it) values leak between instances
            a_ = fn.args
            pos = a_.posonlyargs + a_.args
            defaults = list(zip(pos[len(pos) - len(a_.defaults):], a_.defaults)) + [(k, d) for k, d in zip(a_.kwonlyargs, a_.kw_defaults) if d is not None]
            for par, dv in defaults:
                if isinstance(dv, (ast.Dict, ast.List, ast.Set)) or (isinstance(dv, ast.Call) and src(dv.func) in ("dict", "list", "set")):
                    rebound_first = False
                    first = fn.body[1] if fn.body and isinstance(fn.body[0], ast.Expr) and isinstance(fn.body[0].value, ast.Constant) and len(fn.body) > 1 else (fn.body[0] if fn.body else None)
                    if isinstance(first, ast.Assign) and any(isinstance(t_, ast.Name) and t_.id == par.arg for t_ in first.targets) and \
                            isinstance(first.value, ast.Call) and src(first.value.func) in ("dict", "list", "set", "copy.copy", "copy.deepcopy") :
                        rebound_first = True
                    writes = [x for x in walk_no_nested(fn) if
                              (isinstance(x, (ast.Assign, ast.AugAssign)) and any(isinstance(t_, ast.Subscript) and isinstance(t_.value, ast.Name) and t_.value.id == par.arg
                                                                                 for t_ in (x.targets if isinstance(x, ast.Assign) else [x.target])))
                              or (isinstance(x, ast.Call) and isinstance(x.func, ast.Attribute) and x.func.attr in MUTATORS and isinstance(x.func.value, ast.Name) and x.func.value.id == par.arg)]
                    # `if not p: p = {}` / `if p is None: p = {}` in front of the first write replaces the shared (empty) default by a fresh object
                    for g_ in walk_no_nested(fn):
                        if isinstance(g_, ast.If) and writes and g_.lineno < writes[0].lineno and any(isinstance(x_, ast.Name) and x_.id == par.arg for x_ in ast.walk(g_.test)):
                            for v_ in (True, False):
                                if any(isinstance(a2, ast.Assign) and any(isinstance(t_, ast.Name) and t_.id == par.arg for t_ in a2.targets)
                                       and isinstance(a2.value, (ast.Dict, ast.List, ast.Set, ast.Call)) for a2 in (g_.body if v_ else g_.orelse)):
                                    rebound_first = True
                    if writes and not rebound_first:
                        bad.append((writes[0].lineno, qualname(fn), "%s=%s written by `%s`" % (par.arg, src(dv), first_line(writes[0], 50)),
                                    "the mutable default of parameter `%s` is written: the same object serves every call that omits the argument" % par.arg))
            for n in walk_no_nested(fn):
                if isinstance(n, ast.Global):
                    bad.append((n.lineno, qualname(fn), first_line(n), "rebinds module state"))
                tg = []
                if isinstance(n, ast.Assign):
                    tg = n.targets
                elif isinstance(n, (ast.AugAssign, ast.AnnAssign)):
                    tg = [n.target]
                for x in tg:
                    if isinstance(x, ast.Subscript) and isinstance(x.value, ast.Name) and x.value.id in containers and not _shadowed(fn, x.value.id):
                        bad.append((n.lineno, qualname(fn), first_line(n), "stores into module-level `%s`" % x.value.id))
                if isinstance(n, ast.Call) and isinstance(n.func, ast.Attribute) and n.func.attr in MUTATORS and isinstance(n.func.value, ast.Name) \
                        and n.func.value.id in containers and not _shadowed(fn, n.func.value.id):
                    bad.append((n.lineno, qualname(fn), first_line(n), "mutates module-level `%s`" % n.func.value.id))
        ctx.check(rule, path, "<module>", "no function writes module-level state", not bad,
                  "%d module-level container(s) %s; none is written by a function, nothing is memoised" % (len(containers), sorted(containers)), line=1)
        for ln, unit, cons, why in bad:
            ctx.check(rule, path, unit, cons, False,
                      "%s: %s" % (why, why_all or "an object evaluated for one flow instance (e.g. a mutable parameter default) is handed to every later instance"), line=ln)
    ctx.floor(rule, (modules or RUNTIME_MODULES)[0].rsplit("/", 1)[0], "interpreter modules analysed", n_mod, floor)


def _shadowed(fn, name):
    args = [a.arg for a in fn.args.args + fn.args.kwonlyargs + fn.args.posonlyargs]
    if name in args:
        return True
    for n in walk_no_nested(fn):
        if isinstance(n, ast.Assign) and any(isinstance(t, ast.Name) and t.id == name for t in n.targets):
            return True
    return False


def a_single_evaluation(ctx):
    """`each parameter receives exactly the value of the argument evaluated in the caller`: the argument expressions of a call may appear in ONE generated element only
    (the StartFlow event).  The internal match on FlowStarted identifies the instance by flow_id + flow_instance_uid; if it repeated the argument expressions they would
    be evaluated a second time, later, possibly to another value."""
    t = ctx.tree.ast(EXP)
    n = 0
    for name in ("_expand_start_element", "_expand_activate_element"):
        fn = find_function(t, name)
        if fn is None:
            raise AnalysisError("%s not found" % name, anchor=EXP + "::" + name)
        for c in [c for c in ast.walk(fn) if isinstance(c, ast.Call) and src(c.func) == "Spec" and any(k.arg == "name" and "FLOW_STARTED" in src(k.value) for k in c.keywords)]:
            n += 1
            arg = [k.value for k in c.keywords if k.arg == "arguments"]
            a = arg[0] if arg else None
            if isinstance(a, ast.Name):
                defs = [x for x in walk_no_nested(fn) if isinstance(x, ast.Assign) and src(x.targets[0]) == a.id]
                upd = [x for x in walk_no_nested(fn) if isinstance(x, ast.Call) and isinstance(x.func, ast.Attribute) and src(x.func.value) == a.id and x.func.attr == "update"]
                a_eff = defs[0].value if len(defs) == 1 and not upd else None
            else:
                a_eff = a
            ok = isinstance(a_eff, ast.Dict) and all(isinstance(k, ast.Constant) and k.value in ("flow_id", "flow_instance_uid") for k in a_eff.keys) and len(a_eff.keys) == 2
            ctx.check("C08.a.single-evaluation", EXP, name, "match FlowStarted(arguments=%s)" % (src(a)[:40] if a is not None else None), ok,
                      "the FlowStarted match names only flow_id and flow_instance_uid; the call's argument expressions are evaluated once, for StartFlow" if ok else
                      "the FlowStarted match repeats the call's argument expressions (`%s`): they are evaluated a second time after the callee has started - for `await bump $count` (callee changes the global) or "
                      "`await f(uid())` the two values differ, the callee runs with the first and the caller waits forever" % (src(a)[:50] if a is not None else None), line=c.lineno)
    ctx.floor("C08.a.single-evaluation", EXP, "generated FlowStarted matches", n, 2)


def a_reserved_names(ctx):
    """A declared parameter shares its name space with keys the runtime writes itself: the evaluation context (`_get_eval_context` adds fixed keys AFTER the flow's variables),
    and the StartFlow/FlowStarted event arguments (flow_id, flow_instance_uid, context, ...).  A parameter with such a name cannot receive its argument; this must be excluded
    when the flow is loaded."""
    sm = ctx.tree.ast(SM)
    ge = find_function(sm, "_get_eval_context")
    if ge is None:
        raise AnalysisError("_get_eval_context not found", anchor=SM + "::_get_eval_context")
    reserved = set()
    # keys the evaluation context receives on top of the flow's own variables (any spelling of the write)
    ret_names = {src(r.value) for r in ast.walk(ge) if isinstance(r, ast.Return) and r.value is not None}
    for m, k, v, site in dict_key_writes(ge):
        if isinstance(k, str) and (m in ret_names or m == "context"):
            reserved.add(k)
    exp = ctx.tree.ast(EXP)
    se = find_function(exp, "_expand_start_element")
    for m, k, v, site in dict_key_writes(se):
        if isinstance(k, str) and "arguments" in m:
            reserved.add(k)
    cfi = find_function(sm, "create_flow_instance")
    for i in ast.walk(cfi):
        if isinstance(i, ast.Compare) and isinstance(i.left, ast.Constant) and isinstance(i.ops[0], ast.In) and src(i.comparators[0]) == "event_arguments":
            reserved.add(i.left.value)
    if len(reserved) < 4:
        raise AnalysisError("reserved runtime keys not recognised (%s)" % sorted(reserved), anchor=SM + "::_get_eval_context")
    # is there a load-time validation of parameter names against (a superset of) these keys?
    validated = set()
    for rel in (RT2, "nemoguardrails/colang/v2_x/lang/transformer.py", SM):
        t = ctx.tree.ast(rel)
        for fn in functions(t):
            txt = src(fn)
            if "parameters" in txt and ("ColangSyntaxError" in txt or "raise" in txt):
                for i in ast.walk(fn):
                    if isinstance(i, ast.Compare) and any(isinstance(o, (ast.In, ast.NotIn)) for o in i.ops) and re.search(r"param\w*\.name|parameter\w*\.name", src(i.left)):
                        for x in ast.walk(i.comparators[0]):
                            if isinstance(x, ast.Constant) and isinstance(x.value, str):
                                validated.add(x.value)
                        if isinstance(i.comparators[0], ast.Name):
                            for a in ast.walk(t):
                                if isinstance(a, ast.Assign) and src(a.targets[0]) == i.comparators[0].id:
                                    validated |= {x.value for x in ast.walk(a.value) if isinstance(x, ast.Constant) and isinstance(x.value, str)}
    missing = sorted(reserved - validated)
    ctx.check("C08.a.reserved-names", SM, "_get_eval_context", "parameter names vs. runtime keys %s" % sorted(reserved), not missing,
              "flows declaring a parameter named like a runtime key are rejected when loaded" if not missing else
              "nothing rejects a flow parameter named %s: `$system`/`$self` are overwritten by the evaluation context on every evaluation (the callee sees the runtime State / its own FlowState instead of the argument), "
              "`$flow_id`/`$flow_instance_uid`/`$context` are overwritten by the start expansion or taken for the internal context-sharing request" % missing, line=ge.lineno)


RT2 = "nemoguardrails/colang/v2_x/runtime/runtime.py"


def _block_of(stmt):
    p = getattr(stmt, "_parent", None)
    for f in ("body", "orelse", "finalbody"):
        b = getattr(p, f, None)
        if isinstance(b, list) and stmt in b:
            return b
    return None


def _anc(node, stop):
    p = getattr(node, "_parent", None)
    while p is not None and p is not stop:
        yield p
        p = getattr(p, "_parent", None)


def b_return_channel(ctx):
    sm = ctx.tree.ast(SM)
    slide = find_function(sm, "slide")
    # K1: key written by Return
    k1 = None
    for n in ast.walk(slide):
        if isinstance(n, ast.If) and "isinstance(element, Return)" in src(n.test):
            for st_ in n.body:
                for m_, k_, v_, site_ in dict_key_writes(st_):
                    if m_ == "flow_state.context" and isinstance(k_, str):
                        k1 = k_
                        val = src(v_)
    ctx.check("C08.b.return-channel", SM, "slide", "Return writes context key", k1 is not None, "`return <expr>` stores the evaluated value under the context key %r" % k1, line=slide.lineno)
    # finished_event reads K1 and publishes K2
    tf = ctx.tree.ast(FLOWS)
    fe = find_function(tf, "finished_event", "FlowState")
    k2 = None
    reads_k1 = False
    if fe is not None:
        for s_ in [x for x in ast.walk(fe) if isinstance(x, ast.Assign)]:
            if k1 is not None and isinstance(s_.targets[0], ast.Subscript) and isinstance(s_.targets[0].slice, ast.Constant) and \
                    re.sub(r"\s", "", src(s_.value)) in ("self.context[%r]" % k1, "self.context.get(%r)" % k1, "self.context.get(%r,None)" % k1):
                k2 = s_.targets[0].slice.value
                reads_k1 = True
    ctx.check("C08.b.return-channel", FLOWS, "FlowState.finished_event", "publishes the return value", reads_k1 and k2 is not None,
              "FlowFinished carries self.context[%r] as argument %r" % (k1, k2), line=(fe.lineno if fe else 1))
    # the await expansion reads .arguments.<K2>
    te = ctx.tree.ast(EXP)
    me = find_function(te, "_expand_match_element")
    reads = [n for n in ast.walk(me) if isinstance(n, ast.JoinedStr) and ".arguments" in src(n)]

    def _reads_k2(r):
        t_ = src(r).rstrip("'\"")
        return t_.endswith(".arguments.%s" % k2) or re.search(r"\.arguments\.get\(\\?['\"]%s\\?['\"]\)$" % re.escape(str(k2)), t_) is not None or \
            re.search(r"\.arguments\[\\?['\"]%s\\?['\"]\]$" % re.escape(str(k2)), t_) is not None
    ok = bool(reads) and k2 is not None and all(_reads_k2(r) for r in reads)
    # totality: the value is published only if a `return` ran; then the reader must tolerate its absence
    conditional_publish = fe is not None and any(isinstance(i, ast.If) and k1 is not None and repr(k1) in src(i.test) for i in ast.walk(fe))
    if ok and conditional_publish:
        tolerant = all(".get(" in src(r) for r in reads)
        ctx.check("C08.b.return-channel", EXP, "_expand_match_element", "reader tolerates a flow that ended without `return`", tolerant,
                  "FlowFinished carries %r only if a `return` ran; the generated assignment reads it with .get(), so a flow that just reaches its end yields None" % k2 if tolerant else
                  "FlowFinished carries %r only if a `return` statement ran, but the assignment generated for `$x = await flow` reads `.arguments.%s` unconditionally: awaiting a flow that simply reaches its end "
                  "raises an evaluation error and STOPS THE CALLER (documented behaviour: None)" % (k2, k2), line=(reads[0].lineno if reads else me.lineno))
    ctx.check("C08.b.return-channel", EXP, "_expand_match_element", "await assignment reads the published argument", ok,
              "`$x = await flow` assigns `$<ref>.arguments.%s` of the matched Finished event" % k2, line=(reads[0].lineno if reads else me.lineno))
    # the await expander forwards return_var_name to the match on Finished
    ae = find_function(te, "_expand_await_element")
    ok = any(isinstance(c, ast.Call) and src(c.func) == "SpecOp" and any(k.arg == "return_var_name" and src(k.value) == "element.return_var_name" for k in c.keywords)
             and any(k.arg == "op" and src(k.value) == "'match'" for k in c.keywords) for c in ast.walk(ae))
    ctx.check("C08.b.return-channel", EXP, "_expand_await_element", "return variable forwarded", ok, "the awaited flow's Finished match carries the caller's return variable name", line=ae.lineno)


def b_return_var_every_branch(ctx):
    """`$x = await ...` / `$x = match ...` hand the expander an element with return_var_name set.  Every branch of the two expanders must either USE that name (forward it to the
    generated match, or generate the assignment) or reject the statement: a branch that neither reads it nor raises compiles the statement into code that silently never assigns $x."""
    te = ctx.tree.ast(EXP)
    n = 0
    for name in ("_expand_await_element", "_expand_match_element"):
        fn = find_function(te, name)
        if fn is None:
            raise AnalysisError("%s not found in %s" % (name, EXP), anchor=name)
        cfg = CFG(fn)
        uses = [nd for nd in cfg.nodes if nd.ast is not None and nd.kind != "test" and not hasattr(nd.ast, "body")
                and any(isinstance(a, ast.Attribute) and a.attr == "return_var_name" and isinstance(a.ctx, ast.Load) for a in ast.walk(nd.ast))]
        n += len(uses)
        base = {"element.return_var_name is not None": True, "element.return_var_name is None": False, "element.return_var_name": True}
        ok = True
        # SpecOp.spec is declared Union[Spec, dict]: the two cases are examined separately (a chain `if isinstance(.., Spec) .. elif isinstance(.., dict)` has no third way out)
        for kind_facts in ({"isinstance(element.spec, Spec)": True, "isinstance(element.spec, dict)": False},
                           {"isinstance(element.spec, Spec)": False, "isinstance(element.spec, dict)": True}):
            facts = dict(base, **kind_facts)
            # walk under the facts, stopping at uses and at raises
            seen, stack = set(), [cfg.entry]
            while stack:
                x = stack.pop()
                if x in seen or x in uses or x is cfg.raise_exit:
                    continue
                seen.add(x)
                v = truth(x.ast, facts) if x.kind == "test" and isinstance(x.ast, ast.expr) else None
                stack.extend(m for m, lab in x.succ if not (v is not None and lab in (True, False) and lab is not v))
            ok = ok and cfg.exit not in seen
        ctx.check("C08.b.return-var-every-branch", EXP, name, "return variable used or statement rejected on every branch", ok,
                  "every way through %s with a return variable set either forwards/assigns it or raises ColangSyntaxError" % name if ok else
                  "%s has a branch that returns its expansion without looking at element.return_var_name: `$x = %s <group>` is accepted and executed but $x is never assigned "
                  "(it silently keeps its previous value)" % (name, "await" if "await" in name else "match"), line=fn.lineno)
    ctx.floor("C08.b.return-var-every-branch", EXP, "statements that use element.return_var_name in the two expanders", n, 2)


def a_restart_arguments(ctx):
    """An activated flow is restarted with the StartFlow event FlowState.start_event builds.  Its parameters must be the ARGUMENTS the instance was called with
    (`self.arguments`), not the instance's context: the body may have re-assigned a parameter (`$count = $count + 1`), and locals of one instance never reach another."""
    t = ctx.tree.ast(FLOWS)
    fn = find_function(t, "start_event", "FlowState")
    if fn is None:
        raise AnalysisError("FlowState.start_event not found", anchor=FLOWS + "::FlowState.start_event")
    reads_args = any(isinstance(a, ast.Attribute) and src(a) == "self.arguments" for a in ast.walk(fn))
    ctx_reads = [a for a in ast.walk(fn) if isinstance(a, ast.Attribute) and src(a) == "self.context" and isinstance(a.ctx, ast.Load)]
    ok = reads_args and not ctx_reads
    ctx.check("C08.a.restart-arguments", FLOWS, "FlowState.start_event", "parameters of the restart event", ok,
              "the StartFlow event of a restart carries `self.arguments` (the values of the original call) and reads nothing from the instance's context" if ok else
              "the StartFlow event of a restart reads `self.context` (line %d): a parameter the body re-assigned is handed to the next instance - the second instance of an activated "
              "flow starts from the first one's local value instead of the activation argument or default" % (ctx_reads[0].lineno if ctx_reads else fn.lineno), line=fn.lineno)


def c_context(ctx):
    sm = ctx.tree.ast(SM)
    stores = []
    for fn in functions(sm):
        for n in walk_no_nested(fn):
            if isinstance(n, ast.Assign) and isinstance(n.targets[0], ast.Attribute) and n.targets[0].attr == "context" and not isinstance(n.value, ast.Dict):
                stores.append((fn, n))
    ctx.floor("C08.c.context", SM, "assignments of a foreign dict to a flow context", len(stores), 1)
    for fn, n in stores:
        guard = [p for p in _anc(n, fn) if isinstance(p, ast.If) and re.sub(r"\s", "", src(p.test)) in ("'context'inevent_arguments", '"context"inevent_arguments')]
        ok = bool(guard) and re.sub(r"\s", "", src(n.value)) in ("event_arguments['context']", 'event_arguments["context"]')
        ctx.check("C08.c.context", SM, fn.name, first_line(n), ok,
                  "a flow shares another flow's context only when the StartFlow event explicitly carries `context`" if ok else
                  "`%s` replaces a flow's context outside the explicit `context` argument: locals of one instance become visible in another" % first_line(n), line=n.lineno)
    # FlowState(...) constructions pass no context / arguments (dataclass default_factory gives fresh dicts)
    cons = [c for c in ast.walk(sm) if isinstance(c, ast.Call) and src(c.func) == "FlowState"]
    for c in cons:
        bad = [k.arg for k in c.keywords if k.arg in ("context", "arguments")]
        ctx.check("C08.c.fresh", SM, qualname(enclosing_function(c)), first_line(c, 60), not bad,
                  "a new FlowState is created without handing in a context/arguments dict" if not bad else "FlowState is constructed with a shared %s" % bad, line=c.lineno)
    tf = ctx.tree.ast(FLOWS)
    cls = find_class(tf, "FlowState")
    ok = True
    for a in cls.body:
        if isinstance(a, ast.AnnAssign) and src(a.target) in ("context", "arguments"):
            ok = ok and a.value is not None and "default_factory" in src(a.value)
    ctx.check("C08.c.fresh", FLOWS, "FlowState", "fresh containers", ok, "FlowState.context and .arguments use default_factory (a fresh dict per instance, not a shared default)", line=cls.lineno)


def a_arguments_bound_once(ctx):
    """FlowState.arguments records what the CALLER bound: it is what FlowStarted/Finished report, what the activation match compares, and what start_event()
    copies into the StartFlow event that restarts an activated flow.  It is written where the parameters are bound (_start_flow) and nowhere else; in particular
    a local `$param = ...` inside the flow body changes the instance's context, not the recorded binding - otherwise the next instance starts with its
    predecessor's locals."""
    sm = ctx.tree.ast(SM)
    writes = []
    for fn in functions(sm):
        for n in walk_no_nested(fn):
            tgt = None
            if isinstance(n, (ast.Assign, ast.AugAssign)):
                for t in (n.targets if isinstance(n, ast.Assign) else [n.target]):
                    if isinstance(t, ast.Subscript) and isinstance(t.value, ast.Attribute) and t.value.attr == "arguments":
                        tgt = t.value
                    elif isinstance(t, ast.Attribute) and t.attr == "arguments":
                        tgt = t
            elif isinstance(n, ast.Delete):
                for t in n.targets:
                    if isinstance(t, ast.Subscript) and isinstance(t.value, ast.Attribute) and t.value.attr == "arguments":
                        tgt = t.value
            elif isinstance(n, ast.Call) and isinstance(n.func, ast.Attribute) and n.func.attr in ("update", "pop", "clear", "setdefault", "popitem") \
                    and isinstance(n.func.value, ast.Attribute) and n.func.value.attr == "arguments":
                tgt = n.func.value
            if tgt is None:
                continue
            owner = src(tgt.value)
            # events carry `arguments` too; this rule is about flow instances
            if re.search(r"event|spec\b|\.spec|action", owner):
                continue
            writes.append((fn, n, owner))
    def fresh(fn, owner):
        # the instance is created in this very function: writing its arguments IS the binding step
        return any(isinstance(a, ast.Assign) and any(isinstance(t, ast.Name) and t.id == owner for t in a.targets) and isinstance(a.value, ast.Call)
                   and src(a.value.func) in ("FlowState", "create_flow_instance") for a in walk_no_nested(fn))
    binders = [w for w in writes if fresh(w[0], w[2])]
    ctx.floor("C08.a.arguments-bound-once", SM, "binding stores on a freshly created instance", len(binders), 2)
    for fn, n, owner in writes:
        ok = fresh(fn, owner)
        ctx.check("C08.a.arguments-bound-once", SM, qualname(fn), first_line(n, 70), ok,
                  "the recorded binding is written by the function that creates the instance" if ok else
                  "`%s` changes the recorded arguments of an existing instance outside the binding step: start_event() copies FlowState.arguments into the StartFlow event that restarts an "
                  "activated flow, so a local assignment in one instance becomes the argument of the next" % first_line(n, 60), line=n.lineno)


def b_return_presence(ctx):
    """`return <expr>`: the interpreter decides whether there IS an expression by testing the stored field.  The parser stores source text, so the test must be about
    presence (`is not None`) or the stored value must always be text: a pre-evaluated `0` / `False` would be skipped by a truthiness test and the caller receives None."""
    tr = ctx.tree.ast(TR)
    rs = None
    for f in functions(tr):
        if f.name == "_return_stmt":
            rs = f
    sm = ctx.tree.ast(SM)
    sl = find_function(sm, "slide")
    if rs is None or sl is None:
        raise AnalysisError("_return_stmt / slide not found", anchor=TR + "::_return_stmt")
    cons = [c for c in walk_no_nested(rs) if isinstance(c, ast.Call) and src(c.func) == "Return"]
    ctx.floor("C08.b.return-presence", TR, "Return(...) constructions in _return_stmt", len(cons), 1)
    # how the consumer tests for presence
    tests = []
    for n in ast.walk(sl):
        if isinstance(n, ast.If) and isinstance(n.test, ast.Attribute) and n.test.attr == "expression" and any(
                isinstance(p, ast.If) and "Return" in src(p.test) for p in _anc(n, sl)):
            tests.append(n)
    truthiness = bool(tests)
    from ..source import inline_temporaries
    for c in cons:
        kw = [k.value for k in c.keywords if k.arg == "expression"]
        if not kw:
            continue
        v = inline_temporaries(kw[0], rs, c.lineno) if isinstance(kw[0], ast.Name) else kw[0]
        # text: a constant string, or a (nested) subscript of the parse tree children; anything that went through an evaluator/conversion is not text
        defs = [v]
        if isinstance(kw[0], ast.Name):
            defs = [a.value for a in walk_no_nested(rs) if isinstance(a, ast.Assign) and any(isinstance(t, ast.Name) and t.id == kw[0].id for t in a.targets)]
        def is_text(e):
            if isinstance(e, ast.Constant):
                return e.value is None or isinstance(e.value, str)
            if isinstance(e, ast.Subscript):
                return True
            if isinstance(e, ast.Call) and isinstance(e.func, ast.Attribute) and e.func.attr in ("strip", "lstrip", "rstrip", "join", "format", "replace"):
                return True
            if isinstance(e, ast.Call) and src(e.func) == "str":
                return True
            if isinstance(e, ast.JoinedStr):
                return True
            return False
        text = all(is_text(d) for d in defs)
        ok = text or not truthiness
        ctx.check("C08.b.return-presence", TR, qualname(rs), first_line(c, 60), ok,
                  "the stored return expression is always source text (or None), so the interpreter's presence test cannot skip a value" if ok else
                  "the stored return expression can be a pre-evaluated value (%s) while slide() tests `if element.expression:` - `return 0` / `return False` are skipped and the "
                  "caller receives None" % ", ".join(first_line(d, 40) for d in defs if not is_text(d)), line=c.lineno)
