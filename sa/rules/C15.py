"""C15 - Conversations served by one LLMRails instance do not influence each other."""
import ast
import re

from ..pycalls import CallGraph
from ..pycfg import CFG, walk_no_nested
from ..source import atoms, atom_key, truth, side, AnalysisError, find_function, find_class, first_line, src, functions, qualname, enclosing_function

UTILS = "nemoguardrails/rails/llm/utils.py"
LLMRAILS = "nemoguardrails/rails/llm/llmrails.py"
PARAMS = "nemoguardrails/llm/params.py"
CONTEXT = "nemoguardrails/context.py"
OUT_OF_SCOPE = ("nemoguardrails/eval/", "nemoguardrails/evaluate/")  # offline evaluation tools, not the serving path
SELF_STORE_ALLOW = {
    "explain_info": "documented as a convenience reference, last writer wins; the per-request object travels in explain_info_var",
    "events_history_cache": "the cross-turn event cache (its key discipline is C15.a)",
}


def run(ctx):
    ctx.explanation = ("C15: cache-key faithfulness (injectivity + agreement with the message->event converter), await-freedom of the mutate/restore "
                       "regions of the shared LLM object, restore = inverse of set in LLMParams, and request-scoped data travelling in context variables only.")
    ctx.decided = ["a: the history cache key is an injective encoding of the (role, payload) sequence and covers exactly what the converter consumes",
                   "b: no await inside a `with llm_params(shared llm, ...)` region on the serving path; the manager is only used through `with`",
                   "c: __exit__ restores what __enter__ changed, and removes what __enter__ added",
                   "d: during a request, instance attributes are written only per allow-list; request data is published through ContextVar.set"]
    ctx.not_decided = ["replies under actual interleavings", "behaviour of third-party LLM objects"]
    a_cache_key(ctx)
    b_regions(ctx)
    c_restore(ctx)
    d_contextvars(ctx)
    d_entry_points(ctx)
    d_shared_action_state(ctx)


def _roles_of_test(test):
    """The roles for which a test is true, when the test is a disjunction of `<msg>["role"] == "<role>"` / `<msg>["role"] in (<roles>)` (either operand order); else None."""
    if isinstance(test, ast.BoolOp) and isinstance(test.op, ast.Or):
        out = []
        for v in test.values:
            r = _roles_of_test(v)
            if r is None:
                return None
            out += r
        return out
    if isinstance(test, ast.Compare) and len(test.ops) == 1:
        l, r = test.left, test.comparators[0]
        def is_role(e):
            return (isinstance(e, ast.Subscript) and isinstance(e.slice, ast.Constant) and e.slice.value == "role") or \
                (isinstance(e, ast.Call) and isinstance(e.func, ast.Attribute) and e.func.attr == "get" and e.args and isinstance(e.args[0], ast.Constant) and e.args[0].value == "role")
        if isinstance(test.ops[0], ast.Eq):
            if is_role(l) and isinstance(r, ast.Constant):
                return [r.value]
            if is_role(r) and isinstance(l, ast.Constant):
                return [l.value]
        if isinstance(test.ops[0], ast.In) and is_role(l) and isinstance(r, (ast.Tuple, ast.List, ast.Set)) and all(isinstance(e, ast.Constant) for e in r.elts):
            return [e.value for e in r.elts]
    return None


def _role_branches(fn, msgvar=None):
    """{role: [If nodes whose body runs for that role]}"""
    out = {}
    for n in ast.walk(fn):
        if isinstance(n, ast.If):
            for role in _roles_of_test(n.test) or []:
                out.setdefault(role, []).append(n)
    return out


def a_cache_key(ctx):
    t = ctx.tree.ast(UTILS)
    fn = find_function(t, "get_history_cache_key")
    if fn is None:
        raise AnalysisError("get_history_cache_key not found", anchor=UTILS + "::get_history_cache_key")
    joins = [c for c in ast.walk(fn) if isinstance(c, ast.Call) and isinstance(c.func, ast.Attribute) and c.func.attr == "join" and isinstance(c.func.value, ast.Constant)]
    dumps_all = [c for c in ast.walk(fn) if isinstance(c, ast.Call) and src(c.func) == "json.dumps" and c.args
                 and isinstance(c.args[0], (ast.ListComp, ast.List, ast.Name)) and ("role" in src(c.args[0]) or isinstance(c.args[0], ast.Name)) and not joins]
    br = _role_branches(fn)
    appended = {}
    for role, ifs in br.items():
        for i in ifs:
            for s in i.body:
                for c in ast.walk(s):
                    if isinstance(c, ast.Call) and isinstance(c.func, ast.Attribute) and c.func.attr == "append" and c.args:
                        appended.setdefault(role, []).append(c.args[0])
    if joins:
        j = joins[0]
        raw_roles = sorted(r for r, exprs in appended.items() for e in exprs if isinstance(e, ast.Subscript))
        tagged = all(any(isinstance(k, ast.Constant) and k.value == r for k in ast.walk(e)) or "role" in src(e) for r, exprs in appended.items() for e in exprs)
        ok = not raw_roles and tagged
        ctx.check("C15.a.injective", UTILS, fn.name, src(j), ok,
                  "the key is an injective encoding of the (role, payload) sequence" if ok else
                  "the key is `%s` over parts appended raw for roles %s with no role tag and no escaping: different conversations share a key "
                  "(e.g. [user 'a:b'] and [user 'a', assistant 'b']), so one conversation is continued with the cached events of another" % (src(j), raw_roles),
                  line=j.lineno)
    elif dumps_all:
        ctx.check("C15.a.injective", UTILS, fn.name, "structured dump", True, "the key is a structured dump of the message sequence")
        # a dump of the whole messages covers every field of every role
        for role in ("user", "assistant", "context", "event"):
            appended.setdefault(role, [ast.parse("msg['content']", mode="eval").body, ast.parse("msg['event']", mode="eval").body])
    else:
        ctx.check("C15.a.injective", UTILS, fn.name, "key construction", False, "unrecognised key construction (neither a join of parts nor a structured dump)", line=fn.lineno)
    # agreement with the converter: every field of a message that becomes an event is part of the key, in full
    tr = ctx.tree.ast(LLMRAILS)
    conv = find_function(tr, "_get_events_for_messages")
    if conv is None:
        raise AnalysisError("_get_events_for_messages not found", anchor=LLMRAILS + "::_get_events_for_messages")
    # Colang 1.0 part = the branch that uses the cache
    v1 = None
    for n in ast.walk(conv):
        if isinstance(n, ast.If) and "colang_version" in src(n.test) and "1.0" in src(n.test):
            v1 = n
    if v1 is None:
        raise AnalysisError("Colang 1.0 branch of _get_events_for_messages not found", anchor=LLMRAILS + "::_get_events_for_messages::1.0")
    cbr = {}
    for s in v1.body:
        for role, ifs in _role_branches(s).items():
            cbr.setdefault(role, []).extend(ifs)
    ctx.floor("C15.a.covers-converter", LLMRAILS, "message roles converted to events", len(cbr), 4, sorted(cbr))
    for role, ifs in sorted(cbr.items()):
        fields = set()
        for i in ifs:
            for s in i.body:
                for x in ast.walk(s):
                    if isinstance(x, ast.Subscript) and isinstance(x.value, ast.Name) and x.value.id == "msg" and isinstance(x.slice, ast.Constant):
                        fields.add(x.slice.value)
        keyed = set()
        full = True
        for e in appended.get(role, []):
            inner = e
            if isinstance(e, ast.Call) and src(e.func) in ("json.dumps", "str", "repr") and e.args:
                inner = e.args[0]
            if isinstance(inner, ast.Subscript) and isinstance(inner.slice, ast.Constant) and isinstance(inner.value, ast.Name):
                keyed.add(inner.slice.value)
            else:
                full = False
        ok = role in appended and fields <= keyed and full
        ctx.check("C15.a.covers-converter", UTILS, fn.name, "role %s" % role, ok,
                  "messages of role '%s' enter the events through msg[%s]; the key contains exactly these fields in full (%s)" % (role, sorted(fields), sorted(keyed)) if ok else
                  "messages of role '%s' contribute msg[%s] to the events but the key covers %s%s: two histories that differ only there (e.g. other generation options in the "
                  "context message) hit the same cache entry and the cached events of the other are used" % (role, sorted(fields), sorted(keyed), "" if full else " (filtered/partial)"),
                  line=fn.lineno)
    # cached event lists are shared between conversations with a common prefix: every read must copy
    reads = []
    for n in ast.walk(tr):
        if isinstance(n, ast.Subscript) and isinstance(n.ctx, ast.Load) and src(n.value) == "self.events_history_cache":
            reads.append(n)
        if isinstance(n, ast.Call) and isinstance(n.func, ast.Attribute) and n.func.attr in ("get", "pop", "setdefault") and src(n.func.value) == "self.events_history_cache":
            reads.append(n)
    ctx.floor("C15.a.cache-copy", LLMRAILS, "reads of cached event lists", len(reads), 1)
    for r in reads:
        par = getattr(r, "_parent", None)
        copied = (isinstance(par, ast.Attribute) and par.attr == "copy" and isinstance(getattr(par, "_parent", None), ast.Call)) or \
                 (isinstance(par, ast.Call) and src(par.func) in ("list", "copy.copy", "copy.deepcopy", "deepcopy"))
        ctx.check("C15.a.cache-copy", LLMRAILS, qualname(enclosing_function(r)), first_line(par if par is not None else r), copied,
                  "the cached event list is copied before use" if copied else
                  "the cached event list is used without a copy: generate_async extends it in place, so the entry stored for a shared prefix picks up this conversation's later turns and another conversation continues from them",
                  line=r.lineno)
    # nothing is ever REMOVED from the cache: the earlier turns of a conversation (context variables set by rails, the flow state) exist only there; an eviction policy makes
    # the reply to a conversation depend on how many OTHER conversations were served in between
    evict = [n for n in ast.walk(tr) if (isinstance(n, ast.Delete) and any("events_history_cache" in src(t_) for t_ in n.targets)) or
             (isinstance(n, ast.Call) and isinstance(n.func, ast.Attribute) and n.func.attr in ("pop", "popitem", "clear") and "events_history_cache" in src(n.func.value))]
    rebinds = [n for n in ast.walk(tr) if isinstance(n, ast.Assign) and any(src(t_) == "self.events_history_cache" for t_ in n.targets)
               and (enclosing_function(n) is None or enclosing_function(n).name != "__init__")]
    ctx.check("C15.a.cache-no-eviction", LLMRAILS, "LLMRails", "entries of events_history_cache are never removed", not evict and not rebinds,
              "no statement deletes from or replaces the events history cache" if not evict and not rebinds else
              "`%s` removes entries from the events history cache: a conversation whose entry was evicted is rebuilt from the bare messages - context variables and flow state of its "
              "earlier turns are gone, so its reply depends on how many other conversations the instance served in between" % first_line((evict + rebinds)[0], 70),
              line=((evict + rebinds)[0].lineno if evict or rebinds else 1))
    # the cache is only written with a key computed by the same function over the same messages
    gen = find_function(tr, "generate_async")
    stores = [n for n in ast.walk(tr) if isinstance(n, ast.Assign) and isinstance(n.targets[0], ast.Subscript) and src(n.targets[0].value) == "self.events_history_cache"]
    ctx.floor("C15.a.cache-writer", LLMRAILS, "stores into events_history_cache", len(stores), 1)
    for s in stores:
        f = enclosing_function(s)
        k = src(s.targets[0].slice)
        defs = [a for a in walk_no_nested(f) if isinstance(a, ast.Assign) and isinstance(a.targets[0], ast.Name) and a.targets[0].id == k]
        ok = bool(defs) and all(isinstance(d.value, ast.Call) and src(d.value.func) == "get_history_cache_key" for d in defs)
        ctx.check("C15.a.cache-writer", LLMRAILS, qualname(f), first_line(s), ok, "cache entries are stored under get_history_cache_key(<messages of this conversation>)", line=s.lineno)


def b_regions(ctx):
    sites = []
    manual = []
    for rel in ctx.tree.glob("nemoguardrails", (".py",), exclude=OUT_OF_SCOPE):
        text = ctx.tree.text(rel)
        if "llm_params" not in text:
            continue
        t = ctx.tree.ast(rel)
        per_fn = {}
        for n in ast.walk(t):
            if isinstance(n, (ast.With, ast.AsyncWith)):
                for it in n.items:
                    ce = it.context_expr
                    if isinstance(ce, ast.Call) and src(ce.func).split(".")[-1] == "llm_params":
                        fn = enclosing_function(n)
                        q = qualname(fn) if fn else "<module>"
                        per_fn.setdefault(q, []).append(n)
            if isinstance(n, ast.Call) and src(n.func).split(".")[-1] == "llm_params" and rel != PARAMS:
                par = getattr(n, "_parent", None)
                if not isinstance(par, ast.withitem):
                    manual.append((rel, n))
        for q, ws in per_fn.items():
            ws.sort(key=lambda w: w.lineno)
            for i, w in enumerate(ws):
                sites.append((rel, q, i + 1, w))
    ctx.floor("C15.b.no-await-in-region", "nemoguardrails", "`with llm_params(...)` regions on the serving path", len(sites), 28)
    for rel, q, ordn, w in sites:
        awaits = [x for s in w.body for x in walk_no_nested(s) if isinstance(x, (ast.Await, ast.AsyncFor, ast.AsyncWith, ast.Yield))]
        llm_expr = src(w.items[0].context_expr.args[0]) if w.items[0].context_expr.args else "?"
        ctx.check("C15.b.no-await-in-region", rel, q, "with llm_params #%d" % ordn, not awaits,
                  "the region that mutates and restores the shared LLM object `%s` contains no task switch" % llm_expr if not awaits else
                  "the region that mutates the shared LLM object `%s` contains `%s`: a concurrent request on the same LLMRails instance runs its LLM call with this "
                  "request's parameters, and the interleaved restores leave a non-configured value behind" % (llm_expr, first_line(awaits[0], 50)), line=w.lineno)
    for rel, n in manual:
        ctx.check("C15.b.with-only", rel, qualname(enclosing_function(n)) if enclosing_function(n) else "<module>", first_line(n), False,
                  "llm_params(...) is used outside a `with` statement: its restore is not exception-safe", line=n.lineno)
    ctx.check("C15.b.with-only", "nemoguardrails", "*", "manager only through with", not manual, "the parameter manager is only ever used as a `with` item (%d sites)" % len(sites))


def c_restore(ctx):
    t = ctx.tree.ast(PARAMS)
    cls = find_class(t, "LLMParams")
    if cls is None:
        raise AnalysisError("LLMParams not found", anchor=PARAMS + "::LLMParams")
    enter = [f for f in cls.body if isinstance(f, ast.FunctionDef) and f.name == "__enter__"]
    exit_ = [f for f in cls.body if isinstance(f, ast.FunctionDef) and f.name == "__exit__"]
    if not enter or not exit_:
        raise AnalysisError("LLMParams.__enter__/__exit__ not found", anchor=PARAMS + "::LLMParams.__enter__")
    enter, exit_ = enter[0], exit_[0]
    enter0 = enter
    # the loop that alters the parameters may live in a method that __enter__ calls on self (so that __enter__ can undo a half-done alteration)
    if not any(isinstance(l, ast.For) and "altered_params" in src(l.iter) for l in ast.walk(enter)):
        called = {c.func.attr for c in ast.walk(enter) if isinstance(c, ast.Call) and isinstance(c.func, ast.Attribute) and src(c.func.value) == "self"}
        for f in cls.body:
            if isinstance(f, ast.FunctionDef) and f.name in called and any(isinstance(l, ast.For) and "altered_params" in src(l.iter) for l in ast.walk(f)):
                enter = f
    es, xs = src(enter), src(exit_)
    # altering can fail half way (setattr on a pydantic model raises for a name that is not a field): the `with` body is then never entered and __exit__ never runs, so
    # __enter__ itself has to put back what it has already changed (F135)
    rollback = False
    for tr_ in [x for x in ast.walk(enter0) if isinstance(x, ast.Try)]:
        alters = any(isinstance(c, ast.Call) and (src(c.func) == "setattr" or (isinstance(c.func, ast.Attribute) and src(c.func.value) == "self" and c.func.attr == enter.name))
                     for st in tr_.body for c in ast.walk(st))
        for h in tr_.handlers:
            restores = any(isinstance(c, ast.Call) and (src(c.func) in ("self.__exit__",) or "restore" in src(c.func)) for st in h.body for c in ast.walk(st)) or \
                any(isinstance(l, ast.For) and "original_params" in src(l.iter) for st in h.body for l in ast.walk(st))
            reraises = any(isinstance(r, ast.Raise) for st in h.body for r in ast.walk(st))
            if alters and restores and reraises and (h.type is None or src(h.type) in ("Exception", "BaseException")):
                rollback = True
    ctx.check("C15.c.enter-rollback", PARAMS, "LLMParams.__enter__", "a failing alteration is undone", rollback,
              "when altering a parameter raises, the parameters altered so far are restored before the error is passed on" if rollback else
              "the parameters are altered one by one with no rollback: if one `setattr` raises (e.g. `stream`, which every LangChain model has as a method but not as a field) the "
              "`with` body is not entered, __exit__ never runs, and the parameters already applied - temperature, max_tokens of THIS request - stay on the shared model for every "
              "later conversation", line=enter0.lineno)

    def _loop_vars(fn, coll):
        for l in ast.walk(fn):
            if isinstance(l, ast.For) and coll in src(l.iter) and isinstance(l.target, ast.Tuple) and len(l.target.elts) == 2 and all(isinstance(x, ast.Name) for x in l.target.elts):
                return l, l.target.elts[0].id, l.target.elts[1].id
        return None, None, None
    l_in, P, V = _loop_vars(enter, "altered_params")
    l_out, P2, V2 = _loop_vars(exit_, "original_params.items()")
    if l_in is None or l_out is None:
        raise AnalysisError("LLMParams: loops over altered_params / original_params not recognised", anchor=PARAMS + "::LLMParams.__enter__")
    # the record of the original values must be the one __exit__ (and the rollback) reads, AT THE TIME an alteration fails: every save goes into that container itself
    # (or into a local bound to the same object before the loop) - a local dict that is published after the loop leaves the rollback with nothing to restore
    E_out = re.sub(r"\.items\(\)$", "", src(l_out.iter))
    saves_ = [a for a in ast.walk(l_in) if isinstance(a, ast.Assign) and isinstance(a.targets[0], ast.Subscript) and "original" in src(a.targets[0].value)]
    ctx.floor("C15.c.saves-visible", PARAMS, "stores of an original value in the altering loop", len(saves_), 2)
    for a in saves_:
        base = src(a.targets[0].value)
        okv = base == E_out
        if not okv:
            for b in ast.walk(enter):
                if isinstance(b, ast.Assign) and b.lineno < l_in.lineno:
                    names = [src(t_) for t_ in b.targets] + [src(b.value)]
                    if base in names and E_out in names:
                        okv = True
        ctx.check("C15.c.saves-visible", PARAMS, "LLMParams." + enter.name, "%s = ..." % first_line(a.targets[0], 50), okv,
                  "the original value is recorded in `%s`, which __exit__ and the rollback read" % E_out if okv else
                  "the original value is recorded in the local `%s`; `%s` gets it only after ALL parameters were altered: when a later alteration raises, the rollback "
                  "(and __exit__) see an empty record and the parameters already applied stay on the shared LLM" % (base, E_out), line=a.lineno)
    # branch 1: attribute of the llm
    set1 = any(isinstance(c, ast.Call) and src(c.func) == "setattr" and src(c.args[0]) == "self.llm" for c in ast.walk(enter))
    save1 = any(isinstance(a, ast.Assign) and "original_params" in src(a.targets[0]) and src(a.value).startswith("getattr(self.llm") for a in ast.walk(enter))
    # the save must precede the set in the same block
    order1 = False
    for i_ in [n for n in ast.walk(enter) if isinstance(n, ast.If) and re.sub(r"\s", "", src(n.test)) == "hasattr(self.llm,%s)" % P]:
        kinds = ["save" if (isinstance(s_, ast.Assign) and "original_params" in src(s_.targets[0])) else ("set" if "setattr(self.llm" in src(s_) else None) for s_ in i_.body]
        kinds = [k for k in kinds if k]
        order1 = kinds == ["save", "set"]
    back1 = any(isinstance(n, ast.If) and re.sub(r"\s", "", src(n.test)) == "hasattr(self.llm,%s)" % P2 and
                any(re.sub(r"\s", "", src(s_)) == "setattr(self.llm,%s,%s)" % (P2, V2) for s_ in n.body) for n in ast.walk(exit_))
    loop = True
    ctx.check("C15.c.restore-attr", PARAMS, "LLMParams", "attribute branch", set1 and save1 and order1 and back1 and loop,
              "attribute parameters: __enter__ saves getattr(llm, param) before setattr; __exit__ writes every saved value back under the same hasattr test", line=enter.lineno)
    # the restore of an attribute parameter may depend only on `hasattr(self.llm, param)`: no early continue/break, no test of the saved value
    for lp in [n for n in ast.walk(exit_) if isinstance(n, ast.For) and "original_params.items()" in src(n.iter)]:
        vv = lp.target.elts[1].id if isinstance(lp.target, ast.Tuple) and len(lp.target.elts) == 2 and isinstance(lp.target.elts[1], ast.Name) else None
        skips = [x for x in ast.walk(lp) if isinstance(x, (ast.Continue, ast.Break, ast.Return))]
        sets = [c for c in ast.walk(lp) if isinstance(c, ast.Call) and src(c.func) == "setattr" and len(c.args) == 3 and src(c.args[0]) == "self.llm" and src(c.args[2]) == (vv or "value")
                and "model_kwargs" not in src(c.args[1])]
        cond_on_value = []
        for c in sets:
            p_ = getattr(c, "_parent", None)
            while p_ is not None and p_ is not lp:
                if isinstance(p_, ast.If) and vv and any(isinstance(x, ast.Name) and x.id == vv for x in ast.walk(p_.test)):
                    cond_on_value.append(p_)
                p_ = getattr(p_, "_parent", None)
        ok = bool(sets) and not skips and not cond_on_value
        ctx.check("C15.c.restore-unconditional", PARAMS, "LLMParams.__exit__", "for %s in self.original_params.items()" % src(lp.target), ok,
                  "every saved attribute value is written back; the restore depends on nothing but hasattr(self.llm, param)" if ok else
                  "the restore of a saved attribute can be skipped (%s): an attribute whose configured value is None (e.g. max_tokens) keeps the per-request override for all later requests"
                  % ("early `%s` in the loop" % type(skips[0]).__name__.lower() if skips else "it is conditional on the saved value"), line=lp.lineno)
    # branch 2: model_kwargs
    # the branch of __enter__ that ADDS a key that was not in model_kwargs before (either polarity of the membership test)
    adds = [n for n in ast.walk(enter) if isinstance(n, ast.If) and any(
        isinstance(a_, ast.Compare) and len(a_.ops) == 1 and isinstance(a_.ops[0], (ast.In, ast.NotIn)) and src(a_.left) == P and "model_kwargs" in src(a_.comparators[0])
        for a_ in atoms(n.test))]
    sets2 = any(isinstance(a, ast.Assign) and re.search(r"model_kwargs\[\s*%s\s*\]" % re.escape(P), src(a.targets[0])) for a in ast.walk(enter))
    if sets2:
        back2 = any(isinstance(a, ast.Assign) and re.search(r"model_kwargs\[\s*%s\s*\]$" % re.escape(P2), src(a.targets[0])) and src(a.value) == V2 for a in ast.walk(exit_))
        ctx.check("C15.c.restore-kwargs", PARAMS, "LLMParams", "model_kwargs branch", back2, "model_kwargs parameters that existed before are written back by __exit__", line=exit_.lineno)
        if adds:
            removes = [n for n in ast.walk(exit_) if (isinstance(n, ast.Delete) and "model_kwargs" in src(n)) or
                       (isinstance(n, ast.Call) and isinstance(n.func, ast.Attribute) and n.func.attr == "pop" and "model_kwargs" in src(n.func.value))]
            ctx.check("C15.c.remove-added", PARAMS, "LLMParams", "key added by __enter__", bool(removes),
                      "a model_kwargs key that __enter__ ADDED is removed by __exit__" if removes else
                      "__enter__ adds a key that was absent from model_kwargs (saving None) and __exit__ writes None back instead of deleting it: after the request "
                      "the shared LLM has `{param: None}` instead of its configured parameters", line=adds[0].lineno)


def d_contextvars(ctx):
    t = ctx.tree.ast(CONTEXT)
    cvars = [s.targets[0].id for s in t.body if isinstance(s, ast.Assign) and isinstance(s.value, ast.Call) and src(s.value.func).endswith("ContextVar")]
    ctx.floor("C15.d.contextvars", CONTEXT, "context variables", len(cvars), 6, cvars)
    tr = ctx.tree.ast(LLMRAILS)
    cls = find_class(tr, "LLMRails")
    gen = find_function(tr, "generate_async", "LLMRails")
    if gen is None:
        raise AnalysisError("LLMRails.generate_async not found", anchor=LLMRAILS + "::generate_async")
    cg = CallGraph(ctx.tree, [LLMRAILS])
    reach = cg.reach(LLMRAILS, gen, stop=lambda r, q: r != LLMRAILS)
    methods = [(q, f) for (r, q), f in reach.items() if r == LLMRAILS and q.startswith("LLMRails.") and q != "LLMRails.__init__"]
    ctx.stat("request_path_methods", sorted(q for q, _ in methods))
    sets = [c for c in walk_no_nested(gen) if isinstance(c, ast.Call) and isinstance(c.func, ast.Attribute) and c.func.attr == "set"
            and isinstance(c.func.value, ast.Name) and c.func.value.id in cvars]
    published = {c.func.value.id for c in sets}
    need = {"generation_options_var", "streaming_handler_var", "llm_stats_var", "raw_llm_request", "explain_info_var"}
    # values that EVERY request defines must be (re)set on every path before the runtime runs: a conditional
    # set leaves the previous request's value in the context of a task that serves requests sequentially
    cfg = CFG(gen)
    runs = [n for n in cfg.nodes if n.ast is not None and any(isinstance(c, ast.Call) and src(c.func) in ("self.runtime.generate_events", "self.runtime.process_events")
                                                                for c in walk_no_nested(n.ast))]
    for var in ("generation_options_var", "llm_stats_var", "raw_llm_request", "streaming_handler_var"):
        snodes = [cfg.node_of(c) for c in sets if c.func.value.id == var]
        ok = bool(snodes) and bool(runs) and all(cfg.must_pass(cfg.entry, r, snodes) for r in runs)
        ctx.check("C15.d.reset-every-request", LLMRAILS, "LLMRails.generate_async", "%s.set on every path" % var, ok,
                  "`%s` is set on every path before the runtime processes the request" % var if ok else
                  "`%s.set(...)` is conditional: a request for which the condition is false runs with the value left by the previous request served in the same task (e.g. its llm_params or rails selection)" % var,
                  line=gen.lineno)
    ctx.check("C15.d.contextvars", LLMRAILS, "LLMRails.generate_async", "request data published via ContextVar.set", need <= published,
              "options, streaming handler, LLM stats, raw request and explain info are published through context variables (%s)" % sorted(published), line=gen.lineno)
    for q, f in methods:
        for n in walk_no_nested(f):
            tgts = []
            if isinstance(n, ast.Assign):
                tgts = n.targets
            elif isinstance(n, (ast.AugAssign, ast.AnnAssign)):
                tgts = [n.target]
            for tg in tgts:
                base = tg
                while isinstance(base, ast.Subscript):
                    base = base.value
                if isinstance(base, ast.Attribute) and isinstance(base.value, ast.Name) and base.value.id == "self":
                    ok = base.attr in SELF_STORE_ALLOW
                    ctx.check("C15.d.self-stores", LLMRAILS, q, first_line(n), ok,
                              ("allowed instance store: " + SELF_STORE_ALLOW[base.attr]) if ok else
                              "request-time store to `self.%s`: request-scoped data on the shared LLMRails instance is visible to concurrent conversations" % base.attr,
                              line=n.lineno)


GEN_MODULES = ["nemoguardrails/actions/llm/generation.py", "nemoguardrails/actions/v2_x/generation.py"]


def d_entry_points(ctx):
    """generate_async publishes the raw request and the generation options in context variables that the generation actions READ.  The event-based entry points
    (generate_events_async, process_events_async) run the same actions; a task that serves conversations one after the other keeps its context, so each of these entry points
    must (re)set every such variable - otherwise conversation 2 is prompted with conversation 1's messages and llm_params."""
    tr = ctx.tree.ast(LLMRAILS)
    t = ctx.tree.ast(CONTEXT)
    cvars = [s_.targets[0].id for s_ in t.body if isinstance(s_, ast.Assign) and isinstance(s_.value, ast.Call) and src(s_.value.func).endswith("ContextVar")]
    gen = find_function(tr, "generate_async", "LLMRails")
    set_by_generate = {c.func.value.id for c in walk_no_nested(gen) if isinstance(c, ast.Call) and isinstance(c.func, ast.Attribute) and c.func.attr == "set"
                       and isinstance(c.func.value, ast.Name) and c.func.value.id in cvars}
    read_by_actions = set()
    for rel in GEN_MODULES:
        for c in ast.walk(ctx.tree.ast(rel)):
            if isinstance(c, ast.Call) and isinstance(c.func, ast.Attribute) and c.func.attr == "get" and isinstance(c.func.value, ast.Name) and c.func.value.id in cvars:
                read_by_actions.add(c.func.value.id)
    # variables whose value belongs to ONE request (not the statistics object an entry point may legitimately inherit from its caller): the raw request, the options, and the
    # streaming handler the actions push the reply into - a handler left by an earlier streamed request receives this conversation's reply
    data_vars = sorted(v for v in set_by_generate & read_by_actions if v in ("raw_llm_request", "generation_options_var", "streaming_handler_var"))
    ctx.floor("C15.d.entry-points", LLMRAILS, "request-data context variables read by the generation actions", len(data_vars), 3, data_vars)
    cls = find_class(tr, "LLMRails")
    n = 0
    for f in [m for m in cls.body if isinstance(m, ast.AsyncFunctionDef) and m.name != "generate_async"]:
        if not any(isinstance(c, ast.Call) and src(c.func) in ("self.runtime.generate_events", "self.runtime.process_events") for c in walk_no_nested(f)):
            continue
        n += 1
        sets = {c.func.value.id for c in walk_no_nested(f) if isinstance(c, ast.Call) and isinstance(c.func, ast.Attribute) and c.func.attr == "set" and isinstance(c.func.value, ast.Name)}
        missing = [v for v in data_vars if v not in sets]
        ctx.check("C15.d.entry-points", LLMRAILS, "LLMRails." + f.name, "request-data context variables (re)set", not missing,
                  "the entry point sets %s before it runs the runtime" % data_vars if not missing else
                  "`%s` runs the generation actions without setting %s: called after generate_async in the same task (a worker serving conversations one after the other) it processes this "
                  "conversation with the previous conversation's raw request (passthrough prompt) and llm_params" % (f.name, missing), line=f.lineno)
    ctx.floor("C15.d.entry-points", LLMRAILS, "event-based entry points that run the runtime", n, 2)


def d_shared_action_state(ctx):
    """The generation action classes are instantiated once per LLMRails and serve every conversation.  A method that runs per request (an @action) must not keep
    conversation data in `self.<attr>`: the next conversation reads it."""
    def stores(tree):
        out = []
        for cls in [n_ for n_ in tree.body if isinstance(n_, ast.ClassDef)]:
            for fn in [m for m in cls.body if isinstance(m, (ast.FunctionDef, ast.AsyncFunctionDef))]:
                if not any(src(d).startswith("action") for d in fn.decorator_list):
                    continue
                for n_ in walk_no_nested(fn):
                    tg = n_.targets if isinstance(n_, ast.Assign) else [n_.target] if isinstance(n_, (ast.AugAssign, ast.AnnAssign)) else []
                    for x in tg:
                        b = x
                        while isinstance(b, ast.Subscript):
                            b = b.value
                        if isinstance(b, ast.Attribute) and isinstance(b.value, ast.Name) and b.value.id == "self":
                            out.append((cls.name, fn.name, n_, b.attr))
        return out
    # planted positive example: the detector itself must see a store
    sample = ast.parse("class A:\n    @action(name='X')\n    async def f(self, state):\n        self._last = state.x\n")
    for n_ in ast.walk(sample):
        for ch in ast.iter_child_nodes(n_):
            ch._parent = n_
    if len(stores(sample)) != 1:
        raise AnalysisError("shared-action-state self-test failed", anchor="C15.d/self-test")
    n_actions = 0
    for rel in GEN_MODULES:
        tree = ctx.tree.ast(rel)
        n_actions += sum(1 for cls in tree.body if isinstance(cls, ast.ClassDef) for fn in cls.body
                         if isinstance(fn, (ast.FunctionDef, ast.AsyncFunctionDef)) and any(src(d).startswith("action") for d in fn.decorator_list))
        found = stores(tree)
        for cname, fname, node, attr in found:
            ctx.check("C15.d.shared-action-state", rel, "%s.%s" % (cname, fname), first_line(node, 60), False,
                      "`self.%s` is written by an action that runs for every conversation, on the one actions object of the LLMRails instance: another conversation reads what this one "
                      "stored (flow generation used the instructions of whichever conversation ran last)" % attr, line=node.lineno)
        ctx.check("C15.d.shared-action-state", rel, "<module>", "instance stores in @action methods", not found,
                  "no @action method stores conversation data on the shared actions object", line=1)
    ctx.floor("C15.d.shared-action-state", GEN_MODULES[0], "@action methods of the generation action classes", n_actions, 15)
