"""C17 - Arbitrary LLM output never breaks a turn and is treated as data."""
import ast
import re

from ..pycalls import CallGraph
from ..pycfg import CFG, walk_no_nested, contained, handler_reraises, enclosing_trys, broad_handler
from ..pyflow import Taint
from ..source import AnalysisError, find_function, first_line, src, functions, qualname, enclosing_function
from . import C13

GEN1 = "nemoguardrails/actions/llm/generation.py"
GEN2 = "nemoguardrails/actions/v2_x/generation.py"
UTILS = "nemoguardrails/actions/llm/utils.py"
PARSERS = "nemoguardrails/llm/output_parsers.py"
RT1 = "nemoguardrails/colang/v1_0/runtime/runtime.py"
RT2 = "nemoguardrails/colang/v2_x/runtime/runtime.py"
TAINT_MODULES = [GEN1, GEN2, UTILS, PARSERS]
# evaluators: template / expression / code evaluation
SINKS = {"_render_string", "from_string", "Template", "eval_expression", "eval", "exec", "compile", "literal_eval"}
# literal_eval (data-only evaluation) is permitted for generated *values* only
LITERAL_EVAL_ALLOWED = {(GEN1, "LLMGenerationActions.generate_value"), (GEN2, "LLMGenerationActionsV2dotx.generate_value")}


def run(ctx):
    ctx.explanation = ("C17: forward taint analysis from every LLM completion to template/expression/code evaluators (LLM text is data, never evaluated), "
                       "and containment of every consumer of LLM text: post-processing happens inside @action functions (contained by the dispatcher, C03.a), "
                       "and the consumers outside actions are total.")
    ctx.decided = ["a: no value derived from llm_call(...) / streaming wait*() reaches _render_string, Environment.from_string, Template, eval_expression, eval, exec or compile; literal_eval only in the generate_value actions",
                   "b1: every function that consumes an LLM completion is an @action (so C03.a turns its exceptions into the internal-error reply)",
                   "b2: the v1 runtime parses the LLM-derived dynamic flow inside try/except Exception (with the flow-count check) and falls back",
                   "b3: the v2 AddFlowsAction is registered as an action and its error handler is total"]
    ctx.not_decided = ["that every hostile text yields a well-formed reply beyond the containment argument",
                       "Colang 2 flow generation: LLM text deliberately becomes flow source (AddFlowsAction) - outside clause a, stated as such"]
    a_taint(ctx)
    a_template_source(ctx)
    a_single_resolution(ctx)
    b_containment(ctx)
    b_next_events(ctx)
    b_dynamic_exec(ctx)
    b_generated_value_types(ctx)


def _is_source(c):
    f = src(c.func).split(".")[-1]
    return f == "llm_call" or (f.startswith("wait") and isinstance(c.func, ast.Attribute) and "handler" in src(c.func.value).lower())


def a_taint(ctx):
    n_sources = 0
    n_sinks = 0
    for rel in TAINT_MODULES:
        t = ctx.tree.ast(rel)
        for fn in functions(t):
            calls = [c for c in walk_no_nested(fn) if isinstance(c, ast.Call)]
            srcs = [c for c in calls if _is_source(c)]
            n_sources += len(srcs)
            sinks = [c for c in calls if src(c.func).split(".")[-1] in SINKS]
            if not sinks:
                continue
            cfg = CFG(fn)
            # parameters of helper functions that receive LLM text from their callers are treated as tainted
            params = []
            if not srcs and rel in (UTILS, PARSERS):
                params = [a.arg for a in fn.args.args if a.arg not in ("self", "cls")]
            tn = Taint(cfg, _is_source, tainted_params=params)
            for c in sinks:
                n_sinks += 1
                node = cfg.node_of(c)
                f = src(c.func).split(".")[-1]
                targs = [first_line(a, 40) for a in list(c.args) + [k.value for k in c.keywords] if tn.tainted_at(node, a)]
                q = qualname(fn)
                if f == "literal_eval":
                    ok = (rel, q) in LITERAL_EVAL_ALLOWED
                    ctx.check("C17.a.literal-eval", rel, q, first_line(c), ok,
                              "literal_eval (data-only) is used on generated text only in the generate_value actions" if ok else
                              "literal_eval on LLM text outside the generate_value actions", line=c.lineno)
                    continue
                ctx.check("C17.a.taint", rel, q, first_line(c), not targs,
                          "evaluator `%s` receives no LLM-derived value" % f if not targs else
                          "LLM-derived value(s) %s reach the evaluator `%s`: template/expression syntax produced by the LLM would be evaluated instead of passed through literally" % (targs, f),
                          line=c.lineno)
    ctx.stat("llm_sources", n_sources)
    ctx.stat("evaluator_call_sites", n_sinks)
    ctx.floor("C17.a.taint", GEN1, "LLM completion sources (llm_call / streaming wait)", n_sources, 15)
    ctx.floor("C17.a.taint", GEN1, "evaluator call sites in the generation modules", n_sinks, 5)
    # positive example: the analysis itself must see a planted flow
    sample = ast.parse("async def f(self, llm, p):\n    r = await llm_call(llm, p)\n    t = r.strip().split('\\n')[0]\n    return self._render_string(f'x {t}', {})\n")
    for n in ast.walk(sample):
        for ch in ast.iter_child_nodes(n):
            ch._parent = n
    fn = sample.body[0]
    cfg = CFG(fn)
    tn = Taint(cfg, _is_source)
    c = [x for x in ast.walk(fn) if isinstance(x, ast.Call) and src(x.func).endswith("_render_string")][0]
    if not tn.tainted_at(cfg.node_of(c), c.args[0]):
        raise AnalysisError("taint engine self-test failed", anchor="C17.a/self-test")


def _ancestors(node, stop):
    p = getattr(node, "_parent", None)
    while p is not None and p is not stop:
        yield p
        p = getattr(p, "_parent", None)


def _within(node, root):
    return any(x is node for x in ast.walk(root))


TEMPLATE_MODULES = [GEN1, "nemoguardrails/llm/taskmanager.py"]
DATA_PARAMS = ("context", "events", "kwargs", "inputs")


def a_template_source(ctx):
    """The template SOURCE handed to Jinja comes from configuration (prompt / predefined message); the data of the turn (context variables such as
    $bot_message or $user_message - i.e. LLM and user text) may only enter as render() variables, never spliced into the source."""
    n = 0
    for rel in TEMPLATE_MODULES:
        t = ctx.tree.ast(rel)
        for fn in functions(t):
            sites = [c for c in walk_no_nested(fn) if isinstance(c, ast.Call) and src(c.func).split(".")[-1] in ("from_string", "Template") and c.args]
            if not sites:
                continue
            cfg = CFG(fn)
            params = [a.arg for a in fn.args.args if a.arg in DATA_PARAMS]
            tn = Taint(cfg, lambda c: False, tainted_params=params)
            for c in sites:
                n += 1
                node = cfg.node_of(c)
                bad = tn.tainted_at(node, c.args[0])
                ctx.check("C17.a.template-source", rel, qualname(fn), first_line(c), not bad,
                          "the template source does not depend on the turn's data (%s only enter through render())" % ", ".join(params) if not bad else
                          "values of the turn's data (%s) are spliced into the template source before it is compiled: `{{ }}` / `{%% %%}` inside an LLM- or user-produced "
                          "variable (e.g. $bot_message in a predefined message) is evaluated instead of passed through literally" % ", ".join(params), line=c.lineno)
    ctx.floor("C17.a.template-source", GEN1, "template compilation sites", n, 2)


CORE = "nemoguardrails/actions/core.py"


def a_single_resolution(ctx):
    """`$name` references written by the flow author are resolved exactly once.  The runtime resolves the TOP-LEVEL string parameters of an action,
    and `create_event` resolves the top-level values of its event dict.  If either descended into nested containers, a value that is already the
    result of a resolution (LLM text such as "$100 ...") would be resolved again by the other."""
    def resolver_facts(path, fn):
        """-> list of (store stmt, descends?, why)"""
        out = []
        for n in walk_no_nested(fn):
            if not (isinstance(n, ast.Assign) and isinstance(n.targets[0], ast.Subscript)):
                continue
            v = n.value
            is_lookup = (isinstance(v, ast.Subscript) and src(v.value) == "context") or (isinstance(v, ast.Call) and src(v.func) == "context.get")
            helper = None
            if isinstance(v, ast.Call) and not is_lookup and any(src(a) == "context" for a in v.args):
                helper = src(v.func).split(".")[-1]
            if not is_lookup and helper is None:
                continue
            guards = []
            child = n
            for p in _ancestors(n, fn):
                if isinstance(p, ast.If) and any(child is b or _within(child, b) for b in p.body):
                    guards.append(p)
                child = p
            dollar = any("$" in src(g.test) for g in guards)
            if is_lookup and not dollar:
                continue
            if is_lookup:
                strict = any(re.search(r"isinstance\(\s*\w+\s*,\s*str\s*\)", src(g.test)) for g in guards)
                if isinstance(n.targets[0].value, ast.Subscript):
                    out.append((n, True, "the store `%s` writes below the top level of the parameter dict" % src(n.targets[0])))
                    continue
                out.append((n, not strict, "the replaced value is not required to be a plain string" if not strict else "top-level string values only"))
            else:
                h = find_function(ctx.tree.ast(path), helper) or find_function(ctx.tree.ast(path), helper, None)
                if h is None:
                    for f in functions(ctx.tree.ast(path)):
                        if f.name == helper:
                            h = f
                if h is None:
                    out.append((n, True, "resolution delegated to `%s`, which is not defined in this module" % helper))
                    continue
                txt = src(h)
                has_dollar = "$" in txt and "context" in txt
                recursive = any(isinstance(c, ast.Call) and src(c.func).split(".")[-1] == h.name for c in ast.walk(h))
                traverses = any(isinstance(x, (ast.DictComp, ast.ListComp, ast.For)) for x in ast.walk(h))
                if has_dollar:
                    out.append((n, recursive or traverses, "`%s` %s" % (helper, "descends into dict/list parameters" if (recursive or traverses) else "resolves the string it is given")))
        return out

    total = 0
    for path, fname in ((RT1, "_process_start_action"), (CORE, "create_event")):
        fn = None
        for f in functions(ctx.tree.ast(path)):
            if f.name == fname:
                fn = f
        if fn is None:
            raise AnalysisError("%s not found" % fname, anchor=path + "::" + fname)
        facts = resolver_facts(path, fn)
        total += len(facts)
        for n, descends, why in facts:
            ctx.check("C17.a.single-resolution", path, qualname(fn), first_line(n, 70), not descends,
                      "`$name` resolution here covers %s" % why if not descends else
                      "`$name` resolution here reaches nested values (%s): a value that another resolver (runtime parameters / create_event) has already replaced by LLM text is "
                      "resolved a second time, so message text starting with `$` is evaluated as a variable reference" % why, line=n.lineno)
    ctx.floor("C17.a.single-resolution", RT1, "`$name` resolver stores", total, 2)


def b_containment(ctx):
    # b1: consumers of LLM completions are actions
    n = 0
    for rel in (GEN1, GEN2) + tuple(ctx.tree.glob("nemoguardrails/library", ("actions.py",))):
        t = ctx.tree.ast(rel)
        for fn in functions(t):
            if not any(isinstance(c, ast.Call) and src(c.func).split(".")[-1] == "llm_call" for c in walk_no_nested(fn)):
                continue
            n += 1
            is_action = any(src(d).startswith("action") for d in fn.decorator_list)
            helper_ok = False
            if not is_action:
                # private helper called only from @action functions of the same module
                callers = [f for f in functions(t) if f is not fn and any(isinstance(c, ast.Call) and src(c.func).split(".")[-1] == fn.name for c in walk_no_nested(f))]
                helper_ok = bool(callers) and all(any(src(d).startswith("action") for d in f.decorator_list) for f in callers)
            ctx.check("C17.b.consumers-are-actions", rel, qualname(fn), "def %s" % fn.name, is_action or helper_ok,
                      "post-processes an LLM completion inside an @action (its exceptions are contained by the dispatcher, C03.a)" if is_action or helper_ok else
                      "consumes an LLM completion but is not an @action (nor a helper called only from actions): an IndexError/ValueError on malformed output is not converted into the internal-error reply",
                      line=fn.lineno)
    ctx.floor("C17.b.consumers-are-actions", GEN1, "functions consuming LLM completions", n, 20)
    # b2: v1 runtime: dynamic flow parse
    t = ctx.tree.ast(RT1)
    fn = find_function(t, "_process_start_flow")
    if fn is None:
        raise AnalysisError("_process_start_flow not found", anchor=RT1 + "::_process_start_flow")
    parses = [c for c in walk_no_nested(fn) if isinstance(c, ast.Call) and src(c.func) == "parse_colang_file"]
    ctx.floor("C17.b.dynamic-flow", RT1, "parse of the LLM-derived flow body", len(parses), 1)
    for c in parses:
        cov = contained(c, fn)
        ok = cov is not None and not handler_reraises(cov[1])
        msg = "the LLM-derived flow body is parsed inside try/except Exception with a fallback" if ok else \
            "the LLM-derived flow body (wrapped in a flow definition, i.e. NOT the text the action validated) is parsed without try/except: malformed generated Colang raises out of the runtime and generate() fails"
        ctx.check("C17.b.dynamic-flow", RT1, qualname(fn), first_line(c), ok, msg, line=c.lineno)
        if ok:
            tr, h = cov
            # the flow-count check must be under the same protection
            asserts = [a for a in walk_no_nested(fn) if isinstance(a, ast.Assert) or (isinstance(a, ast.Subscript) and "flows" in src(a) and src(a.slice) == "0")]
            for a in asserts:
                inside = any(t_ is tr and part == "body" for t_, part in enclosing_trys(a, fn))
                if isinstance(a, ast.Assert):
                    ctx.check("C17.b.dynamic-flow", RT1, qualname(fn), first_line(a), inside,
                              "the check that exactly one flow was parsed is inside the same try" if inside else
                              "`%s` is outside the try: generated text that parses to zero/two flows raises AssertionError out of the runtime" % first_line(a), line=a.lineno)
            idx = [a for a in walk_no_nested(fn) if isinstance(a, ast.Subscript) and isinstance(a.value, ast.Subscript) and src(a.value.slice) in ("'flows'", '"flows"')
                   and isinstance(a.slice, ast.Constant) and isinstance(a.slice.value, int)]
            len_checked = any((isinstance(a, ast.Assert) and "len(" in src(a.test) and "flows" in src(a.test)) and
                              any(t_ is tr and part == "body" for t_, part in enclosing_trys(a, fn)) for a in walk_no_nested(fn))
            for a in idx:
                inside = any(t_ is tr and part == "body" for t_, part in enclosing_trys(a, fn))
                guarded = any(isinstance(p_, ast.If) and "len(" in src(p_.test) and "flows" in src(p_.test) for p_ in _ancestors(a, fn))
                ok2 = inside or len_checked or guarded
                ctx.check("C17.b.dynamic-flow", RT1, qualname(fn), first_line(a, 60), ok2,
                          "taking flow #%d of the parsed LLM-derived text is protected (inside the try / flow count checked)" % a.slice.value if ok2 else
                          "`%s` outside the try and without a flow-count check: LLM text that parses to zero flows (e.g. a top-level `define user` block) raises IndexError out of generate()" % first_line(a, 60),
                          line=a.lineno)
            falls = [s for s in h.body if isinstance(s, ast.Return)]
            ctx.check("C17.b.dynamic-flow", RT1, qualname(fn), "fallback", bool(falls) and "BotIntent" in src(falls[0]),
                      "the handler falls back to a bot intent (general response) instead of failing the turn", line=h.lineno)
    # b3: v2 AddFlowsAction
    t2 = ctx.tree.ast(RT2)
    add = find_function(t2, "_add_flows_action")
    if add is None:
        raise AnalysisError("_add_flows_action not found", anchor=RT2 + "::_add_flows_action")
    reg = [c for c in ast.walk(t2) if isinstance(c, ast.Call) and src(c.func).endswith("register_action") and c.args and src(c.args[0]) == "self._add_flows_action"]
    ctx.check("C17.b.add-flows", RT2, "RuntimeV2_x.__init__", "AddFlowsAction registered", len(reg) == 1,
              "the flow-adding code runs as a registered action, i.e. under the dispatcher's exception containment", line=add.lineno)
    parses = [c for c in walk_no_nested(add) if isinstance(c, ast.Call) and src(c.func) == "parse_colang_file"]
    first = min(parses, key=lambda c: c.lineno) if parses else None
    cov = contained(first, add) if first is not None else None
    ctx.check("C17.b.add-flows", RT2, qualname(add), "generated code parsed under try", cov is not None,
              "generated Colang code is parsed inside try/except Exception with a replacement flow", line=(first.lineno if first else add.lineno))
    if cov is not None and cov[1].name:
        cg = CallGraph(ctx.tree, [RT2])
        before = len(ctx.obligations)
        C13._handler_totality(ctx, cg, RT2, add, cov[1])
        for o in ctx.obligations[before:]:
            o.rule = o.rule.replace("C13.a.handler-total", "C17.b.handler-total")


def _returns_nonempty(fn):
    """Every return of fn is syntactically a non-empty list (a literal with elements, or a local list with an unconditional top-level append)."""
    rets = [r for r in walk_no_nested(fn) if isinstance(r, ast.Return)]
    if not rets:
        return False
    for r in rets:
        v = r.value
        if isinstance(v, ast.List) and v.elts:
            continue
        if isinstance(v, ast.Name):
            top_append = any(isinstance(st, ast.Expr) and isinstance(st.value, ast.Call) and isinstance(st.value.func, ast.Attribute) and st.value.func.attr == "append"
                             and src(st.value.func.value) == v.id for st in fn.body)
            if top_append:
                continue
        return False
    return True


def b_next_events(ctx):
    """The Colang 1.0 processing loop indexes the list of next events (`next_events[-1]`).  A flow started from LLM text may legitimately have nothing
    to do yet (it begins with `user ...`), so on every path to the index the list must be known non-empty: the emptiness fallback, or a producer that
    cannot return an empty list."""
    t = ctx.tree.ast(RT1)
    fn = None
    for f in functions(t):
        if f.name == "generate_events":
            fn = f
    if fn is None:
        raise AnalysisError("generate_events not found", anchor=RT1 + "::generate_events")
    cfg = CFG(fn)
    uses = [n for n in walk_no_nested(fn) if isinstance(n, ast.Subscript) and src(n.value) == "next_events" and isinstance(n.ctx, ast.Load)]
    defs = [n for n in walk_no_nested(fn) if isinstance(n, ast.Assign) and src(n.targets[0]) == "next_events"]
    ctx.floor("C17.b.next-events", RT1, "indexing of next_events in generate_events", len(uses), 1)
    guards = [n for n in cfg.nodes if n.kind == "test" and n.ast is not None and re.sub(r"\s", "", src(n.ast)) in
              ("len(next_events)==0", "notnext_events", "len(next_events)<1", "next_events==[]")]
    for d in defs:
        # the fallback assignment itself
        if isinstance(d.value, ast.List) and d.value.elts:
            continue
        callee = None
        for c in ast.walk(d.value):
            if isinstance(c, ast.Call) and isinstance(c.func, ast.Attribute) and src(c.func.value) == "self":
                callee = c.func.attr
        producer = None
        if callee:
            for f in functions(t):
                if f.name == callee:
                    producer = f
        nonempty = producer is not None and _returns_nonempty(producer)
        dn = cfg.node_of(d)
        for u in uses:
            un = cfg.node_of(u)
            if un not in cfg.reachable([dn]):
                continue
            ok = nonempty or (bool(guards) and cfg.must_pass(dn, un, guards))
            ctx.check("C17.b.next-events", RT1, "RuntimeV1_0.generate_events", "%s  ->  %s" % (first_line(d, 50), first_line(u, 30)), ok,
                      ("`%s` cannot return an empty list" % callee) if nonempty else "the emptiness fallback (Listen) lies on every path to the index" if ok else
                      "`%s` can return an empty list (e.g. an LLM-generated flow that starts with `user ...` and therefore waits) and no emptiness fallback lies between it and `%s`: IndexError out of generate()"
                      % (callee, first_line(u, 30)), line=d.lineno)


def b_dynamic_exec(ctx):
    """In multi-step mode the LLM's text becomes a flow that the Colang 1.0 interpreter EXECUTES (start_flow).  Its `$x = <expr>` / `if <expr>` / `while <expr>`
    statements are evaluated by slide() through eval_expression, which raises on any evaluation error.  For generate() not to raise, that evaluation must be
    contained somewhere between the processing loop and the evaluator."""
    t = ctx.tree.ast(RT1)
    gen2 = ctx.tree.ast(GEN1)
    # the feature exists: generate_next_step emits start_flow with LLM-derived body
    emits = [c for c in ast.walk(gen2) if isinstance(c, ast.Call) and src(c.func) == "new_event_dict" and c.args and isinstance(c.args[0], ast.Constant) and c.args[0].value == "start_flow"]
    if not emits:
        ctx.check("C17.b.dynamic-exec", GEN1, "generate_next_step", "start_flow emission", True, "no LLM-derived flow is started any more (nothing to contain)", line=1)
        return
    comp = None
    for f in functions(t):
        if f.name == "_compute_next_steps":
            comp = f
    if comp is None:
        raise AnalysisError("_compute_next_steps not found", anchor=RT1 + "::_compute_next_steps")
    calls = [c for c in walk_no_nested(comp) if isinstance(c, ast.Call) and src(c.func) == "compute_next_steps"]
    if not calls:
        raise AnalysisError("compute_next_steps call not found", anchor=RT1 + "::_compute_next_steps")
    inner = contained(calls[0], comp) is not None and not handler_reraises(contained(calls[0], comp)[1])
    # or contained at the callers
    outer = True
    n_sites = 0
    for f in functions(t):
        for c in walk_no_nested(f):
            if isinstance(c, ast.Call) and src(c.func) == "self._compute_next_steps":
                n_sites += 1
                cov = contained(c, f)
                if cov is None or handler_reraises(cov[1]):
                    outer = False
    # or at the evaluator inside slide()
    sl = ctx.tree.ast("nemoguardrails/colang/v1_0/runtime/sliding.py")
    slide = find_function(sl, "slide")
    ev_calls = [c for c in ast.walk(slide) if isinstance(c, ast.Call) and src(c.func) == "eval_expression"] if slide else []
    at_eval = bool(ev_calls) and all(contained(c, slide) is not None and not handler_reraises(contained(c, slide)[1]) for c in ev_calls)
    ok = inner or (outer and n_sites > 0) or at_eval
    ctx.check("C17.b.dynamic-exec", RT1, "RuntimeV1_0._compute_next_steps", "compute_next_steps(...) executes LLM-generated flows", ok,
              "evaluation errors of an LLM-generated flow are contained (%s)" % ("in _compute_next_steps" if inner else "at every caller" if outer else "at the evaluator") if ok else
              "an LLM-generated flow (multi-step generation) is executed without any containment between the processing loop and slide()'s eval_expression (%d evaluator call(s), %d caller(s)): "
              "a generated `$a = 1/0` or `if $x.y` raises out of generate() - and again on every later turn, because the start_flow event stays in the replayed history" % (len(ev_calls), n_sites),
              line=calls[0].lineno)


SER = "nemoguardrails/colang/v2_x/runtime/serialization.py"
JSON_KEY_TYPES = {"str", "int", "float", "bool"}


def b_generated_value_types(ctx):
    """A value generated by the LLM (`$x = ..."instruction"`) is stored in the Colang 2.x flow context and therefore serialised by state_to_json on
    every generate() call.  literal_eval can yield types the encoder rejects (bytes, complex, Ellipsis, dict with tuple keys); the action must refuse
    them, otherwise generate() raises.  Decided: the returned value passes a validator whose accepted types are a subset of the encoder's."""
    t = ctx.tree.ast(GEN2)
    fn = None
    for f in functions(t):
        if f.name == "generate_value":
            fn = f
    if fn is None:
        raise AnalysisError("generate_value (v2) not found", anchor=GEN2 + "::generate_value")
    enc = find_function(ctx.tree.ast(SER), "encode_to_dict")
    if enc is None:
        raise AnalysisError("encode_to_dict not found", anchor=SER + "::encode_to_dict")
    handled = set()
    for c in ast.walk(enc):
        if isinstance(c, ast.Call) and src(c.func) == "isinstance" and len(c.args) == 2:
            for x in ([c.args[1]] if not isinstance(c.args[1], ast.Tuple) else c.args[1].elts):
                handled.add(src(x).split(".")[-1])
    if "obj is None" in src(enc):
        handled.add("None")
    handled.add("bool")   # bool is an int
    evals = [c for c in walk_no_nested(fn) if isinstance(c, ast.Call) and src(c.func).split(".")[-1] == "literal_eval"]
    ctx.floor("C17.b.generated-value-types", GEN2, "literal_eval of generated text", len(evals), 1)
    cfg = CFG(fn)
    for c in evals:
        st = c
        while not isinstance(st, ast.stmt):
            st = st._parent
        if isinstance(st, ast.Return):
            ctx.check("C17.b.generated-value-types", GEN2, qualname(fn), first_line(st), False,
                      "the literal is returned as is: a generated `b\"x\"`, `1j`, `...` or `{(1, 2): 3}` enters the flow context and state_to_json raises out of generate()", line=st.lineno)
            continue
        if not (isinstance(st, ast.Assign) and isinstance(st.targets[0], ast.Name)):
            raise AnalysisError("literal_eval result used in an unrecognised way: %s" % first_line(st), anchor=GEN2 + "::generate_value")
        var = st.targets[0].id
        rets = [r for r in walk_no_nested(fn) if isinstance(r, ast.Return) and r.value is not None and var in {x.id for x in ast.walk(r.value) if isinstance(x, ast.Name)}]
        # guard: a test that calls a module-level validator on the variable and whose failing branch raises
        guards = []
        vnames = set()
        for n in cfg.nodes:
            if n.kind == "test" and n.ast is not None:
                for k in ast.walk(n.ast):
                    if isinstance(k, ast.Call) and isinstance(k.func, ast.Name) and any(isinstance(a, ast.Name) and a.id == var for a in k.args) and find_function(t, k.func.id) is not None:
                        owner = n.stmt if getattr(n, "stmt", None) is not None else None
                        guards.append(n)
                        vnames.add(k.func.id)
        for r in rets:
            ok = bool(guards) and cfg.must_pass(cfg.node_of(st), cfg.node_of(r), guards)
            ctx.check("C17.b.generated-value-types", GEN2, qualname(fn), first_line(r), ok,
                      "the generated literal is returned only after the type validator %s" % sorted(vnames) if ok else
                      "the generated literal `%s` can be returned without passing a type validator: a literal of a type the state encoder does not handle makes generate() raise" % var, line=r.lineno)
        for vn in sorted(vnames):
            vf = find_function(t, vn)
            accepted = set()
            for k in ast.walk(vf):
                if isinstance(k, ast.Call) and src(k.func) == "isinstance" and len(k.args) == 2:
                    for x in ([k.args[1]] if not isinstance(k.args[1], ast.Tuple) else k.args[1].elts):
                        accepted.add(src(x))
            extra = sorted(a for a in accepted if a not in handled)
            last = vf.body[-1]
            default_reject = isinstance(last, ast.Return) and isinstance(last.value, ast.Constant) and last.value.value is False
            ctx.check("C17.b.generated-value-types", GEN2, vn, "accepted types are encodable", not extra and default_reject,
                      "validator accepts %s, all handled by encode_to_dict (%d handled types), and rejects everything else" % (sorted(accepted), len(handled)) if not extra and default_reject else
                      "validator accepts %s which encode_to_dict does not handle, or does not reject by default" % (extra or "unknown types"), line=vf.lineno)
