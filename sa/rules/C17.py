"""C17 - Arbitrary LLM output never breaks a turn and is treated as data."""
import ast
import re

from ..pycalls import CallGraph
from ..pycfg import CFG, walk_no_nested, contained, handler_reraises, enclosing_trys, broad_handler
from ..pyflow import Taint
from ..source import dict_key_writes, atoms, atom_key, side, truth as cond_truth, AnalysisError, find_function, first_line, src, functions, qualname, enclosing_function
from . import C13
from .. import rails, colang2

GEN1 = "nemoguardrails/actions/llm/generation.py"
GEN2 = "nemoguardrails/actions/v2_x/generation.py"
UTILS = "nemoguardrails/actions/llm/utils.py"
PARSERS = "nemoguardrails/llm/output_parsers.py"
RT1 = "nemoguardrails/colang/v1_0/runtime/runtime.py"
RT2 = "nemoguardrails/colang/v2_x/runtime/runtime.py"
TAINT_MODULES = [GEN1, GEN2, UTILS, PARSERS]
# evaluators: template / expression / code evaluation
SINKS = {"_render_string", "from_string", "Template", "eval_expression", "eval", "exec", "compile", "literal_eval"}
# literal_eval (data-only evaluation) is permitted for generated *values* only
LITERAL_EVAL_ALLOWED = {(GEN1, "LLMGenerationActions.generate_value"), (GEN2, "LLMGenerationActionsV2dotx.generate_value")}


def run(ctx):
    ctx.explanation = ("C17: forward taint analysis from every LLM completion to template/expression/code evaluators (LLM text is data, never evaluated), "
                       "and containment of every consumer of LLM text: post-processing happens inside @action functions (contained by the dispatcher, C03.a), "
                       "and the consumers outside actions are total.")
    ctx.decided = ["a: no value derived from llm_call(...) / streaming wait*() reaches _render_string, Environment.from_string, Template, eval_expression, eval, exec or compile; literal_eval only in the generate_value actions",
                   "b1: every function that consumes an LLM completion is an @action (so C03.a turns its exceptions into the internal-error reply)",
                   "b2: the v1 runtime parses the LLM-derived dynamic flow inside try/except Exception (with the flow-count check) and falls back",
                   "b3: the v2 AddFlowsAction is registered as an action and its error handler is total"]
    ctx.not_decided = ["that every hostile text yields a well-formed reply beyond the containment argument",
                       "Colang 2 flow generation: LLM text deliberately becomes flow source (AddFlowsAction) - outside clause a, stated as such"]
    a_taint(ctx)
    a_template_source(ctx)
    a_single_resolution(ctx)
    b_containment(ctx)
    b_next_events(ctx)
    b_dynamic_exec(ctx)
    b_generated_value_types(ctx)
    b_llm_exception_scope(ctx)
    b_fallback_source(ctx)
    b_fallback_total(ctx)
    a_utterance_verbatim(ctx)
    a_interpolation_escape(ctx)
    a_predefined_table(ctx)
    b_postprocess_total(ctx)
    b_guards_live(ctx)
    g_waiter_woken_at_end(ctx)
    b_event_limit_ends_turn(ctx)
    c_generated_flow_name(ctx)
    b_dynamic_load_contained(ctx)
    b_dynamic_flow_bounded(ctx)


def _is_source(c):
    f = src(c.func).split(".")[-1]
    return f == "llm_call" or (f.startswith("wait") and isinstance(c.func, ast.Attribute) and "handler" in src(c.func.value).lower())


def a_taint(ctx):
    n_sources = 0
    n_sinks = 0
    for rel in TAINT_MODULES:
        t = ctx.tree.ast(rel)
        for fn in functions(t):
            calls = [c for c in walk_no_nested(fn) if isinstance(c, ast.Call)]
            srcs = [c for c in calls if _is_source(c)]
            n_sources += len(srcs)
            sinks = [c for c in calls if src(c.func).split(".")[-1] in SINKS]
            if not sinks:
                continue
            cfg = CFG(fn)
            # parameters of helper functions that receive LLM text from their callers are treated as tainted
            params = []
            if not srcs and rel in (UTILS, PARSERS):
                params = [a.arg for a in fn.args.args if a.arg not in ("self", "cls")]
            tn = Taint(cfg, _is_source, tainted_params=params)
            for c in sinks:
                n_sinks += 1
                node = cfg.node_of(c)
                f = src(c.func).split(".")[-1]
                targs = [first_line(a, 40) for a in list(c.args) + [k.value for k in c.keywords] if tn.tainted_at(node, a)]
                q = qualname(fn)
                if f == "literal_eval":
                    ok = (rel, q) in LITERAL_EVAL_ALLOWED
                    ctx.check("C17.a.literal-eval", rel, q, first_line(c), ok,
                              "literal_eval (data-only) is used on generated text only in the generate_value actions" if ok else
                              "literal_eval on LLM text outside the generate_value actions", line=c.lineno)
                    continue
                ctx.check("C17.a.taint", rel, q, first_line(c), not targs,
                          "evaluator `%s` receives no LLM-derived value" % f if not targs else
                          "LLM-derived value(s) %s reach the evaluator `%s`: template/expression syntax produced by the LLM would be evaluated instead of passed through literally" % (targs, f),
                          line=c.lineno)
    ctx.stat("llm_sources", n_sources)
    ctx.stat("evaluator_call_sites", n_sinks)
    ctx.floor("C17.a.taint", GEN1, "LLM completion sources (llm_call / streaming wait)", n_sources, 15)
    ctx.floor("C17.a.taint", GEN1, "evaluator call sites in the generation modules", n_sinks, 5)
    # positive example: the analysis itself must see a planted flow
    sample = ast.parse("async def f(self, llm, p):\n    r = await llm_call(llm, p)\n    t = r.strip().split('\\n')[0]\n    return self._render_string(f'x {t}', {})\n")
    for n in ast.walk(sample):
        for ch in ast.iter_child_nodes(n):
            ch._parent = n
    fn = sample.body[0]
    cfg = CFG(fn)
    tn = Taint(cfg, _is_source)
    c = [x for x in ast.walk(fn) if isinstance(x, ast.Call) and src(x.func).endswith("_render_string")][0]
    if not tn.tainted_at(cfg.node_of(c), c.args[0]):
        raise AnalysisError("taint engine self-test failed", anchor="C17.a/self-test")


def _ancestors(node, stop):
    p = getattr(node, "_parent", None)
    while p is not None and p is not stop:
        yield p
        p = getattr(p, "_parent", None)


def _within(node, root):
    return any(x is node for x in ast.walk(root))


TEMPLATE_MODULES = [GEN1, "nemoguardrails/llm/taskmanager.py"]
DATA_PARAMS = ("context", "events", "kwargs", "inputs")


def a_template_source(ctx):
    """The template SOURCE handed to Jinja comes from configuration (prompt / predefined message); the data of the turn (context variables such as
    $bot_message or $user_message - i.e. LLM and user text) may only enter as render() variables, never spliced into the source."""
    n = 0
    for rel in TEMPLATE_MODULES:
        t = ctx.tree.ast(rel)
        for fn in functions(t):
            sites = [c for c in walk_no_nested(fn) if isinstance(c, ast.Call) and src(c.func).split(".")[-1] in ("from_string", "Template") and c.args]
            if not sites:
                continue
            cfg = CFG(fn)
            params = [a.arg for a in fn.args.args if a.arg in DATA_PARAMS]
            tn = Taint(cfg, lambda c: False, tainted_params=params)
            for c in sites:
                n += 1
                node = cfg.node_of(c)
                bad = tn.tainted_at(node, c.args[0])
                ctx.check("C17.a.template-source", rel, qualname(fn), first_line(c), not bad,
                          "the template source does not depend on the turn's data (%s only enter through render())" % ", ".join(params) if not bad else
                          "values of the turn's data (%s) are spliced into the template source before it is compiled: `{{ }}` / `{%% %%}` inside an LLM- or user-produced "
                          "variable (e.g. $bot_message in a predefined message) is evaluated instead of passed through literally" % ", ".join(params), line=c.lineno)
    ctx.floor("C17.a.template-source", GEN1, "template compilation sites", n, 2)


CORE = "nemoguardrails/actions/core.py"


def a_single_resolution(ctx):
    """`$name` references written by the flow author are resolved exactly once.  The runtime resolves the TOP-LEVEL string parameters of an action,
    and `create_event` resolves the top-level values of its event dict.  If either descended into nested containers, a value that is already the
    result of a resolution (LLM text such as "$100 ...") would be resolved again by the other."""
    def resolver_facts(path, fn):
        """-> list of (store stmt, descends?, why)"""
        out = []
        for n in walk_no_nested(fn):
            if not (isinstance(n, ast.Assign) and isinstance(n.targets[0], ast.Subscript)):
                continue
            v = n.value
            is_lookup = (isinstance(v, ast.Subscript) and src(v.value) == "context") or (isinstance(v, ast.Call) and src(v.func) == "context.get")
            helper = None
            if isinstance(v, ast.Call) and not is_lookup and any(src(a) == "context" for a in v.args):
                helper = src(v.func).split(".")[-1]
            if not is_lookup and helper is None:
                continue
            guards = []
            child = n
            for p in _ancestors(n, fn):
                if isinstance(p, ast.If) and any(child is b or _within(child, b) for b in p.body):
                    guards.append(p)
                child = p
            dollar = any("$" in src(g.test) for g in guards)
            if is_lookup and not dollar:
                continue
            if is_lookup:
                strict = any(re.search(r"isinstance\(\s*\w+\s*,\s*str\s*\)", src(g.test)) for g in guards)
                if isinstance(n.targets[0].value, ast.Subscript):
                    out.append((n, True, "the store `%s` writes below the top level of the parameter dict" % src(n.targets[0])))
                    continue
                out.append((n, not strict, "the replaced value is not required to be a plain string" if not strict else "top-level string values only"))
            else:
                h = find_function(ctx.tree.ast(path), helper) or find_function(ctx.tree.ast(path), helper, None)
                if h is None:
                    for f in functions(ctx.tree.ast(path)):
                        if f.name == helper:
                            h = f
                if h is None:
                    out.append((n, True, "resolution delegated to `%s`, which is not defined in this module" % helper))
                    continue
                txt = src(h)
                has_dollar = "$" in txt and "context" in txt
                recursive = any(isinstance(c, ast.Call) and src(c.func).split(".")[-1] == h.name for c in ast.walk(h))
                traverses = any(isinstance(x, (ast.DictComp, ast.ListComp, ast.For)) for x in ast.walk(h))
                if has_dollar:
                    out.append((n, recursive or traverses, "`%s` %s" % (helper, "descends into dict/list parameters" if (recursive or traverses) else "resolves the string it is given")))
        return out

    total = 0
    for path, fname in ((RT1, "_process_start_action"), (CORE, "create_event")):
        fn = None
        for f in functions(ctx.tree.ast(path)):
            if f.name == fname:
                fn = f
        if fn is None:
            raise AnalysisError("%s not found" % fname, anchor=path + "::" + fname)
        facts = resolver_facts(path, fn)
        total += len(facts)
        for n, descends, why in facts:
            ctx.check("C17.a.single-resolution", path, qualname(fn), first_line(n, 70), not descends,
                      "`$name` resolution here covers %s" % why if not descends else
                      "`$name` resolution here reaches nested values (%s): a value that another resolver (runtime parameters / create_event) has already replaced by LLM text is "
                      "resolved a second time, so message text starting with `$` is evaluated as a variable reference" % why, line=n.lineno)
    ctx.floor("C17.a.single-resolution", RT1, "`$name` resolver stores", total, 2)


def b_containment(ctx):
    # b1: consumers of LLM completions are actions
    n = 0
    for rel in (GEN1, GEN2) + tuple(ctx.tree.glob("nemoguardrails/library", ("actions.py",))):
        t = ctx.tree.ast(rel)
        for fn in functions(t):
            if not any(isinstance(c, ast.Call) and src(c.func).split(".")[-1] == "llm_call" for c in walk_no_nested(fn)):
                continue
            n += 1
            is_action = any(src(d).startswith("action") for d in fn.decorator_list)
            helper_ok = False
            if not is_action:
                # private helper called only from @action functions of the same module
                callers = [f for f in functions(t) if f is not fn and any(isinstance(c, ast.Call) and src(c.func).split(".")[-1] == fn.name for c in walk_no_nested(f))]
                helper_ok = bool(callers) and all(any(src(d).startswith("action") for d in f.decorator_list) for f in callers)
            ctx.check("C17.b.consumers-are-actions", rel, qualname(fn), "def %s" % fn.name, is_action or helper_ok,
                      "post-processes an LLM completion inside an @action (its exceptions are contained by the dispatcher, C03.a)" if is_action or helper_ok else
                      "consumes an LLM completion but is not an @action (nor a helper called only from actions): an IndexError/ValueError on malformed output is not converted into the internal-error reply",
                      line=fn.lineno)
    ctx.floor("C17.b.consumers-are-actions", GEN1, "functions consuming LLM completions", n, 20)
    # b2: v1 runtime: dynamic flow parse
    t = ctx.tree.ast(RT1)
    fn = find_function(t, "_process_start_flow")
    if fn is None:
        raise AnalysisError("_process_start_flow not found", anchor=RT1 + "::_process_start_flow")
    parses = [c for c in walk_no_nested(fn) if isinstance(c, ast.Call) and src(c.func) == "parse_colang_file"]
    ctx.floor("C17.b.dynamic-flow", RT1, "parse of the LLM-derived flow body", len(parses), 1)
    for c in parses:
        cov = contained(c, fn)
        ok = cov is not None and not handler_reraises(cov[1])
        msg = "the LLM-derived flow body is parsed inside try/except Exception with a fallback" if ok else \
            "the LLM-derived flow body (wrapped in a flow definition, i.e. NOT the text the action validated) is parsed without try/except: malformed generated Colang raises out of the runtime and generate() fails"
        ctx.check("C17.b.dynamic-flow", RT1, qualname(fn), first_line(c), ok, msg, line=c.lineno)
        if ok:
            tr, h = cov
            # the flow-count check must be under the same protection
            asserts = [a for a in walk_no_nested(fn) if isinstance(a, ast.Assert) or (isinstance(a, ast.Subscript) and "flows" in src(a) and src(a.slice) == "0")]
            for a in asserts:
                inside = any(t_ is tr and part == "body" for t_, part in enclosing_trys(a, fn))
                if isinstance(a, ast.Assert):
                    ctx.check("C17.b.dynamic-flow", RT1, qualname(fn), first_line(a), inside,
                              "the check that exactly one flow was parsed is inside the same try" if inside else
                              "`%s` is outside the try: generated text that parses to zero/two flows raises AssertionError out of the runtime" % first_line(a), line=a.lineno)
            idx = [a for a in walk_no_nested(fn) if isinstance(a, ast.Subscript) and isinstance(a.value, ast.Subscript) and src(a.value.slice) in ("'flows'", '"flows"')
                   and isinstance(a.slice, ast.Constant) and isinstance(a.slice.value, int)]
            len_checked = any((isinstance(a, ast.Assert) and "len(" in src(a.test) and "flows" in src(a.test)) and
                              any(t_ is tr and part == "body" for t_, part in enclosing_trys(a, fn)) for a in walk_no_nested(fn))
            for a in idx:
                inside = any(t_ is tr and part == "body" for t_, part in enclosing_trys(a, fn))
                guarded = any(isinstance(p_, ast.If) and "len(" in src(p_.test) and "flows" in src(p_.test) for p_ in _ancestors(a, fn))
                ok2 = inside or len_checked or guarded
                ctx.check("C17.b.dynamic-flow", RT1, qualname(fn), first_line(a, 60), ok2,
                          "taking flow #%d of the parsed LLM-derived text is protected (inside the try / flow count checked)" % a.slice.value if ok2 else
                          "`%s` outside the try and without a flow-count check: LLM text that parses to zero flows (e.g. a top-level `define user` block) raises IndexError out of generate()" % first_line(a, 60),
                          line=a.lineno)
            falls = [s for s in h.body if isinstance(s, ast.Return)]
            ctx.check("C17.b.dynamic-flow", RT1, qualname(fn), "fallback", bool(falls) and "BotIntent" in src(falls[0]),
                      "the handler falls back to a bot intent (general response) instead of failing the turn", line=h.lineno)
    # b3: v2 AddFlowsAction
    t2 = ctx.tree.ast(RT2)
    add = find_function(t2, "_add_flows_action")
    if add is None:
        raise AnalysisError("_add_flows_action not found", anchor=RT2 + "::_add_flows_action")
    reg = [c for c in ast.walk(t2) if isinstance(c, ast.Call) and src(c.func).endswith("register_action") and c.args and src(c.args[0]) == "self._add_flows_action"]
    ctx.check("C17.b.add-flows", RT2, "RuntimeV2_x.__init__", "AddFlowsAction registered", len(reg) == 1,
              "the flow-adding code runs as a registered action, i.e. under the dispatcher's exception containment", line=add.lineno)
    parses = [c for c in walk_no_nested(add) if isinstance(c, ast.Call) and src(c.func) == "parse_colang_file"]
    first = min(parses, key=lambda c: c.lineno) if parses else None
    cov = contained(first, add) if first is not None else None
    ctx.check("C17.b.add-flows", RT2, qualname(add), "generated code parsed under try", cov is not None,
              "generated Colang code is parsed inside try/except Exception with a replacement flow", line=(first.lineno if first else add.lineno))
    if cov is not None and cov[1].name:
        cg = CallGraph(ctx.tree, [RT2])
        before = len(ctx.obligations)
        C13._handler_totality(ctx, cg, RT2, add, cov[1])
        for o in ctx.obligations[before:]:
            o.rule = o.rule.replace("C13.a.handler-total", "C17.b.handler-total")


def _returns_nonempty(fn):
    """Every return of fn is syntactically a non-empty list (a literal with elements, or a local list with an unconditional top-level append)."""
    rets = [r for r in walk_no_nested(fn) if isinstance(r, ast.Return)]
    if not rets:
        return False
    for r in rets:
        v = r.value
        if isinstance(v, ast.List) and v.elts:
            continue
        if isinstance(v, ast.Name):
            top_append = any(isinstance(st, ast.Expr) and isinstance(st.value, ast.Call) and isinstance(st.value.func, ast.Attribute) and st.value.func.attr == "append"
                             and src(st.value.func.value) == v.id for st in fn.body)
            if top_append:
                continue
        return False
    return True


def b_next_events(ctx):
    """The Colang 1.0 processing loop indexes the list of next events (`next_events[-1]`).  A flow started from LLM text may legitimately have nothing
    to do yet (it begins with `user ...`), so on every path to the index the list must be known non-empty: the emptiness fallback, or a producer that
    cannot return an empty list."""
    t = ctx.tree.ast(RT1)
    fn = None
    for f in functions(t):
        if f.name == "generate_events":
            fn = f
    if fn is None:
        raise AnalysisError("generate_events not found", anchor=RT1 + "::generate_events")
    cfg = CFG(fn)
    uses = [n for n in walk_no_nested(fn) if isinstance(n, ast.Subscript) and src(n.value) == "next_events" and isinstance(n.ctx, ast.Load)]
    defs = [n for n in walk_no_nested(fn) if isinstance(n, ast.Assign) and src(n.targets[0]) == "next_events"]
    ctx.floor("C17.b.next-events", RT1, "indexing of next_events in generate_events", len(uses), 1)
    guards = [n for n in cfg.nodes if n.kind == "test" and n.ast is not None and re.sub(r"\s", "", src(n.ast)) in
              ("len(next_events)==0", "notnext_events", "len(next_events)<1", "next_events==[]")]
    for d in defs:
        # the fallback assignment itself
        if isinstance(d.value, ast.List) and d.value.elts:
            continue
        callee = None
        for c in ast.walk(d.value):
            if isinstance(c, ast.Call) and isinstance(c.func, ast.Attribute) and src(c.func.value) == "self":
                callee = c.func.attr
        producer = None
        if callee:
            for f in functions(t):
                if f.name == callee:
                    producer = f
        nonempty = producer is not None and _returns_nonempty(producer)
        dn = cfg.node_of(d)
        for u in uses:
            un = cfg.node_of(u)
            if un not in cfg.reachable([dn]):
                continue
            ok = nonempty or (bool(guards) and cfg.must_pass(dn, un, guards))
            ctx.check("C17.b.next-events", RT1, "RuntimeV1_0.generate_events", "%s  ->  %s" % (first_line(d, 50), first_line(u, 30)), ok,
                      ("`%s` cannot return an empty list" % callee) if nonempty else "the emptiness fallback (Listen) lies on every path to the index" if ok else
                      "`%s` can return an empty list (e.g. an LLM-generated flow that starts with `user ...` and therefore waits) and no emptiness fallback lies between it and `%s`: IndexError out of generate()"
                      % (callee, first_line(u, 30)), line=d.lineno)


def b_dynamic_exec(ctx):
    """In multi-step mode the LLM's text becomes a flow that the Colang 1.0 interpreter EXECUTES (start_flow).  Its `$x = <expr>` / `if <expr>` / `while <expr>`
    statements are evaluated by slide() through eval_expression, which raises on any evaluation error.  For generate() not to raise, that evaluation must be
    contained somewhere between the processing loop and the evaluator."""
    t = ctx.tree.ast(RT1)
    gen2 = ctx.tree.ast(GEN1)
    # the feature exists: generate_next_step emits start_flow with LLM-derived body
    emits = [c for c in ast.walk(gen2) if isinstance(c, ast.Call) and src(c.func) == "new_event_dict" and c.args and isinstance(c.args[0], ast.Constant) and c.args[0].value == "start_flow"]
    if not emits:
        ctx.check("C17.b.dynamic-exec", GEN1, "generate_next_step", "start_flow emission", True, "no LLM-derived flow is started any more (nothing to contain)", line=1)
        return
    comp = None
    for f in functions(t):
        if f.name == "_compute_next_steps":
            comp = f
    if comp is None:
        raise AnalysisError("_compute_next_steps not found", anchor=RT1 + "::_compute_next_steps")
    calls = [c for c in walk_no_nested(comp) if isinstance(c, ast.Call) and src(c.func) == "compute_next_steps"]
    if not calls:
        raise AnalysisError("compute_next_steps call not found", anchor=RT1 + "::_compute_next_steps")
    inner = contained(calls[0], comp) is not None and not handler_reraises(contained(calls[0], comp)[1])
    # or contained at the callers
    outer = True
    n_sites = 0
    for f in functions(t):
        for c in walk_no_nested(f):
            if isinstance(c, ast.Call) and src(c.func) == "self._compute_next_steps":
                n_sites += 1
                cov = contained(c, f)
                if cov is None or handler_reraises(cov[1]):
                    outer = False
    # or at the evaluator inside slide()
    sl = ctx.tree.ast("nemoguardrails/colang/v1_0/runtime/sliding.py")
    slide = find_function(sl, "slide")
    ev_calls = [c for c in ast.walk(slide) if isinstance(c, ast.Call) and src(c.func) == "eval_expression"] if slide else []
    at_eval = bool(ev_calls) and all(contained(c, slide) is not None and not handler_reraises(contained(c, slide)[1]) for c in ev_calls)
    ok = inner or (outer and n_sites > 0) or at_eval
    ctx.check("C17.b.dynamic-exec", RT1, "RuntimeV1_0._compute_next_steps", "compute_next_steps(...) executes LLM-generated flows", ok,
              "evaluation errors of an LLM-generated flow are contained (%s)" % ("in _compute_next_steps" if inner else "at every caller" if outer else "at the evaluator") if ok else
              "an LLM-generated flow (multi-step generation) is executed without any containment between the processing loop and slide()'s eval_expression (%d evaluator call(s), %d caller(s)): "
              "a generated `$a = 1/0` or `if $x.y` raises out of generate() - and again on every later turn, because the start_flow event stays in the replayed history" % (len(ev_calls), n_sites),
              line=calls[0].lineno)


SER = "nemoguardrails/colang/v2_x/runtime/serialization.py"
JSON_KEY_TYPES = {"str", "int", "float", "bool"}


def b_generated_value_types(ctx):
    """A value generated by the LLM (`$x = ..."instruction"`) is stored in the Colang 2.x flow context and therefore serialised by state_to_json on
    every generate() call.  literal_eval can yield types the encoder rejects (bytes, complex, Ellipsis, dict with tuple keys); the action must refuse
    them, otherwise generate() raises.  Decided: the returned value passes a validator whose accepted types are a subset of the encoder's."""
    t = ctx.tree.ast(GEN2)
    fn = None
    for f in functions(t):
        if f.name == "generate_value":
            fn = f
    if fn is None:
        raise AnalysisError("generate_value (v2) not found", anchor=GEN2 + "::generate_value")
    enc = find_function(ctx.tree.ast(SER), "encode_to_dict")
    if enc is None:
        raise AnalysisError("encode_to_dict not found", anchor=SER + "::encode_to_dict")
    handled = set()
    for c in ast.walk(enc):
        if isinstance(c, ast.Call) and src(c.func) == "isinstance" and len(c.args) == 2:
            for x in ([c.args[1]] if not isinstance(c.args[1], ast.Tuple) else c.args[1].elts):
                handled.add(src(x).split(".")[-1])
    if "obj is None" in src(enc):
        handled.add("None")
    handled.add("bool")   # bool is an int
    evals = [c for c in walk_no_nested(fn) if isinstance(c, ast.Call) and src(c.func).split(".")[-1] == "literal_eval"]
    ctx.floor("C17.b.generated-value-types", GEN2, "literal_eval of generated text", len(evals), 1)
    cfg = CFG(fn)
    for c in evals:
        st = c
        while not isinstance(st, ast.stmt):
            st = st._parent
        if isinstance(st, ast.Return):
            ctx.check("C17.b.generated-value-types", GEN2, qualname(fn), first_line(st), False,
                      "the literal is returned as is: a generated `b\"x\"`, `1j`, `...` or `{(1, 2): 3}` enters the flow context and state_to_json raises out of generate()", line=st.lineno)
            continue
        if not (isinstance(st, ast.Assign) and isinstance(st.targets[0], ast.Name)):
            raise AnalysisError("literal_eval result used in an unrecognised way: %s" % first_line(st), anchor=GEN2 + "::generate_value")
        var = st.targets[0].id
        rets = [r for r in walk_no_nested(fn) if isinstance(r, ast.Return) and r.value is not None and var in {x.id for x in ast.walk(r.value) if isinstance(x, ast.Name)}]
        # guard: a test that calls a module-level validator on the variable and whose failing branch raises
        guards = []
        vnames = set()
        for n in cfg.nodes:
            if n.kind == "test" and n.ast is not None:
                for k in ast.walk(n.ast):
                    if isinstance(k, ast.Call) and isinstance(k.func, ast.Name) and any(isinstance(a, ast.Name) and a.id == var for a in k.args) and find_function(t, k.func.id) is not None:
                        owner = n.stmt if getattr(n, "stmt", None) is not None else None
                        guards.append(n)
                        vnames.add(k.func.id)
        for r in rets:
            ok = bool(guards) and cfg.must_pass(cfg.node_of(st), cfg.node_of(r), guards)
            ctx.check("C17.b.generated-value-types", GEN2, qualname(fn), first_line(r), ok,
                      "the generated literal is returned only after the type validator %s" % sorted(vnames) if ok else
                      "the generated literal `%s` can be returned without passing a type validator: a literal of a type the state encoder does not handle makes generate() raise" % var, line=r.lineno)
        for vn in sorted(vnames):
            vf = find_function(t, vn)
            accepted = set()
            for k in ast.walk(vf):
                if isinstance(k, ast.Call) and src(k.func) == "isinstance" and len(k.args) == 2:
                    for x in ([k.args[1]] if not isinstance(k.args[1], ast.Tuple) else k.args[1].elts):
                        accepted.add(src(x))
            extra = sorted(a for a in accepted if a not in handled)
            # default = what the validator returns for a value that is an instance of none of the tested types (follow the sides taken when every atomic test is false)
            def _default(stmts):
                for st_ in stmts:
                    if isinstance(st_, ast.Return):
                        return st_
                    if isinstance(st_, ast.If):
                        v_ = cond_truth(st_.test, {(lambda e: True): False})     # a value that passes none of the validator's tests
                        if v_ is None:
                            return None
                        r_ = _default(side(st_, v_))
                        if r_ is not None:
                            return r_
                    elif isinstance(st_, (ast.For, ast.While, ast.Try, ast.With)):
                        return None
                return None
            last = _default(vf.body)
            default_reject = isinstance(last, ast.Return) and isinstance(last.value, ast.Constant) and last.value.value is False
            ctx.check("C17.b.generated-value-types", GEN2, vn, "accepted types are encodable", not extra and default_reject,
                      "validator accepts %s, all handled by encode_to_dict (%d handled types), and rejects everything else" % (sorted(accepted), len(handled)) if not extra and default_reject else
                      "validator accepts %s which encode_to_dict does not handle, or does not reject by default" % (extra or "unknown types"), line=vf.lineno)


def b_llm_exception_scope(ctx):
    """LLMCallException is the one exception the action dispatcher deliberately forwards (`except LLMCallException: raise`): it means "the provider failed".
    A `try` that converts every exception into LLMCallException must therefore not also *consume* the completion - an IndexError on an empty or odd
    completion would leave generate() instead of becoming a failed action."""
    n = 0
    for rel in ctx.tree.glob("nemoguardrails/actions", (".py",)) + ctx.tree.glob("nemoguardrails/llm", (".py",)):
        t = ctx.tree.ast(rel)
        for fn in functions(t):
            for tr in [x for x in walk_no_nested(fn) if isinstance(x, ast.Try)]:
                if not any(isinstance(r, ast.Raise) and r.exc is not None and "LLMCallException" in src(r.exc) for h in tr.handlers for r in ast.walk(h)):
                    continue
                n += 1
                results = set()
                bad = None
                for st in tr.body:
                    for x in ast.walk(st):
                        if isinstance(x, (ast.Assign, ast.AnnAssign)) and x.value is not None and any(isinstance(a, ast.Await) for a in ast.walk(x.value)):
                            tg = x.targets[0] if isinstance(x, ast.Assign) else x.target
                            for nm in ast.walk(tg):
                                if isinstance(nm, ast.Name):
                                    results.add(nm.id)
                        # the awaited completion used in place: (await ...).generations[0]
                        if isinstance(x, (ast.Attribute, ast.Subscript)) and isinstance(x.value, ast.Await) and bad is None:
                            bad = x
                for st in tr.body:
                    for x in ast.walk(st):
                        if isinstance(x, ast.Name) and isinstance(x.ctx, ast.Load) and x.id in results and bad is None:
                            bad = x
                ctx.check("C17.b.llm-exception-scope", rel, qualname(fn), first_line(tr.body[0], 60), bad is None,
                          "the try whose handler raises LLMCallException contains the provider call only; the completion is consumed outside it" if bad is None else
                          "`%s` (line %d) consumes the completion inside the try that turns every exception into LLMCallException: the dispatcher forwards that exception, so an "
                          "empty or malformed completion raises out of generate() instead of failing the action" % (first_line(bad, 50), bad.lineno), line=tr.lineno)
    ctx.floor("C17.b.llm-exception-scope", UTILS, "try blocks that convert to LLMCallException", n, 2)


def b_fallback_total(ctx):
    """The replacement flow is built from the NAME of the generated flow, which is LLM text too: if the name is what does not parse (`flow _dynamic_x bot respond, nicely`), the
    second parse fails like the first.  Raised from the handler it fails the AddFlowsAction, `$flows` is None, the library flow fails on `len($flows)` and the turn ends with an
    empty reply (F174).  Every parse of generated text in AddFlowsAction is therefore inside a try whose handler does not re-raise."""
    t2 = ctx.tree.ast(RT2)
    add = find_function(t2, "_add_flows_action")
    if add is None:
        raise AnalysisError("_add_flows_action not found", anchor=RT2 + "::_add_flows_action")
    sites = [c for c in walk_no_nested(add) if isinstance(c, ast.Call) and src(c.func) == "parse_colang_file"]
    ctx.floor("C17.b.fallback-total", RT2, "parses of generated text in AddFlowsAction", len(sites), 1)
    for c in sites:
        cov = contained(c, add)
        ok = cov is not None and not handler_reraises(cov[1])
        # (the first parse's handler is where the replacement is parsed: a raise of ColangRuntimeError for text without any flow definition is a deliberate rejection and is
        #  contained by the action machinery; what matters is that no parse of LLM-derived text is left outside every handler)
        ctx.check("C17.b.fallback-total", RT2, qualname(add), first_line(c, 60), ok,
                  "a failure of this parse is handled inside the action" if ok else
                  "`%s` parses text that contains the LLM's flow name outside any handler: a name with punctuation fails here again, the action raises, no flow is added and the turn ends "
                  "without a bot message" % first_line(c, 50), line=c.lineno)


def b_fallback_source(ctx):
    """When generated Colang does not parse, AddFlowsAction parses a REPLACEMENT flow.  That replacement is Colang source again: whatever is pasted into it is
    parsed and its string literals are interpolated when the flow runs.  The parse error's message quotes the offending LLM tokens, so the replacement source
    must not depend on the caught exception."""
    t2 = ctx.tree.ast(RT2)
    add = find_function(t2, "_add_flows_action")
    if add is None:
        raise AnalysisError("_add_flows_action not found", anchor=RT2 + "::_add_flows_action")
    n = 0
    for tr in [x for x in walk_no_nested(add) if isinstance(x, ast.Try)]:
        for h in tr.handlers:
            parses = [c for st in h.body for c in ast.walk(st) if isinstance(c, ast.Call) and src(c.func) == "parse_colang_file"]
            if not parses or not h.name:
                continue
            derived = {h.name}
            changed = True
            while changed:
                changed = False
                for st in h.body:
                    for a in ast.walk(st):
                        if isinstance(a, (ast.Assign, ast.AugAssign, ast.AnnAssign)) and a.value is not None:
                            tg = a.targets[0] if isinstance(a, ast.Assign) else a.target
                            if isinstance(tg, ast.Name) and tg.id not in derived and any(isinstance(x, ast.Name) and x.id in derived for x in ast.walk(a.value)):
                                derived.add(tg.id)
                                changed = True
            for c in parses:
                n += 1
                content = [k.value for k in c.keywords if k.arg == "content"] or list(c.args[1:2])
                used = sorted({x.id for v in content for x in ast.walk(v) if isinstance(x, ast.Name) and x.id in derived})
                ctx.check("C17.b.fallback-source", RT2, qualname(add), first_line(c, 60), not used,
                          "the replacement flow's source does not depend on the caught parse error" if not used else
                          "the replacement flow's source depends on %s, i.e. on the parse error, whose message quotes the offending LLM tokens: `{...}` inside them is evaluated when the "
                          "replacement flow runs, and a failing expression ends the turn with an empty reply" % used, line=c.lineno)
    ctx.floor("C17.b.fallback-source", RT2, "replacement parses in the AddFlowsAction handler", n, 1)
    # the replacement must carry the NAME of the flow that failed to parse (its caller awaits it by name).  Both producers of generated flows put a decorator
    # line before the definition, so the name has to be taken from the line that starts with `flow `, not from a fixed position.
    g2 = ctx.tree.ast(GEN2)
    decorated = [c for c in ast.walk(g2) if isinstance(c, (ast.JoinedStr, ast.Constant)) and "@meta(" in src(c)]
    for tr in [x for x in walk_no_nested(add) if isinstance(x, ast.Try)]:
        for h in tr.handlers:
            if not any(isinstance(c, ast.Call) and src(c.func) == "parse_colang_file" for st in h.body for c in ast.walk(st)):
                continue
            # backward slice inside the handler: the expressions the replacement source is computed from
            assigns = [a for st in h.body for a in ast.walk(st) if isinstance(a, ast.Assign) and isinstance(a.targets[0], ast.Name)]
            pcs = [c for st in h.body for c in ast.walk(st) if isinstance(c, ast.Call) and src(c.func) == "parse_colang_file"]
            work = [k.value for c in pcs for k in c.keywords if k.arg == "content"] + [c.args[1] for c in pcs if len(c.args) > 1]
            chain, seen_names = [], set()
            while work:
                e = work.pop()
                chain.append(e)
                for nm in ast.walk(e):
                    if isinstance(nm, ast.Name) and nm.id not in seen_names:
                        seen_names.add(nm.id)
                        work += [a.value for a in assigns if a.targets[0].id == nm.id]
            txt = "\n".join(src(e) for e in chain)
            by_prefix = bool(re.search(r"startswith\(\s*['\"]flow ", txt) or re.search(r"re\.(search|match|findall)\(\s*r?['\"][^'\"]*flow", txt))
            positional = [a for e in chain for a in ast.walk(e) if isinstance(a, ast.Subscript) and isinstance(a.slice, ast.Constant) and a.slice.value == 0
                          and isinstance(a.value, ast.Call) and isinstance(a.value.func, ast.Attribute) and a.value.func.attr in ("split", "splitlines")
                          and (a.value.func.attr == "splitlines" or (a.value.args[:1] and isinstance(a.value.args[0], ast.Constant) and a.value.args[0].value == "\n"))]
            ok = by_prefix or not (positional and decorated)
            ctx.check("C17.b.fallback-name", RT2, qualname(add), "name of the replacement flow", ok,
                      "the name of the replacement flow is taken from the `flow ...` line of the generated source" if ok else
                      "the replacement flow's name is taken from line 0 of the generated source (`%s`), but every producer of generated flows (%d sites in actions/v2_x/generation.py) puts an "
                      "`@meta(...)` decorator line first: the replacement source is invalid too, AddFlowsAction fails and the turn ends with an empty reply" % (first_line(positional[0], 50), len(decorated)),
                      line=(positional[0].lineno if positional else h.lineno))


def a_utterance_verbatim(ctx):
    """All bot text - LLM text included - reaches the user through the library's utterance flows (`bot say $text` -> `_bot_say $text` ->
    `UtteranceBotAction(script=$text)`).  A Colang string literal is an evaluator: `"{$text}"` splices the value into expression source, where `$name` is
    rewritten, `{{` collapses and a quote can end the literal.  So on the way from the parameter to the action argument the value may be copied, never
    re-embedded in a string literal."""
    n = 0
    # since F75 the interpolation escapes the spliced value completely; re-embedding is then the identity on strings and nothing to report
    total = interpolation_is_total(ctx)
    for rel in (rails.CORE_CO, rails.GUARDRAILS_CO):
        flows = rails.parse_co(ctx.tree, rel)
        for f in flows:
            sinks = []
            for st in f.walk():
                if st.kind in ("await", "call", "start", "assign") and (st.expr or "").startswith("UtteranceBotAction"):
                    m = re.search(r"script\s*=\s*\$(\w+)", st.expr)
                    sinks.append((st, m.group(1) if m else None))
                elif colang2.flow_call_name(st) == "_bot_say":
                    m = re.match(r"^\s*\$(\w+)\s*$", st.args or "")
                    sinks.append((st, m.group(1) if m else None))
            for st, var in sinks:
                n += 1
                if var is None:
                    lit = re.search(r"[\"'][^\"']*\{[^{]", st.expr or st.text or "")
                    ctx.check("C17.a.utterance-verbatim", rel, f.name, st.text, not lit,
                              "the uttered text is not an interpolated string literal" if not lit else "the uttered text is an interpolated string literal", line=st.line)
                    continue
                bad = [] if total else [a for a in f.walk() if a.kind == "assign" and a.target == var and a.op is None and re.search(r"[\"'].*\{\s*\$", a.expr or "")]
                ctx.check("C17.a.utterance-verbatim", rel, f.name, st.text, not bad,
                          "`$%s` reaches the utterance as the value the flow received (no string-literal re-embedding on the way)" % var if not bad else
                          "`%s` re-embeds the text in a string literal before it is uttered: string interpolation splices the value into expression source, so `$name` in an LLM reply "
                          "becomes `var_name`, `{{ }}` collapses to `{ }`, and a backslash-quote sequence makes the literal unparsable (the reply is dropped)" % bad[0].text,
                          line=(bad[0].line if bad else st.line))
    ctx.floor("C17.a.utterance-verbatim", rails.CORE_CO, "utterance sinks in the shipped library", n, 4)


EVAL2 = "nemoguardrails/colang/v2_x/runtime/eval.py"
UTILS2 = "nemoguardrails/colang/v2_x/runtime/utils.py"
LITERAL_META = {"\\": "backslash", "'": "single quote", '"': "double quote", "{": "opening brace", "}": "closing brace", "$": "variable marker `$`"}


def _escaped_chars(fn):
    """Characters a string-escaping helper replaces UNCONDITIONALLY: membership tests against a string constant (`c in "..."`), first arguments of
    `.replace(c, ...)`, keys of dict literals used as replacement maps, and plain character classes of `re.sub` patterns.  A pattern with context
    (`(^|[^\\\\])('|")` - "unless already escaped") is not unconditional and does not count."""
    out = set()
    for n in ast.walk(fn):
        if isinstance(n, ast.Compare) and len(n.ops) == 1 and isinstance(n.ops[0], (ast.In, ast.NotIn)) and isinstance(n.comparators[0], ast.Constant) and isinstance(n.comparators[0].value, str):
            out |= set(n.comparators[0].value)
        if isinstance(n, ast.Compare) and len(n.ops) == 1 and isinstance(n.ops[0], (ast.In, ast.NotIn)) and isinstance(n.comparators[0], (ast.Set, ast.Tuple, ast.List)):
            out |= {e.value for e in n.comparators[0].elts if isinstance(e, ast.Constant) and isinstance(e.value, str) and len(e.value) == 1}
        if isinstance(n, ast.Call) and isinstance(n.func, ast.Attribute) and n.func.attr == "replace" and n.args and isinstance(n.args[0], ast.Constant) \
                and isinstance(n.args[0].value, str) and len(n.args[0].value) == 1:
            out.add(n.args[0].value)
        if isinstance(n, ast.Dict):
            ks = [k.value for k in n.keys if isinstance(k, ast.Constant) and isinstance(k.value, str) and len(k.value) == 1]
            if len(ks) == len(n.keys):
                out |= set(ks)
        if isinstance(n, ast.Call) and src(n.func) == "re.sub" and n.args and isinstance(n.args[0], ast.Constant) and isinstance(n.args[0].value, str):
            m = re.fullmatch(r"\(?\[([^\]\^][^\]]*)\]\)?", n.args[0].value)
            if m:
                body = m.group(1)
                out |= set(re.sub(r"\\(.)", r"\1", body))
            # a negated class (`[^\w\s]`): evaluated on every printable ASCII character (constant evaluation of the literal pattern)
            m = re.fullmatch(r"\(?(\[\^[^\]]+\])\)?[+*]?", n.args[0].value)
            if m and len(n.args) > 1 and isinstance(n.args[1], ast.Constant) and isinstance(n.args[1].value, str):
                try:
                    rx = re.compile(m.group(1))
                    out |= {chr(c) for c in range(33, 127) if rx.fullmatch(chr(c)) and chr(c) not in n.args[1].value}
                except re.error:
                    pass
    return out


def interpolation_is_total(ctx):
    """True when eval_expression escapes every literal/evaluation meta character of a spliced value (shared with C10.e)."""
    t = ctx.tree.ast(EVAL2)
    fn = find_function(t, "eval_expression")
    if fn is None:
        raise AnalysisError("eval_expression not found", anchor=EVAL2 + "::eval_expression")
    loops = [l for l in ast.walk(fn) if isinstance(l, ast.For) and isinstance(l.target, ast.Name) and any(
        isinstance(c, ast.Call) and src(c.func) == "eval_expression" and c.args and src(c.args[0]) == l.target.id for c in ast.walk(l))]
    if not loops:
        return True
    handled = set()
    for c in ast.walk(loops[0]):
        if isinstance(c, ast.Call) and isinstance(c.func, ast.Name) and c.func.id not in ("eval_expression", "str", "repr"):
            hf = find_function(t, c.func.id) or find_function(ctx.tree.ast(UTILS2), c.func.id)
            if hf is not None:
                handled |= _escaped_chars(hf)
    return all(c in handled for c in LITERAL_META)


POST_MODULES = ("nemoguardrails/actions/llm/utils.py", "nemoguardrails/logging/processing_log.py", "nemoguardrails/rails/llm/utils.py")


def b_postprocess_total(ctx):
    """After the events of a turn exist, generate_async post-processes them OUTSIDE any containment (history rendering, log computation, cache key).  The events carry the
    LLM's text (`script`, `text`, `content`), which may be empty, blank or one very long line, so those helpers must not take strings apart with operations that raise on
    an unexpected shape: tuple / starred unpacking of `.split()` / `.splitlines()`, `.splitlines()[k]`, `.split(...)[k]` with k != 0, `.index()` / `.rindex()`."""
    lr = ctx.tree.ast("nemoguardrails/rails/llm/llmrails.py")
    ga = find_function(lr, "generate_async")
    if ga is None:
        raise AnalysisError("generate_async not found", anchor="nemoguardrails/rails/llm/llmrails.py::generate_async")
    names = set()
    for c in walk_no_nested(ga):
        if isinstance(c, ast.Call) and isinstance(c.func, ast.Name) and contained(c, ga) is None:
            names.add(c.func.id)
    n = 0
    for rel in POST_MODULES:
        if not ctx.tree.exists(rel):
            continue
        t = ctx.tree.ast(rel)
        for f in functions(t):
            if f.name not in names or enclosing_function(f) is not None:
                continue
            n += 1
            bad = []
            for x in ast.walk(f):
                def splitcall(e):
                    return isinstance(e, ast.Call) and isinstance(e.func, ast.Attribute) and e.func.attr in ("split", "rsplit", "splitlines")
                if isinstance(x, ast.Assign) and isinstance(x.targets[0], (ast.Tuple, ast.List)) and splitcall(x.value):
                    bad.append(x)
                elif isinstance(x, ast.Subscript) and splitcall(x.value) and not isinstance(x.slice, ast.Slice):
                    k = x.slice.value if isinstance(x.slice, ast.Constant) else None
                    if x.value.func.attr == "splitlines" or k not in (0,):
                        bad.append(x)
                elif isinstance(x, ast.Call) and isinstance(x.func, ast.Attribute) and x.func.attr in ("index", "rindex") and contained(x, f) is None:
                    bad.append(x)
            ctx.check("C17.b.postprocess-total", rel, f.name, "strings of the events are not taken apart by partial operations", not bad,
                      "no operation in this post-processing helper raises on an empty / one-line / odd LLM text" if not bad else
                      "`%s` raises for some texts (an empty or whitespace-only completion has no first line, a text without the separator has no second part): the helper runs after "
                      "the turn, outside any containment, so generate() raises instead of returning the reply" % first_line(bad[0], 70), line=(bad[0].lineno if bad else f.lineno))
    ctx.floor("C17.b.postprocess-total", "nemoguardrails/rails/llm/llmrails.py", "post-processing helpers called uncontained from generate_async", n, 2)


def a_predefined_table(ctx):
    """Predefined bot messages are TEMPLATES: generate_bot_message renders them with Jinja and `$var` substitution and sends them past the output rails.  That is sound only
    while the table holds what the configuration's author wrote.  Who may write it: code that runs when the configuration is loaded - never a function that is (or is
    called from) a function that talks to the LLM, otherwise LLM-written text becomes a template."""
    n = 0
    for rel in (GEN1, GEN2):
        t = ctx.tree.ast(rel)
        fns = {f.name: f for f in functions(t)}
        calls = {name: {c.func.attr if isinstance(c.func, ast.Attribute) else getattr(c.func, "id", None) for c in walk_no_nested(f) if isinstance(c, ast.Call)} for name, f in fns.items()}
        talks = {name for name, f in fns.items() if any(isinstance(c, ast.Call) and (src(c.func).split(".")[-1] in ("llm_call", "_call_llm", "agenerate", "ainvoke")) for c in walk_no_nested(f))}
        # functions from which an LLM-calling function ... calls `name` (transitively): callers closure
        def callers_of(name):
            seen, work = set(), [name]
            while work:
                x = work.pop()
                for g, cs in calls.items():
                    if x in cs and g not in seen:
                        seen.add(g)
                        work.append(g)
            return seen
        for name, f in fns.items():
            stores = [m for m, k, v, site in dict_key_writes(f) if m.endswith("bot_messages")] + \
                [src(a.targets[0].value) for a in walk_no_nested(f) if isinstance(a, ast.Assign) and isinstance(a.targets[0], ast.Subscript) and src(a.targets[0].value).endswith("bot_messages")]
            if not stores:
                continue
            n += 1
            tainted_by = sorted(({name} | callers_of(name)) & talks)
            ctx.check("C17.a.predefined-table", rel, qualname(f), "store into %s" % stores[0], not tainted_by,
                      "the predefined-message table is written at load time only (no LLM-calling function reaches this store)" if not tainted_by else
                      "the predefined-message table is written from %s, which calls the LLM: text written by the LLM becomes a predefined TEMPLATE - generate_bot_message renders it "
                      "(`{{ ... }}` and `$name` in the completion are evaluated against the conversation context) and skips the output rails for it" % tainted_by, line=f.lineno)
    ctx.floor("C17.a.predefined-table", GEN1, "writers of the predefined bot-message table", n, 1)


def a_interpolation_escape(ctx):
    """Colang 2.x string interpolation splices the VALUE of `{expr}` into the source of a string literal that is evaluated afterwards (and on which `{{`-unescaping and the
    `$name` rewrite run).  The value is LLM text whenever a generated value or a bot message is interpolated (`bot say "Nice to meet you, {$name}!"`).  It is data only if the
    splice escapes every character that means something to the literal or to those later passes: backslash, both quotes, both braces and `$`."""
    t = ctx.tree.ast(EVAL2)
    fn = find_function(t, "eval_expression")
    if fn is None:
        raise AnalysisError("eval_expression not found", anchor=EVAL2 + "::eval_expression")
    loops = [l for l in ast.walk(fn) if isinstance(l, ast.For) and isinstance(l.target, ast.Name) and any(
        isinstance(c, ast.Call) and src(c.func) == "eval_expression" and c.args and src(c.args[0]) == l.target.id for c in ast.walk(l))]
    if not loops:
        # no value is evaluated-and-spliced any more (e.g. values bound as names): nothing to escape
        ctx.check("C17.a.interpolation-escape", EVAL2, "eval_expression", "inner expressions", True, "inner expression values are not spliced into expression source", line=fn.lineno)
        return
    lp = loops[0]
    apps = [c for c in ast.walk(lp) if isinstance(c, ast.Call) and isinstance(c.func, ast.Attribute) and c.func.attr == "append" and c.args]
    if not apps:
        raise AnalysisError("eval_expression: collection of inner expression values not recognised", anchor=EVAL2 + "::eval_expression")
    # all helper calls the value passes through between its evaluation and the append
    var = src(apps[-1].args[0]) if isinstance(apps[-1].args[0], ast.Name) else None
    helpers = []
    exprs = [apps[-1].args[0]] + [a.value for a in ast.walk(lp) if isinstance(a, ast.Assign) and var and any(isinstance(t_, ast.Name) and t_.id == var for t_ in a.targets)]
    for e in exprs:
        for c in ast.walk(e):
            if isinstance(c, ast.Call) and isinstance(c.func, ast.Name) and c.func.id not in ("eval_expression", "str", "repr"):
                helpers.append(c.func.id)
    handled = set()
    resolved = []
    for h in helpers:
        hf = find_function(t, h) or find_function(ctx.tree.ast(UTILS2), h)
        if hf is not None:
            resolved.append(h)
            handled |= _escaped_chars(hf)
    missing = [LITERAL_META[c] for c in LITERAL_META if c not in handled]
    ctx.check("C17.a.interpolation-escape", EVAL2, "eval_expression", "escaping of interpolated values", not missing,
              "the spliced value passes through %s, which escapes backslash, quotes, braces and `$` unconditionally: the literal evaluates to the value itself" % resolved if not missing else
              "the value of `{expr}` is spliced into the literal's source through %s, which does not unconditionally escape: %s. An LLM-generated value such as `Bob\"\" + str(7*7) + $api_key #` "
              "leaves the string literal and is evaluated as code (arithmetic executed, flow variables leaked); `{{ }}` and `$name` in plain text are rewritten"
              % (resolved or "no helper", ", ".join(missing)), line=lp.lineno)


def _may_return_none(fn):
    """syntactic: some return yields None (explicitly, bare, through a local that is assigned None, or by falling off the end)"""
    rets = [r for r in walk_no_nested(fn) if isinstance(r, ast.Return)]
    for r in rets:
        if r.value is None or (isinstance(r.value, ast.Constant) and r.value.value is None):
            return True
        if isinstance(r.value, ast.Name):
            for a in walk_no_nested(fn):
                if isinstance(a, (ast.Assign, ast.AnnAssign)) and a.value is not None:
                    tg = a.targets if isinstance(a, ast.Assign) else [a.target]
                    if any(isinstance(t_, ast.Name) and t_.id == r.value.id for t_ in tg) and isinstance(a.value, ast.Constant) and a.value.value is None:
                        return True
        elif not isinstance(r.value, (ast.Constant, ast.JoinedStr, ast.List, ast.Dict, ast.Tuple, ast.BinOp)):
            return True     # a call / attribute / subscript: unknown, may be None
    last = fn.body[-1]
    if not isinstance(last, (ast.Return, ast.Raise)):
        return True
    return False


STREAMING = "nemoguardrails/streaming.py"


def g_waiter_woken_at_end(ctx):
    """Single call + streaming: generate_user_intent starts the LLM call in a task and awaits `wait_top_k_nonempty_lines(k=2)`, i.e. the event `top_k_nonempty_lines_event`.
    While the handler buffers, that event is set only once MORE than k non-empty lines have arrived.  An LLM answer with fewer lines (no bot message line, an empty answer) must
    therefore set it when the call ENDS - otherwise the turn never completes (F146).  Decided: with `self.enable_buffer` true, every path through on_llm_end sets the event."""
    from ..source import find_class
    t = ctx.tree.ast(STREAMING)
    cls = find_class(t, "StreamingHandler")
    end = next((f for f in (cls.body if cls else []) if isinstance(f, (ast.AsyncFunctionDef, ast.FunctionDef)) and f.name == "on_llm_end"), None)
    waiter = next((f for f in (cls.body if cls else []) if isinstance(f, (ast.AsyncFunctionDef, ast.FunctionDef)) and f.name == "wait_top_k_nonempty_lines"), None)
    if end is None or waiter is None:
        raise AnalysisError("StreamingHandler.on_llm_end / wait_top_k_nonempty_lines not found", anchor=STREAMING + "::StreamingHandler.on_llm_end")
    ev = [src(c.func.value.value) for c in ast.walk(waiter) if isinstance(c, ast.Call) and isinstance(c.func, ast.Attribute) and c.func.attr == "wait" and isinstance(c.func.value, ast.Attribute)]
    if not ev:
        raise AnalysisError("wait_top_k_nonempty_lines no longer waits on an event", anchor=STREAMING + "::StreamingHandler.wait_top_k_nonempty_lines")
    evname = ev[0] + "." + [c.func.value.attr for c in ast.walk(waiter) if isinstance(c, ast.Call) and isinstance(c.func, ast.Attribute) and c.func.attr == "wait" and isinstance(c.func.value, ast.Attribute)][0]
    cfg = CFG(end)
    sets = [n for n in cfg.nodes if n.ast is not None and any(isinstance(c, ast.Call) and src(c.func) == evname + ".set" for c in walk_no_nested(n.ast))]
    facts = {"self.enable_buffer": True}
    seen, stack = set(), [cfg.entry]
    while stack:
        x = stack.pop()
        if x in seen or x in sets or x is cfg.raise_exit:
            continue
        seen.add(x)
        tv = cond_truth(x.ast, facts) if x.kind == "test" and isinstance(x.ast, ast.expr) else None
        stack.extend(m for m, lab in x.succ if not (tv is not None and lab in (True, False) and lab is not tv))
    ok = cfg.exit not in seen
    ctx.check("C17.g.waiter-woken-at-end", STREAMING, "StreamingHandler.on_llm_end", "end of the LLM call wakes the waiter for the first lines", ok,
              "while buffering, every path through on_llm_end sets `%s`" % evname if ok else
              "while the handler buffers, on_llm_end can return without setting `%s`: an LLM answer with at most k non-empty lines (no bot message line, an empty completion) leaves "
              "wait_top_k_nonempty_lines - and with it generate_async - waiting for ever" % evname, line=end.lineno)


def b_event_limit_ends_turn(ctx):
    """Nothing between RuntimeV1_0.generate_events and LLMRails.generate catches an exception, so a `raise` in the event loop is a `generate` that raises.  What the LLM wrote
    decides how many events a turn takes (multi-step generation: a generated flow of nine `bot ...` steps, a label/goto loop): the event limit must END the turn with a message,
    not raise (F151)."""
    RT1_ = "nemoguardrails/colang/v1_0/runtime/runtime.py"
    t = ctx.tree.ast(RT1_)
    fn = find_function(t, "generate_events", "RuntimeV1_0")
    if fn is None:
        raise AnalysisError("RuntimeV1_0.generate_events not found", anchor=RT1_ + "::RuntimeV1_0.generate_events")
    loops = [l for l in walk_no_nested(fn) if isinstance(l, ast.While)]
    ctx.floor("C17.b.event-limit-ends-turn", RT1_, "event loop of generate_events", len(loops), 1)
    raises = [r for l in loops for r in ast.walk(l) if isinstance(r, ast.Raise) and contained(r, fn) is None]
    limits = [i for l in loops for i in ast.walk(l) if isinstance(i, ast.If) and "len(new_events)" in src(i.test)]
    ok = bool(limits) and not raises
    ctx.check("C17.b.event-limit-ends-turn", RT1_, "RuntimeV1_0.generate_events", "the event loop does not raise", ok,
              "the event limit ends the turn (internal error message, Listen); the loop contains no uncaught raise" if ok else
              "`%s` inside the event loop escapes from generate: an LLM-generated flow of nine valid `bot ...` steps (or a label/goto loop) makes generate raise 'Too many events.' "
              "instead of completing the turn" % (first_line(raises[0], 60) if raises else "no event limit"), line=(raises[0].lineno if raises else fn.lineno))


UTILS1 = "nemoguardrails/actions/llm/utils.py"


def c_generated_flow_name(ctx):
    """Colang 2.x LLM continuation: the generated flow is registered by the PARSER under the name it reads from `flow <name>`, and started by the name the ACTION returns.
    Both come from the LLM's bot intent through escape_flow_name.  Whatever the parser reads differently from plain name characters must be removed there: `$word` becomes a
    parameter, `#` starts a comment, surplus blanks are dropped - the returned name is then undefined, `continuation on undefined flow` asks the LLM for that name again and
    again (~80 calls), the reply is empty and the conversation stays dead (F152)."""
    t = ctx.tree.ast(UTILS1)
    fn = find_function(t, "escape_flow_name")
    if fn is None:
        raise AnalysisError("escape_flow_name not found", anchor=UTILS1 + "::escape_flow_name")
    removed = _escaped_chars(fn)
    collapses = any(isinstance(c, ast.Call) and isinstance(c.func, ast.Attribute) and c.func.attr == "split" and not c.args for c in ast.walk(fn)) or \
        any(isinstance(c, ast.Call) and src(c.func) == "re.sub" and c.args and isinstance(c.args[0], ast.Constant) and re.search(r"\\s[+*]|\[ \\t\]\+| \+|\\s\{2", str(c.args[0].value)) for c in ast.walk(fn))
    # `$` and `#` change what the parser registers (F152); every other punctuation character makes the `flow <name>` line unparsable (F174) - the name consists of NAME tokens
    import string
    missing = [ch for ch in "$#" + "".join(c for c in string.punctuation if c not in "$#_") if ch not in removed]
    ok = not missing and collapses
    ctx.check("C17.c.generated-flow-name", UTILS1, "escape_flow_name", "characters the parser does not read as part of a flow name", ok,
              "every punctuation character (`$`, `#`, `,`, `.`, `?` ...) is removed and white space is collapsed: the name the action returns is the name the parser registers" if ok else
              "escape_flow_name keeps %s%s: a bot intent like `bot tell $joke` / `bot give  answer` is registered under a different name than the one that is started (the undefined "
              "flow is regenerated until the event budget is exhausted), one like `bot respond, nicely` / `bot ask how are you?` gives a `flow` line that does not parse (the fallback of "
              "AddFlowsAction reads the same name, fails as well, and the turn ends without a bot message)"
              % (" ".join("`%s`" % m for m in missing[:12]) or "", (" and " if missing else "") + ("surplus white space" if not collapses else "")), line=fn.lineno)


def b_dynamic_load_contained(ctx):
    """Multi-step generation: the LLM's text becomes a flow in _process_start_flow.  Parsing it is guarded (fallback: `bot general response`); REGISTERING the parsed flow also
    depends on what the LLM wrote (`execute create_event` without its parameter: KeyError while the trigger types are computed) and must be under the same fallback (F153)."""
    RT1_ = "nemoguardrails/colang/v1_0/runtime/runtime.py"
    t = ctx.tree.ast(RT1_)
    fn = find_function(t, "_process_start_flow", "RuntimeV1_0")
    if fn is None:
        raise AnalysisError("RuntimeV1_0._process_start_flow not found", anchor=RT1_ + "::RuntimeV1_0._process_start_flow")
    sites = [c for c in walk_no_nested(fn) if isinstance(c, ast.Call) and src(c.func) in ("self._load_flow_config", "parse_colang_file")]
    ctx.floor("C17.b.dynamic-load-contained", RT1_, "parse / registration of the LLM generated flow", len(sites), 2)
    for c in sites:
        cov = contained(c, fn)
        ok = cov is not None and not handler_reraises(cov[1]) and any(isinstance(r, ast.Return) for st in cov[1].body for r in ast.walk(st))
        ctx.check("C17.b.dynamic-load-contained", RT1_, "RuntimeV1_0._process_start_flow", first_line(c, 60), ok,
                  "a failure falls back to the general response" if ok else
                  "`%s` runs outside the try that falls back to the general response: LLM text that parses but cannot be registered (e.g. `execute create_event` without "
                  "parameters) raises out of generate" % first_line(c, 50), line=c.lineno)


def b_guards_live(ctx):
    """`x = helper(llm_text)` ... `if x is None: raise LlmResponseError` is how the generation actions reject a completion that lacks the expected part.  The guard only
    works if the helper can return None; a helper that returns "" instead lets the malformed completion through (contradiction between callee and call site)."""
    ut = ctx.tree.ast(UTILS)
    n = 0
    for rel in (GEN1, GEN2):
        t = ctx.tree.ast(rel)
        for fn in functions(t):
            for g in [x for x in walk_no_nested(fn) if isinstance(x, ast.If)]:
                te = g.test
                if not (isinstance(te, ast.Compare) and len(te.ops) == 1 and isinstance(te.ops[0], ast.Is) and isinstance(te.left, ast.Name)
                        and isinstance(te.comparators[0], ast.Constant) and te.comparators[0].value is None):
                    continue
                if not any(isinstance(r, ast.Raise) for st in g.body for r in ast.walk(st)):
                    continue
                var = te.left.id
                defs = [a for a in walk_no_nested(fn) if isinstance(a, ast.Assign) and a.lineno < g.lineno and any(isinstance(t_, ast.Name) and t_.id == var for t_ in a.targets)]
                if not defs:
                    continue
                d = defs[-1]
                if not (isinstance(d.value, ast.Call) and isinstance(d.value.func, ast.Name)):
                    continue
                callee = find_function(ut, d.value.func.id) or find_function(t, d.value.func.id)
                if callee is None:
                    continue
                n += 1
                live = _may_return_none(callee)
                ctx.check("C17.b.guard-live", rel, qualname(fn), "result of %s() tested `is None` to reject the completion" % callee.name, live,
                          "`%s` can return None, so the rejection of a completion without that part is reachable" % callee.name if live else
                          "`%s` never returns None (it returns an empty string when the part is missing), so `%s` is dead: a completion without that part is not rejected, an empty flow body is "
                          "generated, it does not parse, and the turn ends with an empty reply" % (callee.name, first_line(g, 40)), line=g.lineno)
    ctx.floor("C17.b.guard-live", GEN2, "`is None` rejections of helper results in the generation actions", n, 2)


SLIDING1 = "nemoguardrails/colang/v1_0/runtime/sliding.py"


def b_dynamic_flow_bounded(ctx):
    """Multi-step generation turns LLM text into a Colang 1.0 flow and runs it.  The text may contain `while`, `goto`/`label`; slide() follows jumps and evaluates
    conditions in a `while True` loop that emits no event, so the event budget of generate_events never sees it.  generate() terminates for every completion only if the
    generated flow cannot loop (rejected before it is started) or slide() itself has a step budget."""
    gen = ctx.tree.ast(GEN1)
    emits = [c for c in ast.walk(gen) if isinstance(c, ast.Call) and src(c.func) == "new_event_dict" and c.args and isinstance(c.args[0], ast.Constant) and c.args[0].value == "start_flow"]
    if not emits:
        ctx.check("C17.b.dynamic-flow-bounded", GEN1, "generate_next_step", "start_flow emission", True, "no LLM-derived flow is started any more", line=1)
        return
    sl = ctx.tree.ast(SLIDING1)
    slide = find_function(sl, "slide")
    if slide is None:
        raise AnalysisError("v1 slide not found", anchor=SLIDING1 + "::slide")
    loops = [w for w in walk_no_nested(slide) if isinstance(w, ast.While) and isinstance(w.test, ast.Constant) and w.test.value is True]
    budget = False
    for w in loops:
        # a counter incremented in the loop and compared in a test that raises / breaks / returns
        # (a step counter: `n += 1` as a statement of the loop body itself - the head index, advanced conditionally by jump distances, is not one)
        incs = {src(a.target) for a in w.body if isinstance(a, ast.AugAssign) and isinstance(a.op, ast.Add) and isinstance(a.value, ast.Constant) and a.value.value == 1}
        for i_ in ast.walk(w):
            if isinstance(i_, ast.If) and any(v in src(i_.test) for v in incs) and any(isinstance(x, (ast.Raise, ast.Break, ast.Return)) for st in i_.body for x in ast.walk(st)) \
                    and any(isinstance(o, (ast.Gt, ast.GtE, ast.Lt, ast.LtE)) for c in ast.walk(i_.test) if isinstance(c, ast.Compare) for o in c.ops):
                budget = True
    bounded_loops = not loops or budget
    # or: the generation action rejects looping constructs in the generated text
    fn = None
    for f in functions(gen):
        if f.name == "generate_next_step":
            fn = f
    rejects = fn is not None and any(isinstance(c, ast.Constant) and isinstance(c.value, str) and c.value.strip() in ("while", "goto", "while True") for c in ast.walk(fn))
    ok = bounded_loops or rejects
    ctx.check("C17.b.dynamic-flow-bounded", SLIDING1, "slide", "`while True` over the elements of an LLM-generated flow", ok,
              "the interpreter loop that runs generated flows has a step budget (or looping constructs are rejected before the flow is started)" if ok else
              "generate_next_step starts the LLM's text as a flow after checking only that it parses; slide() then follows its jumps in `while True` (%d loop(s)) without any step budget and "
              "without producing events: a completion such as `while True` / `$i = 1`, or `label again` / `goto again`, makes generate() spin forever" % len(loops),
              line=(loops[0].lineno if loops else slide.lineno))
