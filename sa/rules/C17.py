"""C17 - Arbitrary LLM output never breaks a turn and is treated as data."""
import ast
import re

from ..pycalls import CallGraph
from ..pycfg import CFG, walk_no_nested, contained, handler_reraises, enclosing_trys, broad_handler
from ..pyflow import Taint
from ..source import AnalysisError, find_function, first_line, src, functions, qualname, enclosing_function
from . import C13

GEN1 = "nemoguardrails/actions/llm/generation.py"
GEN2 = "nemoguardrails/actions/v2_x/generation.py"
UTILS = "nemoguardrails/actions/llm/utils.py"
PARSERS = "nemoguardrails/llm/output_parsers.py"
RT1 = "nemoguardrails/colang/v1_0/runtime/runtime.py"
RT2 = "nemoguardrails/colang/v2_x/runtime/runtime.py"
TAINT_MODULES = [GEN1, GEN2, UTILS, PARSERS]
# evaluators: template / expression / code evaluation
SINKS = {"_render_string", "from_string", "Template", "eval_expression", "eval", "exec", "compile", "literal_eval"}
# literal_eval (data-only evaluation) is permitted for generated *values* only
LITERAL_EVAL_ALLOWED = {(GEN1, "LLMGenerationActions.generate_value"), (GEN2, "LLMGenerationActionsV2dotx.generate_value")}


def run(ctx):
    ctx.explanation = ("C17: forward taint analysis from every LLM completion to template/expression/code evaluators (LLM text is data, never evaluated), "
                       "and containment of every consumer of LLM text: post-processing happens inside @action functions (contained by the dispatcher, C03.a), "
                       "and the consumers outside actions are total.")
    ctx.decided = ["a: no value derived from llm_call(...) / streaming wait*() reaches _render_string, Environment.from_string, Template, eval_expression, eval, exec or compile; literal_eval only in the generate_value actions",
                   "b1: every function that consumes an LLM completion is an @action (so C03.a turns its exceptions into the internal-error reply)",
                   "b2: the v1 runtime parses the LLM-derived dynamic flow inside try/except Exception (with the flow-count check) and falls back",
                   "b3: the v2 AddFlowsAction is registered as an action and its error handler is total"]
    ctx.not_decided = ["that every hostile text yields a well-formed reply beyond the containment argument",
                       "Colang 2 flow generation: LLM text deliberately becomes flow source (AddFlowsAction) - outside clause a, stated as such"]
    a_taint(ctx)
    b_containment(ctx)


def _is_source(c):
    f = src(c.func).split(".")[-1]
    return f == "llm_call" or (f.startswith("wait") and isinstance(c.func, ast.Attribute) and "handler" in src(c.func.value).lower())


def a_taint(ctx):
    n_sources = 0
    n_sinks = 0
    for rel in TAINT_MODULES:
        t = ctx.tree.ast(rel)
        for fn in functions(t):
            calls = [c for c in walk_no_nested(fn) if isinstance(c, ast.Call)]
            srcs = [c for c in calls if _is_source(c)]
            n_sources += len(srcs)
            sinks = [c for c in calls if src(c.func).split(".")[-1] in SINKS]
            if not sinks:
                continue
            cfg = CFG(fn)
            # parameters of helper functions that receive LLM text from their callers are treated as tainted
            params = []
            if not srcs and rel in (UTILS, PARSERS):
                params = [a.arg for a in fn.args.args if a.arg not in ("self", "cls")]
            tn = Taint(cfg, _is_source, tainted_params=params)
            for c in sinks:
                n_sinks += 1
                node = cfg.node_of(c)
                f = src(c.func).split(".")[-1]
                targs = [first_line(a, 40) for a in list(c.args) + [k.value for k in c.keywords] if tn.tainted_at(node, a)]
                q = qualname(fn)
                if f == "literal_eval":
                    ok = (rel, q) in LITERAL_EVAL_ALLOWED
                    ctx.check("C17.a.literal-eval", rel, q, first_line(c), ok,
                              "literal_eval (data-only) is used on generated text only in the generate_value actions" if ok else
                              "literal_eval on LLM text outside the generate_value actions", line=c.lineno)
                    continue
                ctx.check("C17.a.taint", rel, q, first_line(c), not targs,
                          "evaluator `%s` receives no LLM-derived value" % f if not targs else
                          "LLM-derived value(s) %s reach the evaluator `%s`: template/expression syntax produced by the LLM would be evaluated instead of passed through literally" % (targs, f),
                          line=c.lineno)
    ctx.stat("llm_sources", n_sources)
    ctx.stat("evaluator_call_sites", n_sinks)
    ctx.floor("C17.a.taint", GEN1, "LLM completion sources (llm_call / streaming wait)", n_sources, 15)
    ctx.floor("C17.a.taint", GEN1, "evaluator call sites in the generation modules", n_sinks, 5)
    # positive example: the analysis itself must see a planted flow
    sample = ast.parse("async def f(self, llm, p):\n    r = await llm_call(llm, p)\n    t = r.strip().split('\\n')[0]\n    return self._render_string(f'x {t}', {})\n")
    for n in ast.walk(sample):
        for ch in ast.iter_child_nodes(n):
            ch._parent = n
    fn = sample.body[0]
    cfg = CFG(fn)
    tn = Taint(cfg, _is_source)
    c = [x for x in ast.walk(fn) if isinstance(x, ast.Call) and src(x.func).endswith("_render_string")][0]
    if not tn.tainted_at(cfg.node_of(c), c.args[0]):
        raise AnalysisError("taint engine self-test failed", anchor="C17.a/self-test")


def b_containment(ctx):
    # b1: consumers of LLM completions are actions
    n = 0
    for rel in (GEN1, GEN2) + tuple(ctx.tree.glob("nemoguardrails/library", ("actions.py",))):
        t = ctx.tree.ast(rel)
        for fn in functions(t):
            if not any(isinstance(c, ast.Call) and src(c.func).split(".")[-1] == "llm_call" for c in walk_no_nested(fn)):
                continue
            n += 1
            is_action = any(src(d).startswith("action") for d in fn.decorator_list)
            helper_ok = False
            if not is_action:
                # private helper called only from @action functions of the same module
                callers = [f for f in functions(t) if f is not fn and any(isinstance(c, ast.Call) and src(c.func).split(".")[-1] == fn.name for c in walk_no_nested(f))]
                helper_ok = bool(callers) and all(any(src(d).startswith("action") for d in f.decorator_list) for f in callers)
            ctx.check("C17.b.consumers-are-actions", rel, qualname(fn), "def %s" % fn.name, is_action or helper_ok,
                      "post-processes an LLM completion inside an @action (its exceptions are contained by the dispatcher, C03.a)" if is_action or helper_ok else
                      "consumes an LLM completion but is not an @action (nor a helper called only from actions): an IndexError/ValueError on malformed output is not converted into the internal-error reply",
                      line=fn.lineno)
    ctx.floor("C17.b.consumers-are-actions", GEN1, "functions consuming LLM completions", n, 20)
    # b2: v1 runtime: dynamic flow parse
    t = ctx.tree.ast(RT1)
    fn = find_function(t, "_process_start_flow")
    if fn is None:
        raise AnalysisError("_process_start_flow not found", anchor=RT1 + "::_process_start_flow")
    parses = [c for c in walk_no_nested(fn) if isinstance(c, ast.Call) and src(c.func) == "parse_colang_file"]
    ctx.floor("C17.b.dynamic-flow", RT1, "parse of the LLM-derived flow body", len(parses), 1)
    for c in parses:
        cov = contained(c, fn)
        ok = cov is not None and not handler_reraises(cov[1])
        msg = "the LLM-derived flow body is parsed inside try/except Exception with a fallback" if ok else \
            "the LLM-derived flow body (wrapped in a flow definition, i.e. NOT the text the action validated) is parsed without try/except: malformed generated Colang raises out of the runtime and generate() fails"
        ctx.check("C17.b.dynamic-flow", RT1, qualname(fn), first_line(c), ok, msg, line=c.lineno)
        if ok:
            tr, h = cov
            # the flow-count check must be under the same protection
            asserts = [a for a in walk_no_nested(fn) if isinstance(a, ast.Assert) or (isinstance(a, ast.Subscript) and "flows" in src(a) and src(a.slice) == "0")]
            for a in asserts:
                inside = any(t_ is tr and part == "body" for t_, part in enclosing_trys(a, fn))
                if isinstance(a, ast.Assert):
                    ctx.check("C17.b.dynamic-flow", RT1, qualname(fn), first_line(a), inside,
                              "the check that exactly one flow was parsed is inside the same try" if inside else
                              "`%s` is outside the try: generated text that parses to zero/two flows raises AssertionError out of the runtime" % first_line(a), line=a.lineno)
            falls = [s for s in h.body if isinstance(s, ast.Return)]
            ctx.check("C17.b.dynamic-flow", RT1, qualname(fn), "fallback", bool(falls) and "BotIntent" in src(falls[0]),
                      "the handler falls back to a bot intent (general response) instead of failing the turn", line=h.lineno)
    # b3: v2 AddFlowsAction
    t2 = ctx.tree.ast(RT2)
    add = find_function(t2, "_add_flows_action")
    if add is None:
        raise AnalysisError("_add_flows_action not found", anchor=RT2 + "::_add_flows_action")
    reg = [c for c in ast.walk(t2) if isinstance(c, ast.Call) and src(c.func).endswith("register_action") and c.args and src(c.args[0]) == "self._add_flows_action"]
    ctx.check("C17.b.add-flows", RT2, "RuntimeV2_x.__init__", "AddFlowsAction registered", len(reg) == 1,
              "the flow-adding code runs as a registered action, i.e. under the dispatcher's exception containment", line=add.lineno)
    parses = [c for c in walk_no_nested(add) if isinstance(c, ast.Call) and src(c.func) == "parse_colang_file"]
    first = min(parses, key=lambda c: c.lineno) if parses else None
    cov = contained(first, add) if first is not None else None
    ctx.check("C17.b.add-flows", RT2, qualname(add), "generated code parsed under try", cov is not None,
              "generated Colang code is parsed inside try/except Exception with a replacement flow", line=(first.lineno if first else add.lineno))
    if cov is not None and cov[1].name:
        cg = CallGraph(ctx.tree, [RT2])
        before = len(ctx.obligations)
        C13._handler_totality(ctx, cg, RT2, add, cov[1])
        for o in ctx.obligations[before:]:
            o.rule = o.rule.replace("C13.a.handler-total", "C17.b.handler-total")
