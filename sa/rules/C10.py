"""C10 - Event processing terminates and a faulty flow fails alone (isolation clause only)."""
import ast
import re

from ..pycalls import CallGraph
from ..pycfg import CFG, contained, walk_no_nested, handler_reraises, broad_handler
from ..source import AnalysisError, find_function, first_line, src, functions, qualname

SM = "nemoguardrails/colang/v2_x/runtime/statemachine.py"
EV = "nemoguardrails/colang/v2_x/runtime/eval.py"
RT = "nemoguardrails/colang/v2_x/runtime/runtime.py"

# Frontier edges (caller -> callee) confirmed *benign by reading and by experiment*
# (findings/demo_F8.py): an edge here is uncovered by the per-flow try but cannot raise for
# the stated reason.  Everything else that is uncovered is a violation unless it is a
# demonstrated known finding.
BENIGN = {
    ("_create_event_reference", "get_event_from_element"):
        "re-evaluates the match element that _compute_event_matching_score evaluated successfully for this head in the same iteration",
    ("_add_head_to_event_matching_structures", "get_event_name_from_element"):
        "the DIRECT calls of the index callback (_flow_head_changed in add_new_flow_instance / the restart in _finish_flow) register a head at position 0, i.e. on the generated "
        "`match StartFlow(flow_id=<literal>)`; every other activation of the callback goes through a store to `head.position`, decided by C10.a.position-stores",
}


def run(ctx):
    ctx.explanation = ("C10 (isolation clause): call-graph rule that every path from run_to_completion to an expression evaluator passes a try/except whose "
                       "handler fails only the flow at hand, plus the API-level conversion in process_events. Termination is NOT decided.")
    ctx.decided = ["a: every call edge from the uncontained event loop into an evaluator-reaching function is inside the per-flow try, or is a triaged table entry",
                   "a': the per-flow handler emits ColangError, marks only this flow aborted and does not re-raise",
                   "b: process_events wraps every run_to_completion call in try/except Exception that produces a ColangError event; the handler cannot raise"]
    ctx.decided += ["c: the two guards that keep an activated flow from restarting forever inside one event (instance ends before it ever waited): finish case and failure case",
                    "d: the max_events cap of process_events counts cumulatively over all batches of one call",
                    "e: library flows that handle ColangError escape the error text they interpolate (a handler that fails on its own error re-triggers itself)"]
    ctx.not_decided = ["termination within a bound depending on program size in general (no ranking argument in reach of this family); only the named guards are decided"]
    a_containment(ctx)
    a_benign_premise(ctx)
    a_emission_contained(ctx)
    a_position_stores(ctx)
    b_api(ctx)
    c_restart_guards(ctx)
    c_restart_progress(ctx)
    c_error_before_restart(ctx)
    d_event_cap(ctx)
    e_error_handler_flows(ctx)
    a_typed_stores(ctx)
    c_restart_once(ctx)
    from . import C06
    C06.d_cleanup_keeps_reference(ctx, ctx.tree.ast(SM), rule="C10.a.cleanup-keeps-reference")


def leaf_sites(fn):
    out = []
    for n in walk_no_nested(fn):
        if isinstance(n, ast.Call) and src(n.func).split(".")[-1] == "eval_expression" and contained(n, fn) is None:
            out.append(n)
        if isinstance(n, ast.Raise) and n.exc is not None and contained(n, fn) is None and "Colang" in src(n.exc):
            out.append(n)
    return out


def a_containment(ctx):
    t = ctx.tree.ast(SM)
    root = find_function(t, "run_to_completion")
    if root is None:
        raise AnalysisError("run_to_completion not found", anchor=SM + "::run_to_completion")
    cg = CallGraph(ctx.tree, [SM])
    U = {}
    edges = []
    stack = [(SM, "run_to_completion", root)]
    while stack:
        rel, q, fn = stack.pop()
        if (rel, q) in U:
            continue
        U[(rel, q)] = fn
        for call, tgt in cg.callees(rel, fn):
            if tgt is None:
                continue
            cov = contained(call, fn)
            if cov is not None and handler_reraises(cov[1]):
                cov = None  # a handler that converts and re-raises contains nothing
            if rel != SM:
                continue  # the evaluator module itself is the sink, not part of the loop
            edges.append(((rel, q), (tgt[0], tgt[1]), cov, call))
            if cov is None and (tgt[0], tgt[1]) not in U and tgt[0] == SM:
                stack.append(tgt)
    ctx.stat("uncovered_reachable_functions", len(U))
    ctx.stat("call_edges", len(edges))
    ctx.stat("calls_resolved", cg.resolved)
    ctx.stat("calls_unresolved_external", cg.unresolved)
    EVF = {k for k, fn in U.items() if leaf_sites(fn)} | {(EV, "eval_expression")}
    ctx.stat("evaluator_functions", sorted(q for _, q in EVF))
    ctx.floor("C10.a.containment", SM, "functions with a direct evaluator / raise Colang...Error site reachable from the loop", len(EVF), 4)
    # all functions with leaf sites anywhere in statemachine (covered ones too) for the covered-edge count
    ALL_EV = {(SM, qualname(f)) for f in functions(t) if leaf_sites(f)} | {(EV, "eval_expression")}
    covered = [(a, b, cov, call) for a, b, cov, call in edges if cov is not None and b in ALL_EV and a in U]
    ctx.floor("C10.a.covered", SM, "evaluator calls inside a per-flow try", len(covered), 1, ["%s->%s" % (a[1], b[1]) for a, b, _, _ in covered])
    for a, b, cov, call in covered:
        tr, h = cov
        fn = U[a]
        ok, why = _handler_fails_only_flow(fn, tr, h)
        ctx.check("C10.a.handler", a[0], a[1], "try around %s" % first_line(call, 60), ok, why, line=tr.lineno)
    seen = set()
    for a, b, cov, call in sorted(edges, key=lambda e: e[3].lineno):
        if cov is not None or b not in EVF or a in EVF or a not in U:
            continue
        key = (a[1], b[1])
        construct = "%s -> %s" % key
        if key in seen:
            continue
        seen.add(key)
        # a helper extracted from a function whose only uncovered use is benign inherits the reason (same evaluation, one call deeper)
        inherited = None
        if key not in BENIGN:
            callers = [(x[1], y[1]) for x, y, cov_, _ in edges if y == a and cov_ is None]
            if callers and all(k in BENIGN for k in callers):
                inherited = BENIGN[callers[0]]
        if key in BENIGN or inherited:
            ctx.check("C10.a.benign", a[0], a[1], construct, True, "uncovered but benign: " + (BENIGN.get(key) or inherited), line=call.lineno)
        else:
            ctx.check("C10.a.containment", a[0], a[1], construct, False,
                      "call edge %s (line %d) reaches an expression evaluator outside the per-flow try/except of _advance_head_front: a runtime error in ONE flow's "
                      "expression raises out of run_to_completion, so unrelated flows do not receive the event" % (construct, call.lineno), line=call.lineno)
    # direct leaf sites in skeleton functions are reported by their own function as edge f -> <evaluator>
    stale = [k for k in BENIGN if k not in seen]
    for k in stale:
        ctx.note("C10.a: benign table entry %s -> %s no longer matches an uncovered edge" % k)


def a_benign_premise(ctx):
    """Two benign entries of the frontier table rest on one premise: the `send` element that _resolve_action_conflicts re-evaluates outside the per-flow try was already
    evaluated IN FULL by slide(), under the try, before the head stopped on it (so the second evaluation cannot be the first to fail).  Decided here: in slide(), every
    path from the `send` test to the exit that parks the head on an action event passes a call of get_event_from_element for that element."""
    t = ctx.tree.ast(SM)
    fn = find_function(t, "slide")
    if fn is None:
        raise AnalysisError("slide not found", anchor=SM + "::slide")
    sends = [i for i in walk_no_nested(fn) if isinstance(i, ast.If) and any(
        isinstance(c, ast.Compare) and len(c.ops) == 1 and isinstance(c.ops[0], ast.Eq) and isinstance(c.left, ast.Attribute) and c.left.attr == "op"
        and isinstance(c.comparators[0], ast.Constant) and c.comparators[0].value == "send" for c in ast.walk(i.test))]
    ctx.floor("C10.a.benign-premise", SM, "`send` branch of slide()", len(sends), 1)
    if not sends:
        return
    cfg = CFG(fn)
    for i in sends:
        test = cfg.node_of(i.test) or cfg.node_of(i)
        first = [m for m, lab in test.succ if lab is True] if test is not None else []
        full = [n for n in cfg.nodes if n.ast is not None and n.line and i.body[0].lineno <= n.line <= getattr(i.body[-1], "end_lineno", i.body[-1].lineno)
                and any(isinstance(c, ast.Call) and src(c.func) == "get_event_from_element" for c in walk_no_nested(n.ast))]
        stops = [n for n in cfg.nodes if n.kind == "stmt" and isinstance(n.ast, (ast.Break, ast.Return)) and any(n.ast is x for b in i.body for x in ast.walk(b))]
        bad = [st for st in stops if not (first and full and all(cfg.must_pass(f_, st, full, include_a=True) for f_ in first))]
        ok = bool(stops) and not bad
        ctx.check("C10.a.benign-premise", SM, "slide", "send element evaluated in full before the head stops on it", ok,
                  "slide() builds the complete event of a `send` element (all argument expressions) inside the per-flow try before it parks the head: the later re-evaluation in "
                  "_resolve_action_conflicts cannot be the first one to fail" if ok else
                  "slide() parks the head on a `send` element (line %d) without having evaluated its arguments: they are evaluated for the first time in _resolve_action_conflicts / "
                  "_generate_action_event_from_actionable_element, outside the per-flow try - a faulty argument (`send Ev(x=$undefined.attr)`) raises out of run_to_completion and the "
                  "other flows lose the event" % (bad[0].line if bad else i.lineno), line=(bad[0].line if bad else i.lineno))


def a_emission_contained(ctx):
    """Creating the action event of an actionable head can fail for a reason of the flow's own making - the arguments do not form a valid event (`bot say 42`: the event
    validation asserts a string).  That happens when action conflicts are resolved, outside the per-flow try of _advance_head_front; uncontained, the exception leaves
    run_to_completion mid-round and heads of OTHER flows stay parked on their `send` statement (F111).  Every call of the emitter is inside a try that fails only that flow."""
    t = ctx.tree.ast(SM)
    EMIT = "_generate_action_event_from_actionable_element"
    sites = [(fn, c) for fn in functions(t) for c in walk_no_nested(fn) if isinstance(c, ast.Call) and src(c.func) == EMIT]
    ctx.floor("C10.a.emission-contained", SM, "calls of the action event emitter", len(sites), 1)
    for fn, c in sites:
        cov = contained(c, fn)
        ok, why = False, "the call is outside any try/except: an invalid action event raises out of run_to_completion and unrelated flows stay on their send statement"
        if cov is not None:
            ok, why = _handler_fails_only_flow(fn, cov[0], cov[1])
        ctx.check("C10.a.emission-contained", SM, fn.name, first_line(c, 70), ok, why, line=c.lineno)


def a_position_stores(ctx):
    """Storing `head.position` runs the index-update callback, which evaluates the element at the new position when it is a `match` (its event name / reference).  A
    faulty match statement (`match $undefined.Finished()`) therefore raises from the STORE.  Every store that can land on a user-written match statement must be inside the
    per-flow try; stores to a label position or to the end of the flow cannot evaluate anything."""
    t = ctx.tree.ast(SM)
    fns = {f.name: f for f in functions(t)}
    n = 0

    def all_calls_contained(name, depth=0):
        sites = [(g, c) for g in fns.values() for c in walk_no_nested(g) if isinstance(c, ast.Call) and isinstance(c.func, ast.Name) and c.func.id == name and g.name != name]
        if not sites or depth > 2:
            return False
        return all(contained(c, g) is not None and not handler_reraises(contained(c, g)[1]) or all_calls_contained(g.name, depth + 1) for g, c in sites)
    for fn in fns.values():
        stores = [st for st in walk_no_nested(fn) if isinstance(st, (ast.Assign, ast.AugAssign)) and
                  any(isinstance(tg, ast.Attribute) and tg.attr == "position" and "head" in src(tg.value) for tg in (st.targets if isinstance(st, ast.Assign) else [st.target]))]
        if not stores:
            continue
        fn_covered = all_calls_contained(fn.name)
        for st in stores:
            n += 1
            val = st.value
            from ..source import inline_temporaries
            vs = inline_temporaries(val, fn, st.lineno) if isinstance(st, ast.Assign) else src(val)
            vs1 = re.sub(r"\s", "", vs)
            harmless = (isinstance(st, ast.Assign) and ("element_labels[" in vs1 and "+" not in vs1 or re.match(r"^len\(.*\.elements\)$", vs1) or
                                                         (isinstance(val, ast.Constant)) or re.match(r"^\w*head\.position$", vs1)))
            cov = contained(st, fn)
            ok = fn_covered or (cov is not None and not handler_reraises(cov[1])) or bool(harmless)
            if ok:
                continue
            ctx.check("C10.a.position-stores", SM, fn.name, first_line(st, 60), False,
                      "`%s` moves a head outside the per-flow try: the position setter updates the event-matching index and evaluates the element it lands on, so a faulty match "
                      "statement (`match $undefined.Finished()`) raises out of run_to_completion in the middle of a round - unrelated flows already parked on their `send` are dropped" % first_line(st, 50),
                      line=st.lineno)
    ctx.check("C10.a.position-stores", SM, "<module>", "stores to head.position", True, "%d stores examined: each is inside the per-flow try (directly or through its only callers), or targets a label / the end of the flow" % n, line=1)
    ctx.floor("C10.a.position-stores", SM, "stores to head.position", n, 10)


_HANDLER_CALLS = ("Event", "str", "type", "hasattr", "_push_internal_event", "_push_left_internal_event", "getattr", "repr", "isinstance", "_abort_flow",
                  "get_flow_state_from_head", "is_active_flow", "is_listening_flow")


def _expand_handler(fn, h):
    """The handler with its statement-level calls of module-level reporting helpers (`_fail_flow_of_head(state, head, e)`) replaced by the helpers' bodies: what the handler
    does is read through one level of straight-line helpers (no loop, no try, no return value), whatever they are called."""
    mod = fn
    while getattr(mod, "_parent", None) is not None:
        mod = mod._parent
    defs = {f.name: f for f in getattr(mod, "body", []) if isinstance(f, ast.FunctionDef)}
    body = list(h.body)
    changed = False
    for _round in range(3):         # helpers of helpers (a reporting helper that calls a guard helper), bounded
        out = []
        again = False
        for st in body:
            if isinstance(st, ast.Expr) and isinstance(st.value, ast.Call) and isinstance(st.value.func, ast.Name) and st.value.func.id in defs \
                    and st.value.func.id not in _HANDLER_CALLS:
                g = defs[st.value.func.id]
                simple = not any(isinstance(x, (ast.For, ast.While, ast.Try, ast.With, ast.Return, ast.Yield, ast.Await)) and not (isinstance(x, ast.Return) and x.value is None)
                                 for x in ast.walk(g))
                if simple and g is not fn:
                    out += [b for b in g.body if not (isinstance(b, ast.Expr) and isinstance(b.value, ast.Constant))]
                    changed = again = True
                    continue
            out.append(st)
        body = out
        if not again:
            break
    out = body
    if not changed:
        return h
    h2 = ast.ExceptHandler(type=h.type, name=h.name, body=out)
    ast.copy_location(h2, h)
    return h2


def _handler_fails_only_flow(fn, tr, h):
    if handler_reraises(h):
        return False, "the handler re-raises"
    h = _expand_handler(fn, h)
    body = " ".join(src(s) for s in h.body)
    # the ColangError event is built in the handler and queued there or, bound to a variable, after the try (e.g. in front of the failed flow's restart)
    built = [a for st in h.body for a in ast.walk(st) if isinstance(a, ast.Assign) and isinstance(a.value, ast.Call) and src(a.value.func) == "Event" and "ColangError" in src(a.value)
             and isinstance(a.targets[0], ast.Name)]
    pushed = any(isinstance(c, ast.Call) and src(c.func) in ("_push_internal_event", "_push_left_internal_event") and any(
        isinstance(x, ast.Name) and x.id in {b.targets[0].id for b in built} for a_ in c.args for x in ast.walk(a_)) for c in walk_no_nested(fn))
    # direct form: the handler itself aborts the flow at hand and queues `Event(name="ColangError", ...)` (used where the failing call sits in a helper of the per-head loop)
    mod_ = fn
    while getattr(mod_, "_parent", None) is not None:
        mod_ = mod_._parent
    # functions whose every return value is `Event(name="ColangError", ...)`: a call of one of them builds the error event (whatever the helper is called)
    builders = {f.name for f in getattr(mod_, "body", []) if isinstance(f, ast.FunctionDef) and [r for r in ast.walk(f) if isinstance(r, ast.Return)] and all(
        isinstance(r.value, ast.Call) and src(r.value.func) == "Event" and "ColangError" in src(r.value) for r in ast.walk(f) if isinstance(r, ast.Return))}

    def _is_error_event(x):
        return isinstance(x, ast.Call) and ((src(x.func) == "Event" and "ColangError" in src(x)) or (isinstance(x.func, ast.Name) and x.func.id in builders))
    direct_push = any(isinstance(c, ast.Call) and src(c.func) in ("_push_internal_event", "_push_left_internal_event") and any(
        _is_error_event(x) for a_ in c.args for x in ast.walk(a_)) for st in h.body for c in ast.walk(st))
    direct_abort = any(isinstance(c, ast.Call) and src(c.func) == "_abort_flow" for st in h.body for c in ast.walk(st))
    ended = False
    if direct_push and not direct_abort:
        # the flow at hand has ALREADY ended when the try is reached (its terminal status is stored on every path to the try): there is nothing left to abort
        cfg_ = CFG(fn)
        term = [n for n in cfg_.nodes if n.kind == "stmt" and isinstance(n.ast, ast.Assign) and src(n.ast.targets[0]).endswith(".status")
                and re.search(r"FlowStatus\.(FINISHED|STOPPED)$", src(n.ast.value))]
        # the statements of a try body are the CFG nodes; take the first one
        first = cfg_.node_of(tr.body[0]) if tr.body else None
        ended = bool(term) and first is not None and cfg_.must_pass(cfg_.entry, first, term)
    if direct_push and (direct_abort or ended):
        for st in h.body:
            for x in walk_no_nested(st):
                if isinstance(x, ast.Call):
                    f = src(x.func)
                    if not (f.startswith("log.") or f in _HANDLER_CALLS or f in builders or (f.endswith(".get") and isinstance(x.func, ast.Attribute) and not isinstance(x.func.value, ast.Call))):
                        return False, "the handler calls `%s(...)`, which may raise inside the handler" % f
        if ended:
            return True, "the flow at hand has already ended when the call is made; the handler logs and queues a ColangError event"
        return True, "handler logs, aborts the flow at hand and queues a ColangError event; the caller's loop continues with the next head"
    if "ColangError" not in body or not (("_push_internal_event" in body) or pushed):
        return False, "the handler does not report a ColangError event"
    flags = [s for s in h.body if isinstance(s, ast.Assign) and isinstance(s.targets[0], ast.Name) and src(s.value) == "True"]
    if not flags:
        return False, "the handler does not mark the flow as aborted"
    flag = flags[0].targets[0].id
    # after the try: `if/elif <flag>: _abort_flow(state, flow_state, ...)` of the flow at hand
    aborted = [n for n in walk_no_nested(fn) if isinstance(n, ast.If) and src(n.test) == flag
               and any(isinstance(c, ast.Call) and src(c.func) == "_abort_flow" for s in n.body for c in ast.walk(s))]
    if not aborted:
        return False, "no `_abort_flow` of the flow at hand under the handler's flag `%s`" % flag
    inloop = any(isinstance(p, (ast.For, ast.While)) for p in _anc(tr, fn))
    if not inloop:
        return False, "the try is not inside the per-head loop (one failing head would end the processing of the others)"
    # the handler itself must be total: a two-level attribute read `x.a.b` needs a truthiness guard on `x.a`
    for st in h.body:
        for x in walk_no_nested(st):
            if isinstance(x, ast.Attribute) and isinstance(x.value, ast.Attribute) and isinstance(x.ctx, ast.Load):
                root = x.value
                while isinstance(root, ast.Attribute):
                    root = root.value
                if isinstance(root, ast.Name) and root.id in ("log", "self", "FlowStatus", "FlowHeadStatus", "InternalEvents"):
                    continue
                inner = src(x.value)
                guarded = False
                for p_ in _anc(x, h):
                    if isinstance(p_, (ast.If, ast.IfExp)):
                        conj = p_.test.values if isinstance(p_.test, ast.BoolOp) and isinstance(p_.test.op, ast.And) else [p_.test]
                        if any(src(c) == inner or src(c) == "%s is not None" % inner for c in conj):
                            guarded = True
                if not guarded:
                    return False, "the handler reads `%s` without testing `%s` for None: elements generated for if/when bodies have no source, so the handler itself raises and the error escapes run_to_completion" % (src(x), inner)
            if isinstance(x, ast.Call):
                f = src(x.func)
                if not (f.startswith("log.") or f in ("Event", "str", "type", "hasattr", "_push_internal_event", "getattr", "repr", "isinstance")):
                    return False, "the handler calls `%s(...)`, which may raise inside the handler" % f
    return True, "handler logs, pushes a ColangError event, sets `%s` so that only this flow is aborted after the try, and the loop continues with the next head" % flag


def _anc(node, stop):
    p = getattr(node, "_parent", None)
    while p is not None and p is not stop:
        yield p
        p = getattr(p, "_parent", None)


def b_api(ctx):
    t = ctx.tree.ast(RT)
    fn = find_function(t, "process_events")
    if fn is None:
        raise AnalysisError("process_events not found", anchor=RT + "::process_events")
    calls = [c for c in walk_no_nested(fn) if isinstance(c, ast.Call) and src(c.func) == "run_to_completion"]
    ctx.floor("C10.b.api", RT, "run_to_completion calls in process_events", len(calls), 1)
    for c in calls:
        cov = contained(c, fn)
        ok, why = cov is not None, "run_to_completion is called outside try/except Exception: an escaping exception leaves process_events"
        if cov:
            tr, h = cov
            ok, why = True, "the handler builds Event(name='ColangError', ...) from type(e).__name__/str(e) and re-enters the loop with it"
            if handler_reraises(h):
                ok, why = False, "the handler re-raises"
            assigns = [s for st in h.body for s in ast.walk(st) if isinstance(s, ast.Assign) and isinstance(s.value, ast.Call) and src(s.value.func) == "Event"]
            if ok and (not assigns or "ColangError" not in src(assigns[0])):
                ok, why = False, "the handler does not produce a ColangError event"
            if ok:
                # nothing in the handler can raise: only log.*, Event(...), str(), type().__name__
                for s in h.body:
                    for x in ast.walk(s):
                        if isinstance(x, ast.Call):
                            f = src(x.func)
                            if not (f.startswith("log.") or f in ("Event", "str", "type", "repr")):
                                ok, why = False, "the handler calls `%s`, which may raise inside the handler" % f
                        if isinstance(x, ast.Subscript):
                            ok, why = False, "the handler indexes `%s`, which may raise inside the handler" % src(x)
            if ok:
                # the produced event is fed back: enclosing while loop on the same variable
                v = assigns[0].targets[0].id if isinstance(assigns[0].targets[0], ast.Name) else None
                loop = [p for p in _anc(tr, fn) if isinstance(p, ast.While) and v and v in src(p.test)]
                if not loop:
                    ok, why = False, "the ColangError event is not processed (no enclosing `while %s is not None`)" % v
        ctx.check("C10.b.api", RT, qualname(fn), first_line(c), ok, why, line=c.lineno)
        if cov and ok:
            # the retry with the ColangError event must be bounded: if processing THAT event raises again, some branch of the handler ends the loop
            tr, h = cov
            v = None
            for s_ in ast.walk(h):
                if isinstance(s_, ast.Assign) and isinstance(s_.value, ast.Call) and src(s_.value.func) == "Event" and isinstance(s_.targets[0], ast.Name):
                    v = s_.targets[0].id
            ends = [s_ for st in h.body for s_ in ast.walk(st) if (isinstance(s_, ast.Assign) and isinstance(s_.targets[0], ast.Name) and s_.targets[0].id == v
                                                                    and isinstance(s_.value, ast.Constant) and s_.value.value is None) or isinstance(s_, (ast.Break, ast.Return))]
            guarded = [e for e in ends if any(isinstance(p_, ast.If) for p_ in _anc(e, h))]
            okb = bool(guarded)
            ctx.check("C10.b.api-bounded", RT, qualname(fn), "retry with the ColangError event", okb,
                      "when the ColangError event itself cannot be processed the handler ends the retry loop" if okb else
                      "every exception escaping run_to_completion is turned into a new ColangError event and fed back without bound (max_events is not consulted here): if processing the "
                      "ColangError event raises again - e.g. a flow waits for `ColangError(<expression that cannot be evaluated>)` - process_events never returns", line=h.lineno)


            # ... and the bound must not outlive the event it belongs to: a flag that ends the retry is re-armed for EVERY input event, otherwise the first reported
            # error of a process_events call silences every later one (they would be logged only, no ColangError event)
            if okb:
                flags = set()
                for e in guarded:
                    for p_ in _anc(e, h):
                        if isinstance(p_, ast.If):
                            flags |= {x.id for x in ast.walk(p_.test) if isinstance(x, ast.Name)}
                stores = {}
                for a in walk_no_nested(fn):
                    if isinstance(a, ast.Assign) and len(a.targets) == 1 and isinstance(a.targets[0], ast.Name) and a.targets[0].id in flags:
                        stores.setdefault(a.targets[0].id, []).append(a)
                state_flags = {f for f in flags if any(not (isinstance(a.value, ast.Constant)) or bool(a.value.value) for a in stores.get(f, []))
                               and any(a in list(ast.walk(h)) for a in stores.get(f, []))}
                retry = [p_ for p_ in _anc(tr, fn) if isinstance(p_, ast.While)]
                ev_loop = [p_ for p_ in _anc(tr, fn) if isinstance(p_, (ast.For, ast.AsyncFor))]
                for f in sorted(state_flags):
                    resets = [a for a in stores.get(f, []) if isinstance(a.value, ast.Constant) and not a.value.value and a not in list(ast.walk(h))]
                    def innermost_loop(n):
                        for p_ in _anc(n, fn):
                            if isinstance(p_, (ast.For, ast.AsyncFor, ast.While)):
                                return p_
                        return None
                    okr = bool(ev_loop) and bool(retry) and any(innermost_loop(a) is ev_loop[0] and a.lineno < retry[0].lineno for a in resets)
                    ctx.check("C10.b.api-reports-each", RT, qualname(fn), "flag that ends the retry is re-armed per event", okr,
                              "the flag that ends the retry loop is reset inside the loop over the input events, before each event is processed" if okr else
                              "`%s` ends the error-reporting retry but is not reset for every input event: after the first escaping error of a process_events call every later "
                              "error of that call is only logged - no ColangError event, the failure is invisible to the flows" % f, line=(resets[0].lineno if resets else h.lineno))


def c_error_before_restart(ctx):
    """A failed flow that is activated is restarted by a StartFlow pushed to the FRONT of the internal queue.  If the ColangError of the failure is appended to the END, the
    fresh instance is already listening when the error is processed: a flow that reacts to ColangError and fails itself receives the error of its own previous instance, fails
    again, ... inside one run_to_completion call.  The error event has to be queued in front of the restart (after the abort, to the left)."""
    t = ctx.tree.ast(SM)
    n = 0
    for fname in ("_advance_head_front", "run_to_completion"):
        fn = find_function(t, fname)
        if fn is None:
            raise AnalysisError("%s not found" % fname, anchor=SM + "::" + fname)
        for tr in [x for x in walk_no_nested(fn) if isinstance(x, ast.Try)]:
            for h in tr.handlers:
                built = [a for st in h.body for a in ast.walk(st) if isinstance(a, ast.Assign) and isinstance(a.value, ast.Call) and src(a.value.func) == "Event" and "ColangError" in src(a.value)]
                if not built:
                    continue
                n += 1
                tgt = built[0].targets[0]
                var = tgt.id if isinstance(tgt, ast.Name) else (src(tgt.value) if isinstance(tgt, ast.Subscript) else src(tgt))
                appended_in_handler = [c for st in h.body for c in ast.walk(st) if isinstance(c, ast.Call) and src(c.func) == "_push_internal_event" and var in src(c)]
                lefts = [c for c in walk_no_nested(fn) if isinstance(c, ast.Call) and src(c.func) == "_push_left_internal_event" and var in src(c)]
                after_abort = False
                for c in lefts:
                    # an _abort_flow call precedes the push in the same function (same or enclosing block)
                    aborts = [a for a in walk_no_nested(fn) if isinstance(a, ast.Call) and src(a.func) == "_abort_flow" and a.lineno < c.lineno]
                    after_abort = after_abort or bool(aborts)
                ok = not appended_in_handler and after_abort
                ctx.check("C10.c.error-before-restart", SM, fname, first_line(built[0], 60), ok,
                          "the ColangError event is queued in front of the failed flow's restart (pushed left after _abort_flow)" if ok else
                          "the ColangError event is appended to the end of the internal queue while _abort_flow pushes the restart of an activated flow to the front: the new instance of a flow "
                          "that handles ColangError receives the error of its own predecessor, fails again and restarts - one event is processed for ever (library flow `warning of colang "
                          "errors` with a NUL character in the error text)", line=built[0].lineno)
    ctx.floor("C10.c.error-before-restart", SM, "handlers that build a ColangError event", n, 2)


def c_restart_guards(ctx):
    """An activated flow is started again whenever its instance ends.  If an instance ends before it ever waited,
    the restart happens inside the same run_to_completion call, again and again: both ways of ending need a guard."""
    from ..coflow import evaluate, truth
    t = ctx.tree.ast(SM)
    fn = find_function(t, "_advance_head_front")
    if fn is None:
        raise AnalysisError("_advance_head_front not found", anchor=SM + "::_advance_head_front")
    for flag, what, kind in (("flow_finished", "finishes", "finish"), ("flow_aborted", "fails", "failure")):
        guards = [n for n in ast.walk(fn) if isinstance(n, ast.If) and flag in [x.id for x in ast.walk(n.test) if isinstance(x, ast.Name)] and ".activated" in src(n.test)]
        ok, msg = False, ("no guard for an activated instance that %s before it ever waited: it is restarted at once, %s again, ... and run_to_completion never returns" % (what, what))
        # second accepted form: under the branch of the flag, `if <was starting> and flow_state.activated > 0 [and not ...new_instance_started]: ...new_instance_started = True`
        # before the abort/finish call (the restart is what is suppressed, the instance still ends)
        start_vars = {a.targets[0].id for a in ast.walk(fn) if isinstance(a, ast.Assign) and isinstance(a.targets[0], ast.Name) and "FlowStatus.STARTING" in src(a.value) and "==" in src(a.value)}
        def _under_flag(n):
            child = n
            for p_ in _anc(n, fn):
                if isinstance(p_, ast.If) and flag in [x.id for x in ast.walk(p_.test) if isinstance(x, ast.Name)] and any(child is b_ for b_ in p_.body):
                    return True
                child = p_
            return False
        for g in [n for n in ast.walk(fn) if isinstance(n, ast.If) and ".activated" in src(n.test) and _under_flag(n)]:
            conj = g.test.values if isinstance(g.test, ast.BoolOp) and isinstance(g.test.op, ast.And) else [g.test]
            was_starting = any(isinstance(c_, ast.Name) and c_.id in start_vars for c_ in conj)
            suppresses = any(isinstance(s_, ast.Assign) and src(s_.targets[0]).endswith(".new_instance_started") and src(s_.value) == "True" for s_ in g.body)
            extra = [c_ for c_ in conj if not (isinstance(c_, ast.Name) and c_.id in start_vars) and ".activated" not in src(c_) and "new_instance_started" not in src(c_)]
            positive = any(re.sub(r"\s", "", src(c_)) in ("flow_state.activated>0", "flow_state.activated>=1", "flow_state.activated") for c_ in conj)
            if was_starting and suppresses and not extra and positive:
                ok, msg = True, ("an activated instance that %s before it reached its first waiting statement is ended without restart (`new_instance_started = True` before the call); "
                                 "the guard holds for every activated instance" % what)
        for g in guards:
            starting = any(isinstance(p_, ast.If) and "FlowStatus.STARTING" in src(p_.test) and "==" in src(p_.test) for p_ in _anc(g, fn))
            resets = any(isinstance(s_, ast.Assign) and src(s_.targets[0]) == flag and src(s_.value) == "False" for s_ in g.body)
            # the guard must hold for EVERY activated instance (no extra condition that excludes some)
            names = {x.id for x in ast.walk(g.test) if isinstance(x, ast.Name)}
            class _A:  # abstract flow_state with activated = 1
                pass
            from ..coflow import AObj
            env = {flag: True}
            for nme in names - {flag}:
                env[nme] = AObj(activated=1)
            v = truth(evaluate(g.test, env))
            if starting and resets and v is True:
                ok, msg = True, "an activated instance that %s in the very step it was started (status STARTING) is not ended/restarted (`%s = False`); the guard holds for every activated instance" % (what, flag)
            elif starting and resets:
                msg = "the %s guard `%s` does not hold for every activated instance (it evaluates to %s for flow_state.activated = 1): the excluded instances restart forever" % (kind, first_line(g.test, 80), v)
        ctx.check("C10.c.restart-guard", SM, "_advance_head_front", "immediate %s of an activated flow" % kind, ok, msg, line=(guards[0].lineno if guards else fn.lineno))


def c_restart_progress(ctx):
    """Termination clause, the part that is visible in the code's shape: an activated flow is restarted when its instance ends.  The two immediate-end guards (C10.c.restart-guard)
    are keyed to the status STARTING, and the status leaves STARTING as soon as every head stands on a `match` - also a match on the Finished event of a child flow that the
    instance started itself and that ends AT ONCE.  Such an instance ends in the round it was created, is restarted, ends again ...: one event never finishes processing in a
    program without any loop or recursion (F144).  Necessary for the bound: the restart is conditioned on evidence that the ended instance consumed something from OUTSIDE the
    round (a conjunct of the restart condition beyond the activation count / the already-restarted flag), or the round has a step budget."""
    t = ctx.tree.ast(SM)
    fin = find_function(t, "_finish_flow")
    rtc = find_function(t, "run_to_completion")
    if fin is None or rtc is None:
        raise AnalysisError("_finish_flow / run_to_completion not found", anchor=SM + "::_finish_flow")
    sites = [i for i in ast.walk(fin) if isinstance(i, ast.If) and any(isinstance(c, ast.Call) and src(c.func).endswith(".start_event") for st in i.body for c in ast.walk(st))
             and ".activated" in src(i.test)]
    ctx.floor("C10.c.restart-progress", SM, "restart of an activated flow in _finish_flow", len(sites), 1)
    # a step budget: a counter incremented inside the processing loop and compared in a test that raises / breaks / returns
    counters = {src(a.target) for a in ast.walk(rtc) if isinstance(a, ast.AugAssign) and isinstance(a.op, ast.Add)}
    budget = any(isinstance(i, (ast.If, ast.While)) and any(src(x) in counters for x in ast.walk(i.test))
                 and (isinstance(i, ast.While) or any(isinstance(y, (ast.Raise, ast.Break, ast.Return)) for st in i.body for y in ast.walk(st))) for i in ast.walk(rtc))
    for i in sites:
        conj = []
        def flat(e):
            if isinstance(e, ast.BoolOp) and isinstance(e.op, ast.And):
                for v in e.values:
                    flat(v)
            else:
                conj.append(e)
        flat(i.test)
        extra = [c for c in conj if not re.search(r"deactivate_flow|\.activated\b|new_instance_started", src(c))]
        ok = bool(extra) or budget
        ctx.check("C10.c.restart-progress", SM, "_finish_flow", "restart only after the instance made progress", ok,
                  ("the restart is conditioned on `%s`" % first_line(extra[0], 60)) if extra else ("run_to_completion has a step budget" if budget else
                  "the restart of an activated flow depends only on the activation count and the already-restarted flag, and run_to_completion has no step budget: an activated flow "
                  "whose body is `await <flow that ends at once>` leaves STARTING (it stands on a match), finishes in the same round, is restarted, finishes, ... - "
                  "run_to_completion never returns for a program without loop or recursion"), line=i.lineno)


def d_event_cap(ctx):
    t = ctx.tree.ast(RT)
    fn = find_function(t, "process_events")
    caps = [n for n in walk_no_nested(fn) if isinstance(n, ast.Compare) and "max_events" in src(n) and isinstance(n.left, ast.Name)]
    ctx.floor("C10.d.event-cap", RT, "comparison with max_events in process_events", len(caps), 1)
    for c in caps:
        v = c.left.id
        loops = [p_ for p_ in _anc(c, fn) if isinstance(p_, (ast.While, ast.For))]
        outer = loops[-1] if loops else None
        inits = [a for a in walk_no_nested(fn) if isinstance(a, ast.Assign) and any(isinstance(x, ast.Name) and x.id == v for x in a.targets)]
        rebinds = [f for f in walk_no_nested(fn) if isinstance(f, ast.For) and v in [x.id for x in ast.walk(f.target) if isinstance(x, ast.Name)]]
        incs = [a for a in walk_no_nested(fn) if isinstance(a, ast.AugAssign) and isinstance(a.target, ast.Name) and a.target.id == v]
        ok = bool(inits) and outer is not None and all(a.lineno < outer.lineno and not any(a in list(ast.walk(l)) for l in loops) for a in inits) and not rebinds \
            and bool(incs) and all(isinstance(a.op, ast.Add) for a in incs)
        ctx.check("C10.d.event-cap", RT, qualname(fn), src(c), ok,
                  "`%s` is initialised once before the processing loop and only incremented: the cap counts all events of the call" % v if ok else
                  "`%s` is (re)bound inside the processing loop: the cap becomes per batch, so flows that answer each other's events keep process_events running forever" % v, line=c.lineno)


def e_error_handler_flows(ctx):
    from .. import rails
    from . import C17
    # since F75 the interpolation itself may escape the spliced value completely; then `escape(...)` is no longer what keeps the handler's expression intact
    total = C17.interpolation_is_total(ctx)
    n = 0
    for rel in ctx.tree.glob("nemoguardrails/colang/v2_x/library", (".co",)):
        for f in rails.parse_co(ctx.tree, rel):
            refs = [s_.ref for s_ in f.walk() if s_.kind == "match" and (s_.expr or "").startswith("ColangError") and s_.ref]
            for r in refs:
                for s_ in f.walk():
                    txt = s_.text
                    for m in re.finditer(r"\{([^{}]*\$%s\.(error|type)[^{}]*)\}" % re.escape(r), txt):
                        if m.group(2) != "error":
                            continue
                        n += 1
                        ok = total or re.match(r"^\s*escape\(\s*\$%s\.error\s*\)\s*$" % re.escape(r), m.group(1)) is not None
                        ctx.check("C10.e.error-handler", rel, f.name, s_.text[:120], ok,
                                  "the ColangError handler interpolates the error text through escape(...) / the interpolation escapes the spliced value completely" if ok else
                                  "the ColangError handler interpolates `%s` unescaped: an error text containing quotes breaks the handler's own expression, the new error matches the restarted handler, which fails again - forever" % m.group(1),
                                  line=s_.line)
    ctx.floor("C10.e.error-handler", "nemoguardrails/colang/v2_x/library", "interpolations of the error text in ColangError handler flows", n, 1)


def a_typed_stores(ctx):
    """`a faulty flow fails alone`: slide() runs inside the per-flow try, the event MATCHER does not.  A value that a flow computes and that the matcher later uses
    arithmetically (the flow priority multiplies the score) must therefore be type-checked where it is stored, inside slide(): every non-number has to raise there."""
    t = ctx.tree.ast(SM)
    sl = find_function(t, "slide")
    if sl is None:
        raise AnalysisError("slide not found", anchor=SM + "::slide")
    stores = [a for a in ast.walk(sl) if isinstance(a, ast.Assign) and isinstance(a.targets[0], ast.Attribute) and a.targets[0].attr == "priority" and isinstance(a.value, ast.Name)]
    ctx.floor("C10.a.typed-store", SM, "stores of a computed flow priority", len(stores), 1)
    cfg = CFG(sl)
    for a in stores:
        v = a.value.id
        store = cfg.node_of(a)

        def ev(e):
            """value of a test when `isinstance(v, ...)` is False and everything else is unknown"""
            if isinstance(e, ast.Call) and src(e.func) == "isinstance" and e.args and src(e.args[0]) == v:
                return False
            if isinstance(e, ast.UnaryOp) and isinstance(e.op, ast.Not):
                r = ev(e.operand)
                return None if r is None else (not r)
            if isinstance(e, ast.BoolOp):
                vals = [ev(x) for x in e.values]
                if isinstance(e.op, ast.And):
                    return False if any(x is False for x in vals) else (True if all(x is True for x in vals) else None)
                return True if any(x is True for x in vals) else (False if all(x is False for x in vals) else None)
            return None

        # some test that dominates the store sends every non-instance to a raise (and not to the store)
        ok = False
        for tn in cfg.nodes:
            if tn.kind != "test" or tn.ast is None or store is None or not cfg.dominates(tn, store):
                continue
            out = ev(tn.ast)
            if out is None:
                continue
            nxt = [m for m, lab in tn.succ if lab is out]
            reach = cfg.reachable(nxt)
            raises = [r for r in reach | set(nxt) if r.kind == "stmt" and isinstance(r.ast, ast.Raise)]
            if raises and store not in reach and store not in nxt:
                ok = True
        ctx.check("C10.a.typed-store", SM, "slide", first_line(a, 60), ok,
                  "a priority that is not a number raises inside slide() (inside the per-flow containment)" if ok else
                  "no check before `%s` raises for a NON-NUMBER: `priority \"0.5\"` is stored, and the uncontained matcher later multiplies the score by it - TypeError out of run_to_completion for every later "
                  "event the flow is a candidate for, so all other flows lose those events" % first_line(a, 50), line=a.lineno)


def c_restart_once(ctx):
    """An activated flow is restarted when its instance ends - once.  An instance that has already started its replacement at a `start_new_flow_instance` label
    (new_instance_started) must not start another one when it later finishes or fails: both restart sites carry the guard, otherwise the number of live instances
    doubles with every failing event and the work per event is no longer bounded by the program."""
    t = ctx.tree.ast(SM)
    n = 0
    for name in ("_abort_flow", "_finish_flow"):
        fn = find_function(t, name)
        if fn is None:
            raise AnalysisError("%s not found" % name, anchor=SM + "::" + name)
        # restart site: the creation of the StartFlow event from the ended instance, directly or in a helper
        sites = []
        for i in [x for x in ast.walk(fn) if isinstance(x, ast.If)]:
            direct = [st for st in i.body if not isinstance(st, (ast.If, ast.For, ast.While))]
            body_calls = {src(c.func) for st in direct for c in ast.walk(st) if isinstance(c, ast.Call)}
            helper_restart = any(c.isidentifier() and c not in ("_abort_flow", "_finish_flow") and find_function(t, c) is not None and "start_event(" in src(find_function(t, c))
                                 and "_push" in src(find_function(t, c)) and len(src(find_function(t, c)).splitlines()) < 40 for c in body_calls)
            if any(c.endswith(".start_event") for c in body_calls) or helper_restart:
                if "activated" in src(i.test):
                    sites.append(i)
        for i in sites:
            n += 1
            ok = re.search(r"not\s+\w+\.new_instance_started", src(i.test)) is not None
            ctx.check("C10.c.restart-once", SM, name, first_line(i.test, 70), ok,
                      "the restart of an activated flow is skipped when the instance has already started its replacement" if ok else
                      "the restart in %s lacks `not flow_state.new_instance_started`: an activated flow that restarted early (start_new_flow_instance label) and then fails is restarted a SECOND time - "
                      "live instances double with every failing event (2, 4, ... 1024 after ten turns)" % name, line=i.lineno)
    ctx.floor("C10.c.restart-once", SM, "restart sites of activated flows", n, 2)
