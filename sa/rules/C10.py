"""C10 - Event processing terminates and a faulty flow fails alone (isolation clause only)."""
import ast

from ..pycalls import CallGraph
from ..pycfg import CFG, contained, walk_no_nested, handler_reraises, broad_handler
from ..source import AnalysisError, find_function, first_line, src, functions, qualname

SM = "nemoguardrails/colang/v2_x/runtime/statemachine.py"
EV = "nemoguardrails/colang/v2_x/runtime/eval.py"
RT = "nemoguardrails/colang/v2_x/runtime/runtime.py"

# Frontier edges (caller -> callee) confirmed *benign by reading and by experiment*
# (findings/demo_F8.py): an edge here is uncovered by the per-flow try but cannot raise for
# the stated reason.  Everything else that is uncovered is a violation unless it is a
# demonstrated known finding.
BENIGN = {
    ("_create_event_reference", "get_event_from_element"):
        "re-evaluates the match element that _compute_event_matching_score evaluated successfully for this head in the same iteration",
    ("_resolve_action_conflicts", "get_event_from_element"):
        "re-evaluates a send element that slide() evaluated inside the per-flow try when the head stopped on it",
    ("_generate_action_event_from_actionable_element", "get_event_from_element"):
        "same element as above, evaluated under the try by slide() before the head became actionable",
    ("_handle_event_matching", "_start_flow"):
        "the only raise (surplus positional arguments) could not be reached by experiment: the transformer/expander never produce surplus positional keys for a declared flow",
    ("_process_internal_events_without_default_matchers", "_get_reference_activated_flow_instance"):
        "evaluates, with the same empty context, the default expressions that create_flow_instance evaluated successfully when the reference instance was created",
}


def run(ctx):
    ctx.explanation = ("C10 (isolation clause): call-graph rule that every path from run_to_completion to an expression evaluator passes a try/except whose "
                       "handler fails only the flow at hand, plus the API-level conversion in process_events. Termination is NOT decided.")
    ctx.decided = ["a: every call edge from the uncontained event loop into an evaluator-reaching function is inside the per-flow try, or is a triaged table entry",
                   "a': the per-flow handler emits ColangError, marks only this flow aborted and does not re-raise",
                   "b: process_events wraps every run_to_completion call in try/except Exception that produces a ColangError event; the handler cannot raise"]
    ctx.not_decided = ["termination within a bound depending on program size (no ranking argument in reach of this family)"]
    a_containment(ctx)
    b_api(ctx)


def leaf_sites(fn):
    out = []
    for n in walk_no_nested(fn):
        if isinstance(n, ast.Call) and src(n.func).split(".")[-1] == "eval_expression" and contained(n, fn) is None:
            out.append(n)
        if isinstance(n, ast.Raise) and n.exc is not None and contained(n, fn) is None and "Colang" in src(n.exc):
            out.append(n)
    return out


def a_containment(ctx):
    t = ctx.tree.ast(SM)
    root = find_function(t, "run_to_completion")
    if root is None:
        raise AnalysisError("run_to_completion not found", anchor=SM + "::run_to_completion")
    cg = CallGraph(ctx.tree, [SM])
    U = {}
    edges = []
    stack = [(SM, "run_to_completion", root)]
    while stack:
        rel, q, fn = stack.pop()
        if (rel, q) in U:
            continue
        U[(rel, q)] = fn
        for call, tgt in cg.callees(rel, fn):
            if tgt is None:
                continue
            cov = contained(call, fn)
            if cov is not None and handler_reraises(cov[1]):
                cov = None  # a handler that converts and re-raises contains nothing
            if rel != SM:
                continue  # the evaluator module itself is the sink, not part of the loop
            edges.append(((rel, q), (tgt[0], tgt[1]), cov, call))
            if cov is None and (tgt[0], tgt[1]) not in U and tgt[0] == SM:
                stack.append(tgt)
    ctx.stat("uncovered_reachable_functions", len(U))
    ctx.stat("call_edges", len(edges))
    ctx.stat("calls_resolved", cg.resolved)
    ctx.stat("calls_unresolved_external", cg.unresolved)
    EVF = {k for k, fn in U.items() if leaf_sites(fn)} | {(EV, "eval_expression")}
    ctx.stat("evaluator_functions", sorted(q for _, q in EVF))
    ctx.floor("C10.a.containment", SM, "functions with a direct evaluator / raise Colang...Error site reachable from the loop", len(EVF), 6)
    # all functions with leaf sites anywhere in statemachine (covered ones too) for the covered-edge count
    ALL_EV = {(SM, qualname(f)) for f in functions(t) if leaf_sites(f)} | {(EV, "eval_expression")}
    covered = [(a, b, cov, call) for a, b, cov, call in edges if cov is not None and b in ALL_EV and a in U]
    ctx.floor("C10.a.covered", SM, "evaluator calls inside a per-flow try", len(covered), 1, ["%s->%s" % (a[1], b[1]) for a, b, _, _ in covered])
    for a, b, cov, call in covered:
        tr, h = cov
        fn = U[a]
        ok, why = _handler_fails_only_flow(fn, tr, h)
        ctx.check("C10.a.handler", a[0], a[1], "try around %s" % first_line(call, 60), ok, why, line=tr.lineno)
    seen = set()
    for a, b, cov, call in sorted(edges, key=lambda e: e[3].lineno):
        if cov is not None or b not in EVF or a in EVF or a not in U:
            continue
        key = (a[1], b[1])
        construct = "%s -> %s" % key
        if key in seen:
            continue
        seen.add(key)
        if key in BENIGN:
            ctx.check("C10.a.benign", a[0], a[1], construct, True, "uncovered but benign: " + BENIGN[key], line=call.lineno)
        else:
            ctx.check("C10.a.containment", a[0], a[1], construct, False,
                      "call edge %s (line %d) reaches an expression evaluator outside the per-flow try/except of _advance_head_front: a runtime error in ONE flow's "
                      "expression raises out of run_to_completion, so unrelated flows do not receive the event" % (construct, call.lineno), line=call.lineno)
    # direct leaf sites in skeleton functions are reported by their own function as edge f -> <evaluator>
    stale = [k for k in BENIGN if k not in seen]
    for k in stale:
        ctx.note("C10.a: benign table entry %s -> %s no longer matches an uncovered edge" % k)


def _handler_fails_only_flow(fn, tr, h):
    if handler_reraises(h):
        return False, "the handler re-raises"
    body = " ".join(src(s) for s in h.body)
    if "ColangError" not in body or "_push_internal_event" not in body:
        return False, "the handler does not report a ColangError event"
    flags = [s for s in h.body if isinstance(s, ast.Assign) and isinstance(s.targets[0], ast.Name) and src(s.value) == "True"]
    if not flags:
        return False, "the handler does not mark the flow as aborted"
    flag = flags[0].targets[0].id
    # after the try: `if/elif <flag>: _abort_flow(state, flow_state, ...)` of the flow at hand
    aborted = [n for n in walk_no_nested(fn) if isinstance(n, ast.If) and src(n.test) == flag
               and any(isinstance(c, ast.Call) and src(c.func) == "_abort_flow" for s in n.body for c in ast.walk(s))]
    if not aborted:
        return False, "no `_abort_flow` of the flow at hand under the handler's flag `%s`" % flag
    inloop = any(isinstance(p, (ast.For, ast.While)) for p in _anc(tr, fn))
    if not inloop:
        return False, "the try is not inside the per-head loop (one failing head would end the processing of the others)"
    # the handler itself must be total: element lookup guarded by hasattr etc. (only attribute reads / str / type)
    return True, "handler logs, pushes a ColangError event, sets `%s` so that only this flow is aborted after the try, and the loop continues with the next head" % flag


def _anc(node, stop):
    p = getattr(node, "_parent", None)
    while p is not None and p is not stop:
        yield p
        p = getattr(p, "_parent", None)


def b_api(ctx):
    t = ctx.tree.ast(RT)
    fn = find_function(t, "process_events")
    if fn is None:
        raise AnalysisError("process_events not found", anchor=RT + "::process_events")
    calls = [c for c in walk_no_nested(fn) if isinstance(c, ast.Call) and src(c.func) == "run_to_completion"]
    ctx.floor("C10.b.api", RT, "run_to_completion calls in process_events", len(calls), 1)
    for c in calls:
        cov = contained(c, fn)
        ok, why = cov is not None, "run_to_completion is called outside try/except Exception: an escaping exception leaves process_events"
        if cov:
            tr, h = cov
            ok, why = True, "the handler builds Event(name='ColangError', ...) from type(e).__name__/str(e) and re-enters the loop with it"
            if handler_reraises(h):
                ok, why = False, "the handler re-raises"
            assigns = [s for s in h.body if isinstance(s, ast.Assign) and isinstance(s.value, ast.Call) and src(s.value.func) == "Event"]
            if ok and (not assigns or "ColangError" not in src(assigns[0])):
                ok, why = False, "the handler does not produce a ColangError event"
            if ok:
                # nothing in the handler can raise: only log.*, Event(...), str(), type().__name__
                for s in h.body:
                    for x in ast.walk(s):
                        if isinstance(x, ast.Call):
                            f = src(x.func)
                            if not (f.startswith("log.") or f in ("Event", "str", "type", "repr")):
                                ok, why = False, "the handler calls `%s`, which may raise inside the handler" % f
                        if isinstance(x, ast.Subscript):
                            ok, why = False, "the handler indexes `%s`, which may raise inside the handler" % src(x)
            if ok:
                # the produced event is fed back: enclosing while loop on the same variable
                v = assigns[0].targets[0].id if isinstance(assigns[0].targets[0], ast.Name) else None
                loop = [p for p in _anc(tr, fn) if isinstance(p, ast.While) and v and v in src(p.test)]
                if not loop:
                    ok, why = False, "the ColangError event is not processed (no enclosing `while %s is not None`)" % v
        ctx.check("C10.b.api", RT, qualname(fn), first_line(c), ok, why, line=c.lineno)
