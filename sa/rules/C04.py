"""C04 - Colang 2 event matching follows the documented partial-match rules (shape of the matcher)."""
import ast
import re

from ..pycfg import CFG, walk_no_nested
from ..source import expand_flags, inline_temporaries, conjuncts, atoms, atom_key, truth, side, linear, guard_walk, is_guard, AnalysisError, find_function, first_line, src, functions

SM = "nemoguardrails/colang/v2_x/runtime/statemachine.py"
EVAL = "nemoguardrails/colang/v2_x/runtime/eval.py"
KINDS = ("dict", "list", "set")


def run(ctx):
    ctx.explanation = ("C04: shape of the recursive argument matcher and of the event comparison in statemachine.py: sibling agreement of the "
                       "dict/list/set branches with the documented rules, dispatch exhaustiveness, identity-before-arguments dominance, result range, primitives.")
    ctx.decided = ["a: each container branch has size guard, recursion (received, expected), no-partner => 0.0, one specificity factor, loop over the expected container",
                   "b: every pattern kind has a branch; fall-through is equality", "c: instance identity / name tests returning 0.0 dominate argument scoring",
                   "d: returns are 0.0 / score / compare(); score starts at 1.0 and is only multiplied", "e: regex uses search on str(value); ComparisonExpression delegates"]
    ctx.not_decided = ["the matching relation for all values (regex semantics, recursion over unbounded payloads)"]
    t = ctx.tree.ast(SM)
    fn = find_arg_matcher(t)
    a_siblings(ctx, fn)
    b_dispatch(ctx, fn)
    d_range(ctx, fn)
    e_primitives(ctx, fn)
    c_identity(ctx, t, fn)
    c_internal_name(ctx, t)
    c_class_agreement(ctx, t)
    a_no_exempt_keys(ctx, fn)
    c_startflow_keeps_score(ctx, t)
    b_flow_reference_args(ctx, t)
    a_list_scan(ctx, fn)
    d_priority(ctx, t)
    e_literal_text_verbatim(ctx)
    f_positional_by_name(ctx)
    g_pattern_evaluated_per_event(ctx)
    h_written_parameters_win(ctx)


def f_positional_by_name(ctx):
    """`match (bot say "Hi").Finished()` names a flow and gives its parameters by POSITION.  The events of a flow instance carry the parameter NAMES (and `$<n>` keys only for what
    was passed positionally when that instance was started), so the reference event built for the match must have its `$<n>` keys translated to the declared parameter names -
    otherwise "every parameter written in the statement equals the event's value" and the statement still does not advance, depending on the call style of an unrelated statement.
    Decided: in get_event_from_element, on every path with op == "match" from the evaluation of the statement's arguments to the creation of the flow event, the loop that moves
    `$<index>` to `<declared parameter>.name` is passed."""
    t = ctx.tree.ast(SM)
    fn = find_function(t, "get_event_from_element")
    if fn is None:
        raise AnalysisError("get_event_from_element not found", anchor=SM + "::get_event_from_element")
    cfg = CFG(fn)
    # the flow event of a by-name reference: <temp flow state>.get_event(name, ARGS)
    calls = [c for c in walk_no_nested(fn) if isinstance(c, ast.Call) and isinstance(c.func, ast.Attribute) and c.func.attr == "get_event" and len(c.args) == 2
             and "flow" in src(c.func.value)]
    ctx.floor("C04.f.positional-by-name", SM, "flow events built for a by-name reference", len(calls), 1)
    for c in calls:
        argv = src(c.args[1])
        cnode = cfg.node_of(c)
        loops = [l for l in ast.walk(fn) if isinstance(l, ast.For) and isinstance(l.iter, ast.Call) and src(l.iter.func) == "enumerate" and l.iter.args
                 and src(l.iter.args[0]).endswith(".parameters") and isinstance(l.target, ast.Tuple) and len(l.target.elts) == 2
                 and any(isinstance(a, ast.Assign) and isinstance(a.targets[0], ast.Subscript) and src(a.targets[0].value) == argv
                         and src(a.targets[0].slice) == "%s.name" % src(l.target.elts[1])
                         and re.search(r"f['\"]\$\{%s\}['\"]" % re.escape(src(l.target.elts[0])), inline_temporaries(a.value, fn, a.lineno)) for a in ast.walk(l))]
        lnodes = [cfg.node_of(l.iter) for l in loops]
        # last evaluation of the arguments before the call
        evals = [n for n in cfg.nodes if n.kind == "stmt" and isinstance(n.ast, ast.Assign) and src(n.ast.targets[0]) == argv and cnode in cfg.reachable([n])]
        facts = {"element['op'] == 'match'": True, 'element["op"] == "match"': True, "element.op == 'match'": True}
        ok = bool(loops) and bool(evals)
        for e in evals:
            seen, stack = set(), [e]
            while stack:
                x = stack.pop()
                if x in seen or x in lnodes:
                    continue
                seen.add(x)
                tv = truth(expand_flags(x.ast, fn), facts) if x.kind == "test" and isinstance(x.ast, ast.expr) else None
                stack.extend(m for m, lab in x.succ if not (tv is not None and lab in (True, False) and lab is not tv))
            if cnode in seen and not any(e2 is not e and e2 in seen for e2 in evals):
                ok = False
        ctx.check("C04.f.positional-by-name", SM, "get_event_from_element", "positional parameters of a by-name flow event match", ok,
                  "the positional keys of the statement are moved to the declared parameter names before the reference event is built" if ok else
                  "the reference event of `match (flow \"x\").Finished()` keeps the keys `$0`, `$1`: it only matches instances that were STARTED with positional arguments - "
                  "`bot say(text=\"Hi\")` finished does not advance `match (bot say \"Hi\").Finished()`", line=c.lineno)


FLOWS2 = "nemoguardrails/colang/v2_x/runtime/flows.py"


def g_pattern_evaluated_per_event(ctx):
    """A waiting `match` is compared with each event using the values its parameters have WHEN THAT EVENT ARRIVES: within one processing round another flow can change a
    global the pattern reads (`match FlowFinished(flow_id=$target)`).  The expected event is therefore built afresh for every comparison - a memo per head / per round compares
    later events with stale values.  Decided: every path through _compute_event_matching_score to the comparison passes the call that evaluates the statement."""
    t = ctx.tree.ast(SM)
    fn = find_function(t, "_compute_event_matching_score")
    if fn is None:
        raise AnalysisError("_compute_event_matching_score not found", anchor=SM + "::_compute_event_matching_score")
    cfg = CFG(fn)
    evals = [n for n in cfg.nodes if n.ast is not None and any(isinstance(c, ast.Call) and src(c.func) == "get_event_from_element" for c in walk_no_nested(n.ast))]
    cmps = [n for n in cfg.nodes if n.ast is not None and any(isinstance(c, ast.Call) and src(c.func) == "_compute_event_comparison_score" for c in walk_no_nested(n.ast))]
    ctx.floor("C04.g.pattern-per-event", SM, "comparisons of an event with a waiting match statement", len(cmps), 1)
    for c in cmps:
        ok = bool(evals) and cfg.must_pass(cfg.entry, c, evals)
        ctx.check("C04.g.pattern-per-event", SM, fn.name, "the statement is evaluated for every event it is compared with", ok,
                  "every path to the comparison evaluates the match statement (get_event_from_element) in the same call" if ok else
                  "the comparison can be reached without evaluating the statement (a cached expected event): a parameter that reads a variable which changed since the first candidate "
                  "event of the round is compared with its OLD value - `match FlowFinished(flow_id=$target)` misses the flow named by the new `$target`", line=c.line)


def h_written_parameters_win(ctx):
    """`match $ref.Finished(topic="sports")`: the expected event of a flow-instance reference is built by FlowState._create_out_event from the instance's own arguments AND the
    parameters written in the statement.  For a name that occurs in both, the WRITTEN value is what "every parameter written in the statement is matched by the event's value"
    talks about; if the instance's arguments are applied last the written value is replaced by the instance's actual one and the statement advances although it must not."""
    t = ctx.tree.ast(FLOWS2)
    fn = find_function(t, "_create_out_event", "FlowState")
    if fn is None:
        raise AnalysisError("FlowState._create_out_event not found", anchor=FLOWS2 + "::FlowState._create_out_event")
    order = []     # ("own" | "written", position)
    for n in ast.walk(fn):
        if isinstance(n, ast.Call) and isinstance(n.func, ast.Attribute) and n.func.attr == "update" and n.args:
            a = src(n.args[0])
            order.append(("own" if a == "self.arguments" else ("written" if re.match(r"^\(?args\b", a) or a == "args" else None), (n.lineno, n.col_offset)))
        if isinstance(n, ast.Dict):
            for k, v in zip(n.keys, n.values):
                if k is None:
                    a = src(v)
                    order.append(("own" if a == "self.arguments" else ("written" if re.search(r"\bargs\b", a) else None), (v.lineno, v.col_offset)))
    order = sorted([o for o in order if o[0]], key=lambda o: o[1])
    kinds = [o[0] for o in order]
    ok = "own" in kinds and "written" in kinds and max(i for i, k_ in enumerate(kinds) if k_ == "own") < min(i for i, k_ in enumerate(kinds) if k_ == "written")
    ctx.check("C04.h.written-parameters-win", FLOWS2, "FlowState._create_out_event", "order of instance arguments and written parameters", ok,
              "the parameters written in the statement are applied after (over) the instance's own arguments" if ok else
              "the instance's own arguments are applied after the parameters written in the statement (order: %s): `match $ref.Finished(topic=\"sports\")` on an instance started with "
              "topic \"weather\" expects topic=\"weather\" and advances although the written value does not match" % kinds, line=fn.lineno)


def e_literal_text_verbatim(ctx, rule="C04.e.literal-text-verbatim", EVAL=EVAL):
    """`equal scalars`: the text of a string literal written in a statement is data.  eval_expression rewrites `$name` to `var_name` before it evaluates; done over the whole
    expression text this also rewrites the inside of string literals - `match ...(final_transcript="how much is $AAPL today")` then waits for "how much is var_AAPL today"
    and never matches the equal transcript (F124; the same evaluator binds arguments, defaults and return values, see C08).  The substitution must skip string literals.
    The pattern is a constant (possibly spread over named pieces, possibly pre-compiled at module level): it is folded and EVALUATED on a probe expression."""
    t = ctx.tree.ast(EVAL)
    fn = find_function(t, "eval_expression")
    if fn is None:
        raise AnalysisError("eval_expression not found", anchor=EVAL + "::eval_expression")
    from ..source import module_const

    def fold(e, depth=0):
        if depth > 5:
            return None
        if isinstance(e, ast.Constant) and isinstance(e.value, str):
            return e.value
        if isinstance(e, ast.BinOp) and isinstance(e.op, ast.Add):
            l, r = fold(e.left, depth + 1), fold(e.right, depth + 1)
            return l + r if l is not None and r is not None else None
        if isinstance(e, ast.Name):
            loc = [a_ for a_ in ast.walk(fn) if isinstance(a_, ast.Assign) and len(a_.targets) == 1 and isinstance(a_.targets[0], ast.Name) and a_.targets[0].id == e.id]
            if len(loc) == 1:
                return fold(loc[0].value, depth + 1)
            v = module_const(t, e.id)
            return fold(v, depth + 1) if v is not None else None
        return None

    def repl_rewrites(r_):
        return "var_" in src(r_) or (isinstance(r_, ast.Name) and any(
            isinstance(f, (ast.FunctionDef, ast.Lambda)) and getattr(f, "name", None) == r_.id and "var_" in src(f) for f in ast.walk(fn)))
    subs = []      # (call, pattern expression)
    for c in walk_no_nested(fn):
        if not (isinstance(c, ast.Call) and isinstance(c.func, ast.Attribute) and c.func.attr == "sub"):
            continue
        if src(c.func.value) == "re" and len(c.args) >= 3 and repl_rewrites(c.args[1]):
            subs.append((c, c.args[0]))
        elif isinstance(c.func.value, ast.Name) and len(c.args) >= 2 and repl_rewrites(c.args[0]):
            v = module_const(t, c.func.value.id)
            if isinstance(v, ast.Call) and src(v.func) in ("re.compile", "compile") and v.args:
                subs.append((c, v.args[0]))
    ctx.floor(rule, EVAL, "rewriting of `$name` into evaluator names", len(subs), 1)
    for c, pat in subs:
        txt = fold(pat)
        if txt is not None:
            try:
                ms = [m.group(0) for m in re.finditer(txt, 'f($a, "keep $b here", \'and $c\') + $d')]
                skips = '"keep $b here"' in ms and "'and $c'" in ms and "$b" not in ms and "$c" not in ms and "$a" in ms and "$d" in ms
                how = "evaluated on a probe: %s" % ms
            except re.error as e:
                skips, how = False, "pattern does not compile: %s" % e
        else:
            ptxt = src(pat)
            skips = "string_pattern" in ptxt.lower() or any(isinstance(x, ast.Name) and "string" in x.id.lower() for x in ast.walk(pat))
            how = "pattern not constant-foldable; judged by its parts"
        ctx.check(rule, EVAL, "eval_expression", "`$name` is rewritten outside string literals only", skips,
                  "the rewriting pattern matches string literals as a whole and leaves them unchanged (%s)" % how if skips else
                  "`%s` rewrites `$name` everywhere in the expression text, also inside string literals: a written string that contains `$word` is compared (bound, returned) as "
                  "`var_word` (%s)" % (first_line(c, 70), how), line=c.lineno)


def find_arg_matcher(t):
    fn = find_function(t, "_compute_arguments_dict_matching_score")
    if fn is None:
        # role signature: the function that dispatches on isinstance(<2nd param>, dict|list|set)
        for f in functions(t):
            if len(f.args.args) == 2:
                kinds = {src(c.args[1]) for c in ast.walk(f) if isinstance(c, ast.Call) and isinstance(c.func, ast.Name) and c.func.id == "isinstance"
                         and len(c.args) == 2 and isinstance(c.args[0], ast.Name) and c.args[0].id == f.args.args[1].arg}
                if {"dict", "list", "set"} <= kinds:
                    fn = f
    if fn is None:
        raise AnalysisError("argument matcher not found", anchor=SM + "::_compute_arguments_dict_matching_score")
    return fn


def branches(fn):
    """{kind text: (If node, body)} of the isinstance(ref, K) chain."""
    ref = fn.args.args[1].arg
    out = {}
    for n in ast.walk(fn):
        if isinstance(n, ast.If):
            # the kind test is the condition itself or one of its conjuncts (an isinstance inside an `or` - e.g. the type guard that lets dict subclasses through - selects nothing)
            for c in conjuncts(n.test):
                if isinstance(c, ast.Call) and isinstance(c.func, ast.Name) and c.func.id == "isinstance" and len(c.args) == 2 \
                        and isinstance(c.args[0], ast.Name) and c.args[0].id == ref:
                    out.setdefault(src(c.args[1]), (n, n.body))
    return out


def _negated(call, test):
    p = getattr(call, "_parent", None)
    while p is not None and p is not getattr(test, "_parent", None):
        if isinstance(p, ast.UnaryOp) and isinstance(p.op, ast.Not):
            return True
        if p is test:
            break
        p = getattr(p, "_parent", None)
    return False


def _is_ret0(s):
    return isinstance(s, ast.Return) and isinstance(s.value, ast.Constant) and s.value.value == 0.0 and isinstance(s.value.value, float)


def _len_of(e, name):
    return isinstance(e, ast.Call) and isinstance(e.func, ast.Name) and e.func.id == "len" and len(e.args) == 1 \
        and isinstance(e.args[0], ast.Name) and e.args[0].id == name


def _derives(e, name, env):
    """Is expression e an element of container `name`? (name[...], or a loop variable over it)"""
    if isinstance(e, ast.Subscript) and isinstance(e.value, ast.Name) and e.value.id == name:
        return True
    if isinstance(e, ast.Name) and env.get(e.id) == name:
        return True
    return False


def a_siblings(ctx, fn):
    args, ref = fn.args.args[0].arg, fn.args.args[1].arg
    br = branches(fn)
    unit = fn.name
    for k in KINDS:
        if k not in br:
            ctx.check("C04.a.siblings", SM, unit, "branch isinstance(%s, %s)" % (ref, k), False, "no branch for expected containers of kind %s" % k, line=fn.lineno)
            continue
        ifn, body = br[k]
        lin = linear(body)  # guard clauses read as a straight sequence
        # loop variables: for v in X / for v in X.keys()
        env = {}
        for n in [x for s in body for x in ast.walk(s)]:
            if isinstance(n, ast.For) and isinstance(n.target, ast.Name):
                it = n.iter
                if isinstance(it, ast.Call) and isinstance(it.func, ast.Attribute) and it.func.attr in ("keys",):
                    it = it.func.value
                if isinstance(it, ast.Name):
                    env[n.target.id] = it.id
        # (1) size guard: some `if len(ref) > len(args)` / `len(args) < len(ref)` whose body returns 0.0, before any loop
        guard = None
        for s in lin:
            if isinstance(s, (ast.For, ast.While)):
                break
            if isinstance(s, ast.If) and isinstance(s.test, ast.Compare) and len(s.test.ops) == 1 and any(_is_ret0(x) for x in s.body):
                l, op, r = s.test.left, s.test.ops[0], s.test.comparators[0]
                if (isinstance(op, ast.Gt) and _len_of(l, ref) and _len_of(r, args)) or (isinstance(op, ast.Lt) and _len_of(l, args) and _len_of(r, ref)):
                    guard = s
        ctx.check("C04.a.size-guard", SM, unit, "%s branch" % k, guard is not None,
                  "the %s branch starts with `if len(%s) > len(%s): return 0.0`" % (k, ref, args) if guard is not None else
                  "the %s branch has no leading guard `len(expected) > len(received) => 0.0`: a pattern is matched against a received %s with fewer elements than expected (documented as no match), and the specificity factor 0.9 ** (negative) exceeds 1" % (k, k),
                  line=ifn.lineno)
        # (2) recursive calls: (received element, expected element)
        recs = [c for s in body for c in ast.walk(s) if isinstance(c, ast.Call) and isinstance(c.func, ast.Name) and c.func.id == fn.name]
        okrec = bool(recs) and all(len(c.args) == 2 and _derives(c.args[0], args, env) and _derives(c.args[1], ref, env) for c in recs)
        ctx.check("C04.a.recursion", SM, unit, "%s branch" % k, okrec,
                  "elements are compared by recursive calls (received element, expected element): %s" % [src(c) for c in recs], line=ifn.lineno)
        # (3) a `return 0.0` besides the size guard (expected element without partner)
        rets = [x for s in body for x in ast.walk(s) if _is_ret0(x) and (guard is None or x not in list(guard_walk(guard)))]
        ctx.check("C04.a.no-partner", SM, unit, "%s branch" % k, len(rets) >= 1,
                  "an expected element without a matching partner returns 0.0 (%d return(s))" % len(rets), line=ifn.lineno)
        # (4) specificity factor once
        facs = []
        for s in body:
            for x in ast.walk(s):
                if isinstance(x, ast.AugAssign) and isinstance(x.op, ast.Mult) and isinstance(x.value, ast.BinOp) and isinstance(x.value.op, ast.Pow):
                    b, e = x.value.left, x.value.right
                    if isinstance(b, ast.Constant) and b.value == 0.9 and isinstance(e, ast.BinOp) and isinstance(e.op, ast.Sub) \
                            and _len_of(e.left, args) and _len_of(e.right, ref):
                        facs.append(x)
        top = [x for x in facs if any(x is s for s in lin)]
        ctx.check("C04.a.specificity", SM, unit, "%s branch" % k, len(facs) == 1 and len(top) == 1,
                  "the factor 0.9 ** (len(%s) - len(%s)) is applied exactly once, unconditionally (found %d, %d unconditional)" % (args, ref, len(facs), len(top)), line=ifn.lineno)
        # (5) the driving loop iterates over the expected container
        loops = [s for s in lin if isinstance(s, (ast.For, ast.While))]
        ok5 = False
        if loops:
            lp = loops[0]
            if isinstance(lp, ast.For):
                names = {n.id for n in ast.walk(lp.iter) if isinstance(n, ast.Name)}
                ok5 = ref in names and args not in names
            else:
                ok5 = any(_len_of(n, ref) for n in ast.walk(lp.test))
        ctx.check("C04.a.loop-over-expected", SM, unit, "%s branch" % k, ok5,
                  "the comparison is driven by the *expected* container (so unmentioned parameters cannot prevent a match)", line=ifn.lineno)


def b_dispatch(ctx, fn):
    br = branches(fn)
    for k in ("re.Pattern", "ComparisonExpression", "dict", "list", "set"):
        ctx.check("C04.b.dispatch", SM, fn.name, "kind %s" % k, k in br, "pattern kind %s has a dispatch branch" % k, line=fn.lineno)
    # type mismatch => 0.0 ; fall-through is equality
    args, ref = fn.args.args[0].arg, fn.args.args[1].arg
    eq = [n for n in ast.walk(fn) if isinstance(n, ast.If) and isinstance(n.test, ast.Compare) and len(n.test.ops) == 1
          and isinstance(n.test.ops[0], ast.NotEq) and {src(n.test.left), src(n.test.comparators[0])} == {args, ref} and any(_is_ret0(x) for x in n.body)]
    ctx.check("C04.b.fallthrough", SM, fn.name, "scalar equality", len(eq) == 1, "scalars fall through to `%s != %s => 0.0`" % (args, ref), line=fn.lineno)
    # the side taken when the received value is neither an instance of the pattern's type nor (for dict patterns) a dict of another dict class returns 0.0
    tm = []
    core = "isinstance(%s,type(%s))" % (ref, args)
    for n in ast.walk(fn):
        if not isinstance(n, ast.If):
            continue
        hit = [a_ for a_ in atoms(n.test) if re.sub(r"\s", "", src(a_)) == core]
        if not hit:
            continue
        facts = {(lambda e, h=hit[0]: e is h): False,
                 (lambda e: isinstance(e, ast.Call) and src(e.func) == "isinstance" and len(e.args) == 2 and src(e.args[0]) == args): False}
        v = truth(n.test, facts)
        if v is not None and any(_is_ret0(x) for x in side(n, v)):
            tm.append(n)
    # ... but a dict is a dict: `$info = {...}` is handed on as a dict SUBCLASS (attribute access), and the received event is not serialised on the way back in, so an
    # expected dict literal must match an equal received dict of another dict class (F133)
    sub_ok = True
    for n in tm:
        hit = [a_ for a_ in atoms(n.test) if re.sub(r"\s", "", src(a_)) == core]
        facts = {(lambda e, h=hit[0]: e is h): False,
                 (lambda e: isinstance(e, ast.Call) and src(e.func) == "isinstance" and len(e.args) == 2 and src(e.args[1]) == "dict"): True}
        v = truth(n.test, facts)
        if v is None or any(_is_ret0(x) for x in side(n, v)):
            sub_ok = False
    ctx.check("C04.b.type-mismatch", SM, fn.name, "dict pattern vs. dict of another class", bool(tm) and sub_ok,
              "two dicts are compared by the dict rules whatever their classes" if tm and sub_ok else
              "the type guard returns 0.0 for an expected `dict` against a received dict subclass: `match Ev(info={\"battery\": \"low\"})` does not advance on an equal dict that was "
              "sent from a variable (`send Ev(info=$info)`)", line=(tm[0].lineno if tm else fn.lineno))
    ctx.check("C04.b.type-mismatch", SM, fn.name, "type mismatch", len(tm) == 1, "a value of another type than the pattern is no match (0.0)", line=fn.lineno)
    # producers of pattern objects exist in eval.py's function table with those types
    EV = "nemoguardrails/colang/v2_x/runtime/eval.py"
    et = ctx.tree.ast(EV)
    produced = set()
    for f in functions(et):
        if f.returns is not None:
            r = src(f.returns)
            if "re.Pattern" in r or "Pattern" in r:
                produced.add("re.Pattern")
            if "ComparisonExpression" in r:
                produced.add("ComparisonExpression")
    for n in ast.walk(et):
        if isinstance(n, ast.Call) and isinstance(n.func, ast.Name) and n.func.id == "ComparisonExpression":
            produced.add("ComparisonExpression")
        if isinstance(n, ast.Call) and isinstance(n.func, ast.Attribute) and n.func.attr == "compile" and src(n.func.value) == "re":
            produced.add("re.Pattern")
    ctx.check("C04.b.producers", EV, "functions table", "pattern producers", produced == {"re.Pattern", "ComparisonExpression"},
              "expression functions produce exactly the pattern object kinds the matcher dispatches on: %s" % sorted(produced))


def _positive_const(v):
    if isinstance(v, ast.Constant) and isinstance(v.value, (int, float)) and 0 < v.value <= 1:
        return True
    return re.sub(r"\s", "", src(v)) in ("sys.float_info.min", "sys.float_info.epsilon", "float_info.min")


def _range_ok(v):
    """value set of a returned expression is within {-1.0} u [0, 1]"""
    if isinstance(v, ast.Constant) and v.value in (0.0, -1.0, 1.0):
        return True
    if isinstance(v, ast.Name) and v.id == "score":
        return True
    if isinstance(v, ast.Call) and isinstance(v.func, ast.Attribute) and v.func.attr == "compare":
        return True
    if isinstance(v, ast.Call) and src(v.func) == "float" and len(v.args) == 1:
        return _range_ok(v.args[0])
    if isinstance(v, ast.Call) and src(v.func) == "max" and len(v.args) == 2:
        a, b = v.args
        return (_range_ok(a) and _positive_const(b)) or (_range_ok(b) and _positive_const(a))
    return False


def d_range(ctx, fn):
    ok, bad = True, None
    rets = [n for n in walk_no_nested(fn) if isinstance(n, ast.Return)]
    for r in rets:
        v = r.value
        good = _range_ok(v)
        ctx.check("C04.d.range", SM, fn.name, src(r), good, "return value is 0.0, the accumulated score (possibly floored), or the result of compare(...)", line=r.lineno)
    # "0.0" means no match: the value returned for a MATCH (the accumulated product of up to thousands of 0.9 factors) needs a positive floor
    succ = [r for r in rets if any(isinstance(x, ast.Name) and x.id == "score" for x in ast.walk(r.value))]
    for r in succ:
        v = r.value
        floored = isinstance(v, ast.Call) and src(v.func) == "max" and any(_positive_const(a) for a in v.args)
        ctx.check("C04.d.range", SM, fn.name, "positive floor on the match result", floored,
                  "the score returned for a match has a positive floor: the product of many fuzzy factors cannot underflow to 0.0 (= no match)" if floored else
                  "`%s`: each unmentioned element multiplies the score by 0.9, so with ~7100 extra elements the product underflows to exactly 0.0 and a matching event is treated as not matching" % src(r),
                  line=r.lineno)
    inits = [n for n in walk_no_nested(fn) if isinstance(n, ast.Assign) and any(isinstance(t, ast.Name) and t.id == "score" for t in n.targets)]
    augs = [n for n in walk_no_nested(fn) if isinstance(n, ast.AugAssign) and isinstance(n.target, ast.Name) and n.target.id == "score"]
    ctx.check("C04.d.range", SM, fn.name, "score initialisation", len(inits) == 1 and isinstance(inits[0].value, ast.Constant) and inits[0].value.value == 1.0,
              "score is initialised once to 1.0", line=fn.lineno)
    ctx.check("C04.d.range", SM, fn.name, "score updates", bool(augs) and all(isinstance(a.op, ast.Mult) for a in augs),
              "score is only ever multiplied (%d updates)" % len(augs), line=fn.lineno)


def e_primitives(ctx, fn):
    br = branches(fn)
    args = fn.args.args[0].arg
    if "re.Pattern" in br:
        ifn, body = br["re.Pattern"]
        calls = [c for s in body for c in ast.walk(s) if isinstance(c, ast.Call) and isinstance(c.func, ast.Attribute)
                 and c.func.attr in ("search", "match", "fullmatch", "findall")]
        ok = len(calls) == 1 and calls[0].func.attr == "search"
        strconv = any(isinstance(s, ast.Assign) and src(s.value) == "str(%s)" % args for s in body)
        neg = any(isinstance(s, ast.If) and isinstance(s.test, ast.UnaryOp) and isinstance(s.test.op, ast.Not) and any(_is_ret0(x) for x in s.body) for s in body)
        ctx.check("C04.e.regex", SM, fn.name, "regex primitive", ok and strconv and neg,
                  "a regex pattern is applied with .search (found anywhere in the value, as documented) to str(value), and no hit => 0.0 (method: %s)" % [c.func.attr for c in calls],
                  line=ifn.lineno)
    if "ComparisonExpression" in br:
        ifn, body = br["ComparisonExpression"]
        calls = [c for st in body for c in ast.walk(st) if isinstance(c, ast.Call) and isinstance(c.func, ast.Attribute) and c.func.attr == "compare"]
        # besides the delegation the branch may only answer the identity case (`value is pattern` => 1.0: a flow's own reference event carries the flow's arguments)
        def _identity_case(st):
            return isinstance(st, ast.If) and isinstance(st.test, ast.Compare) and len(st.test.ops) == 1 and isinstance(st.test.ops[0], ast.Is) \
                and {src(st.test.left), src(st.test.comparators[0])} == {args, fn.args.args[1].arg} \
                and all(isinstance(x, ast.Return) and isinstance(x.value, ast.Constant) and x.value.value == 1.0 for x in st.body)
        flat = linear(body)
        ok = len(calls) == 1 and [src(a) for a in calls[0].args] == [args] and all(isinstance(st, (ast.Return, ast.Try)) or _identity_case(st) for st in flat)
        ctx.check("C04.e.comparison", SM, fn.name, "comparison primitive", ok, "a ComparisonExpression delegates to its compare(value)", line=ifn.lineno)
        # the reference event of `$flow_ref.Finished()` copies the instance's arguments, so the pattern object itself arrives as the value: that is a match (F134)
        ident = any(_identity_case(st) for st in flat)
        ctx.check("C04.e.comparison", SM, fn.name, "a comparison pattern matches itself", ident,
                  "`value is pattern` => 1.0" if ident else
                  "a flow started with a comparison pattern as argument (`await temperature reached(threshold=greater_than(30))`) never matches its own Finished event: the reference "
                  "event carries the pattern object, compare(pattern) raises and is turned into 0.0 - the awaiting flow hangs", line=ifn.lineno)
        # compare() raises for values it cannot compare; the matcher must turn that into "no match"
        ev = ctx.tree.ast("nemoguardrails/colang/v2_x/runtime/eval.py")
        cmpf = find_function(ev, "compare", "ComparisonExpression")
        raises = cmpf is not None and any(isinstance(x, ast.Raise) for x in ast.walk(cmpf))
        if calls and raises:
            c = calls[0]
            covered = False
            p = getattr(c, "_parent", None)
            while p is not None and p is not fn:
                if isinstance(p, ast.Try) and any(c is x for st in p.body for x in ast.walk(st)):
                    covered = any(any(isinstance(r, ast.Return) and isinstance(r.value, ast.Constant) and r.value.value == 0.0 for r in ast.walk(h)) for h in p.handlers)
                p = getattr(p, "_parent", None)
            ctx.check("C04.e.comparison", SM, fn.name, "comparison is total", covered,
                      "compare() raises for values of another type; the matcher catches that and reports no match (0.0)" if covered else
                      "compare() raises ColangValueError for a value of another type and the matcher calls it unguarded: an event like Reading(value=\"n/a\") against `less_than(5)` raises out of "
                      "run_to_completion and NO flow processes the event", line=c.lineno)


def c_identity(ctx, t, argfn):
    fn = find_function(t, "_compute_event_comparison_score")
    if fn is None:
        raise AnalysisError("_compute_event_comparison_score not found", anchor=SM + "::_compute_event_comparison_score")
    cfg = CFG(fn)
    unit = fn.name
    scoring = [n for n in cfg.nodes if n.kind == "stmt" and isinstance(n.ast, ast.Assign) and isinstance(n.ast.value, ast.Call)
               and isinstance(n.ast.value.func, ast.Name) and n.ast.value.func.id == argfn.name]
    if len(scoring) < 2:
        raise AnalysisError("argument scoring calls not found in _compute_event_comparison_score", anchor=SM + "::" + unit + "::scoring")

    def edge(n, value):
        return [m for m, lab in n.succ if lab is value]

    def ret0_tests(facts, need):
        """test nodes that, under the given facts (atom -> truth), have a definite outcome whose edge returns 0.0 at once; `need` = predicate on the test's text"""
        out = []
        for n in cfg.nodes:
            if n.kind != "test" or not isinstance(n.stmt, ast.If) or n.ast is None or not need(re.sub(r"\s", "", src(n.ast))):
                continue
            v = truth(n.ast, facts)
            if v is None:
                continue
            tgt = edge(n, v)
            if tgt and all(m.kind == "stmt" and _is_ret0(m.ast) for m in tgt):
                out.append((n, v))
        return out

    # UMIM branch: scoring on a copy of the event
    umim = [n for n in scoring if "copy" in src(n.ast.value.args[0])]
    ctx.floor("C04.c.identity", SM, "argument scoring of action events", len(umim), 1)
    NAME_EQ = "event.name == ref_event.name"
    UID_EQ = "event.action_uid == ref_event.action_uid"
    name_tests = ret0_tests({NAME_EQ: False}, lambda s: "action_uid" not in s and "InternalEvents" not in s)
    uid_tests = ret0_tests({UID_EQ: False, "ref_event.action_uid is None": False}, lambda s: "action_uid" in s)
    for a in umim:
        # path-sensitive: with the two names different, the argument scoring of action events cannot be reached (whatever the nesting / polarity of the tests)
        ok = a not in cfg.reachable_under([cfg.entry], {NAME_EQ: False}) and bool(name_tests)
        ctx.check("C04.c.identity", SM, unit, "name before arguments", ok, "`ref_event.name != event.name => 0.0` dominates the argument scoring of action events", line=a.line)
        # a statement that refers to a specific action instance (expected uid not None) and an event of ANOTHER instance (uids differ), both events carrying the attribute:
        # the scoring is unreachable, for known and unknown actions alike
        facts = {UID_EQ: False, "ref_event.action_uid is None": False, "hasattr(event,'action_uid')": True, "hasattr(ref_event,'action_uid')": True, NAME_EQ: True}
        reach = cfg.reachable_under([cfg.entry], facts)
        ok = bool(uid_tests) and a not in reach
        msg = "a statement referring to a specific action instance returns 0.0 for events of another instance before arguments are scored" if ok else (
            "no `action_uid` inequality test returning 0.0" if not uid_tests else
            "the argument scoring can be reached although the statement names another action instance than the event's (the instance test is skipped on some path, "
            "e.g. for an action the state does not know): `match $ref.Finished()` advances on another instance's event")
        ctx.check("C04.c.identity", SM, unit, "action instance before arguments", ok, msg, line=a.line)
    # internal events
    internal = [n for n in scoring if n not in umim and any(isinstance(p, ast.If) and "InternalEvents.ALL" in src(p.test) for p in _anc(n.ast, fn))]
    ctx.floor("C04.c.identity", SM, "argument scoring of internal events", len(internal), 1)

    def _differs(x):
        # `<argfn>(<received>, <expected>) != 1.0` = "the two values do not match exactly"
        return isinstance(x, ast.Compare) and len(x.ops) == 1 and isinstance(x.ops[0], (ast.NotEq, ast.Eq)) and isinstance(x.left, ast.Call) and src(x.left.func) == argfn.name \
            and isinstance(x.comparators[0], ast.Constant) and x.comparators[0].value == 1.0
    for a in internal:
        ok, why = False, "no test of flow_id / source flow instance returning 0.0 dominates the argument scoring"
        for n in cfg.nodes:
            if n.kind != "test" or n.ast is None or not cfg.dominates(n, a):
                continue
            cmps = [x for x in atoms(n.ast) if _differs(x)]
            txt = src(n.ast)
            if len(cmps) != 2 or "flow_id" not in txt or "source_flow_instance_uid" not in txt or "ref_event.flow.uid" not in txt:
                continue
            # either comparison failing (value present, not an exact match) decides the test; that outcome returns 0.0 and never reaches the scoring
            good = True
            for c in cmps:
                key, _pol = atom_key(c)
                facts = {key: False, (lambda t_: not _differs(t_)): True}
                v = truth(n.ast, facts)
                tgt = edge(n, v) if v is not None else []
                if v is None or not tgt or not all(m.kind == "stmt" and _is_ret0(m.ast) for m in tgt) or a in cfg.reachable(tgt):
                    good = False
            if good:
                ok = True
        ctx.check("C04.c.identity", SM, unit, "flow instance before arguments", ok,
                  "for internal events the flow_id and the source flow instance (ref_event.flow.uid) are compared, returning 0.0, before arguments are scored", line=a.line)


def c_internal_name(ctx, t):
    """Internal events (FlowStarted/FlowFinished/FlowFailed of one flow are all offered to a head waiting on any of them): a positive score requires
    equal names.  On every path from a positive argument score to a positive result the name test must be taken."""
    fn = find_function(t, "_compute_event_comparison_score")
    cfg = CFG(fn)
    internal_scoring = [n for n in cfg.nodes if n.kind == "stmt" and isinstance(n.ast, ast.Assign) and isinstance(n.ast.value, ast.Call)
                        and any(isinstance(p, ast.If) and "InternalEvents.ALL" in src(p.test) and any(b is n.ast or any(x is n.ast for x in ast.walk(b)) for b in p.body)
                                for p in _anc(n.ast, fn))
                        and src(n.ast.targets[0]) == "match_score"]
    if not internal_scoring:
        raise AnalysisError("argument scoring of internal events not found", anchor=SM + "::_compute_event_comparison_score::internal")
    name_tests = [n for n in cfg.nodes if n.kind == "test" and n.ast is not None and isinstance(n.ast, ast.Compare) and len(n.ast.ops) == 1
                  and isinstance(n.ast.ops[0], (ast.NotEq, ast.Eq)) and {re.sub(r"\s", "", src(n.ast.left)), re.sub(r"\s", "", src(n.ast.comparators[0]))} == {"ref_event.name", "event.name"}]
    # elif-chains: the test node of `elif ref_event.name != event.name` is keyed by the compare itself
    def nonpositive_return(n):
        a = n.ast
        return isinstance(a, ast.Return) and isinstance(a.value, (ast.Constant, ast.UnaryOp)) and (
            (isinstance(a.value, ast.Constant) and isinstance(a.value.value, (int, float)) and a.value.value <= 0) or
            (isinstance(a.value, ast.UnaryOp) and isinstance(a.value.op, ast.USub)))
    for sc in internal_scoring:
        # walk forward from the scoring, never through a name test; reaching the function exit by anything but a non-positive constant return is a leak
        seen = set()
        stack = [m for m, _ in sc.succ]
        leak = None
        while stack and leak is None:
            n = stack.pop()
            if n in seen or n in name_tests:
                continue
            seen.add(n)
            if n.ast is not None and isinstance(n.ast, ast.Return):
                if not nonpositive_return(n):
                    leak = n
                continue
            if n is cfg.exit:
                leak = n
                continue
            if n.kind == "test" and re.sub(r"\s", "", src(n.ast)) in ("match_score>0.0", "match_score>0"):
                # only a positive argument score can become a positive result
                stack.extend(m for m, lab in n.succ if lab is True)
                continue
            stack.extend(m for m, _ in n.succ)
        ok = leak is None and bool(name_tests)
        ctx.check("C04.c.identity", SM, fn.name, "internal events: name test on every positive path", ok,
                  "every path from the argument score of an internal event to a positive result passes `ref_event.name != event.name => 0.0` (or ends in a mismatch/zero return)" if ok else
                  "a path from the argument score of an internal event reaches a positive result (line %s) without comparing the event names: a head waiting for FlowStarted advances on the FlowFinished/FlowFailed of the same flow"
                  % (getattr(leak.ast, "lineno", "?") if leak is not None and leak.ast is not None else "end"), line=sc.line)


def c_class_agreement(ctx, t):
    """An expected bare event and a received external event are compared only if they are of the same class (isinstance gate).  Both sides decide
    'is this an action event?' from the NAME; the two predicates must be the same."""
    def norm_guard(test, subject_hint):
        # resolve a one-line helper predicate
        e = test
        if isinstance(e, ast.Call) and isinstance(e.func, ast.Name) and len(e.args) == 1:
            h = find_function(t, e.func.id)
            if h is not None and len([x for x in h.body if not (isinstance(x, ast.Expr) and isinstance(x.value, ast.Constant))]) == 1:
                body = [x for x in h.body if not (isinstance(x, ast.Expr) and isinstance(x.value, ast.Constant))][0]
                if isinstance(body, ast.Return):
                    txt = src(body.value)
                    return re.sub(r"\b%s\b" % h.args.args[0].arg, "NAME", re.sub(r"\s", "", txt))
            return re.sub(r"\s", "", src(e.func)) + "(NAME)"
        txt = re.sub(r"\s", "", src(e))
        for subj in subject_hint:
            txt = txt.replace(subj, "NAME")
        return txt
    recv = exp = None
    for fn in functions(t):
        for i in [x for x in ast.walk(fn) if isinstance(x, ast.If)]:
            body_src = "".join(src(b) for b in i.body)
            if "ActionEvent.from_umim_event(" in body_src and recv is None and "from_umim_event" in "".join(src(b) for b in i.orelse):
                recv = (fn, i, norm_guard(i.test, ['external_event["type"]', "external_event['type']"]))
            if fn.name == "get_event_from_element" and re.search(r"\bActionEvent\(", body_src) and "element_spec.name" in src(i.test) and exp is None \
                    and "members" not in src(i.test) and isinstance(i.test, (ast.Compare, ast.Call, ast.BoolOp)):
                exp = (fn, i, norm_guard(i.test, ["element_spec.name"]))
    if recv is None or exp is None:
        raise AnalysisError("action-event classification sites not found (received: %s, expected: %s)" % (recv is not None, exp is not None), anchor=SM + "::action-event classification")
    ok = recv[2] == exp[2]
    ctx.check("C04.c.class-agreement", SM, exp[0].name, first_line(exp[1].test, 70), ok,
              "expected and received events are classified as action events by the same name predicate `%s`" % exp[2] if ok else
              "the expected side classifies by `%s` but received events by `%s` (%s): for a name on which they differ the classes differ, the isinstance gate returns 0.0 and the match never completes"
              % (exp[2], recv[2], recv[0].name), line=exp[1].lineno)


def _anc(node, stop):
    p = getattr(node, "_parent", None)
    while p is not None and p is not stop:
        yield p
        p = getattr(p, "_parent", None)


def a_list_scan(ctx, fn):
    """List rule 'expected items found in order': the cursor over the RECEIVED list advances on
    every iteration (a received element is used at most once), the cursor over the EXPECTED list
    only after a successful comparison."""
    args, ref = fn.args.args[0].arg, fn.args.args[1].arg
    br = branches(fn)
    if "list" not in br:
        return
    ifn, body = br["list"]
    loops = [s for s in linear(body) if isinstance(s, ast.While)]
    if not loops:
        ctx.check("C04.a.list-scan", SM, fn.name, "list scan loop", False, "no scanning loop in the list branch", line=ifn.lineno)
        return
    lp = loops[0]
    rec = [c for c in ast.walk(lp) if isinstance(c, ast.Call) and isinstance(c.func, ast.Name) and c.func.id == fn.name]
    if not rec or not isinstance(rec[0].args[0], ast.Subscript) or not isinstance(rec[0].args[1], ast.Subscript):
        ctx.check("C04.a.list-scan", SM, fn.name, "list scan cursors", False, "the element comparison does not index both lists", line=lp.lineno)
        return
    ri, ei = src(rec[0].args[0].slice), src(rec[0].args[1].slice)
    inc_r_top = [s for s in linear(lp.body) if isinstance(s, ast.AugAssign) and src(s.target) == ri and isinstance(s.op, ast.Add) and src(s.value) == "1"]
    inc_r_all = [s for s in ast.walk(lp) if isinstance(s, ast.AugAssign) and src(s.target) == ri]
    ok_r = len(inc_r_top) == 1 and len(inc_r_all) == 1
    ctx.check("C04.a.list-scan", SM, fn.name, "received cursor %s" % ri, ok_r,
              "the cursor over the received list advances unconditionally, once per iteration (each received element can satisfy at most one expected item)" if ok_r else
              "the cursor over the received list does not advance on every iteration: one received element can satisfy several consecutive expected items (e.g. pattern [1, 1] matches [1, 2])",
              line=lp.lineno)
    inc_e = [s for s in ast.walk(lp) if isinstance(s, ast.AugAssign) and src(s.target) == ei]
    ok_e = len(inc_e) == 1 and not any(inc_e[0] is s for s in linear(lp.body))
    if ok_e:
        par = getattr(inc_e[0], "_parent", None)
        ok_e = isinstance(par, ast.If) and "> 0" in src(par.test)
    ctx.check("C04.a.list-scan", SM, fn.name, "expected cursor %s" % ei, ok_e,
              "the cursor over the expected list advances only after a successful comparison (items are found in order)", line=lp.lineno)
    bound = re.sub(r"\s", "", src(lp.test))
    ok_b = ("%s<len(%s)" % (ei, ref)) in bound and ("%s<len(%s)" % (ri, args)) in bound
    ctx.check("C04.a.list-scan", SM, fn.name, "loop bound", ok_b, "the scan stops when either list is exhausted", line=lp.lineno)


def d_priority(ctx, t):
    """The flow priority only SCALES a match: a declared priority (range-checked to [0, 1]) must
    not turn a matching event into a non-match."""
    fn = find_function(t, "_compute_event_comparison_score")
    muls = [s for s in ast.walk(fn) if (isinstance(s, ast.AugAssign) and isinstance(s.op, ast.Mult) and isinstance(s.value, ast.Name) and s.value.id == "priority") or
            (isinstance(s, ast.Assign) and src(s.targets[0]) == "match_score" and any(isinstance(b, ast.BinOp) and isinstance(b.op, ast.Mult) and "priority" in src(b) for b in ast.walk(s.value)))]
    ctx.floor("C04.d.priority", SM, "priority scaling of the match score", len(muls), 1)
    cfg = CFG(fn)
    finals = [n for n in cfg.nodes if n.kind == "stmt" and isinstance(n.ast, ast.Return) and isinstance(n.ast.value, ast.Name)]
    for m in muls:
        par = getattr(m, "_parent", None)
        if isinstance(par, ast.If) and finals:
            tnode = cfg.node_of(par.test)
            allpaths = all(cfg.must_pass(cfg.entry, f, [tnode]) for f in finals)
            ctx.check("C04.d.priority", SM, fn.name, "priority applied on every matching path", allpaths,
                      "every path that returns a computed match score (action events, internal events, StartFlow) passes the priority scaling" if allpaths else
                      "the priority scaling is skipped on some path to `return %s`: for those event kinds a declared flow priority is ignored and the conflict becomes a random tie" % src(finals[0].ast.value),
                      line=par.lineno)
        floored = isinstance(m, ast.Assign) and isinstance(m.value, ast.Call) and src(m.value.func) == "max" and any(_positive_const(a) for a in m.value.args)
        ok = floored or (isinstance(par, ast.If) and re.sub(r"\s", "", src(par.test)) in ("priority", "priority>0", "priority>0.0", "priorityisnotNoneandpriority>0", "priorityandpriority>0"))
        ctx.check("C04.d.priority", SM, fn.name, src(m), ok,
                  ("the scaled score keeps a positive floor" if floored else "the score is multiplied by the priority only when the priority is non-zero (guard `%s`)" % (src(par.test) if isinstance(par, ast.If) else None)) if ok else
                  "the score is multiplied by the priority under `%s`: a flow with the allowed priority 0.0 gets score 0 for every event and its match never advances" % (src(par.test) if isinstance(par, ast.If) else "no guard"),
                  line=m.lineno)


def a_no_exempt_keys(ctx, fn):
    """`every parameter written in the statement is matched`: the dict rule may not exempt a key of the EXPECTED dict from comparison."""
    br = branches(fn)
    if "dict" not in br:
        raise AnalysisError("dict branch of the argument matcher not found", anchor=SM + "::" + fn.name + "::dict")
    ref = fn.args.args[1].arg
    loops = [l for l in ast.walk(fn) if isinstance(l, ast.For) and any(isinstance(x, ast.Name) and x.id == ref for x in ast.walk(l.iter))]
    n = 0
    for l in loops:
        n += 1
        # an exemption = the loop's key is tested for membership in a collection that is NOT the received container (that one is the presence test), in either
        # polarity and whatever the skipping looks like (continue / else-branch / guard)
        args = fn.args.args[0].arg
        keyvars = {x.id for x in ast.walk(l.target) if isinstance(x, ast.Name)}
        skips = []
        for i in ast.walk(l):
            if not isinstance(i, ast.If):
                continue
            for c in ast.walk(i.test):
                if isinstance(c, ast.Compare) and len(c.ops) == 1 and isinstance(c.ops[0], (ast.In, ast.NotIn)) and isinstance(c.left, ast.Name) and c.left.id in keyvars \
                        and not any(isinstance(x, ast.Name) and x.id == args for x in ast.walk(c.comparators[0])):
                    skips.append(c)
        ok = not skips
        construct = "for %s in %s" % (src(l.target), src(l.iter))
        if skips:
            # name the finding by WHICH keys are exempt (resolved literal), not by the name of the variable that holds them
            from ..source import local_or_module_literal
            comp = skips[0].comparators[0]
            lit = comp if isinstance(comp, (ast.List, ast.Tuple, ast.Set)) else (local_or_module_literal(fn, ctx.tree.ast(SM), comp.id) if isinstance(comp, ast.Name) else None)
            vals = sorted(str(e.value) for e in lit.elts if isinstance(e, ast.Constant)) if lit is not None else [src(comp)]
            construct = "keys exempt from comparison: %s" % ", ".join(vals)
        ctx.check("C04.a.no-exempt-keys", SM, fn.name, construct, ok,
                  "every key of the expected dict is compared" if ok else
                  "keys in `%s` are skipped at every depth and for every event: a WRITTEN parameter with such a name (e.g. `match $check.Finished(return_value=\"allowed\")`) is never compared and the "
                  "statement advances on any value" % src(skips[0].comparators[0]), line=(skips[0].lineno if skips else l.lineno))
    ctx.floor("C04.a.no-exempt-keys", SM, "loops over the expected container", n, 2)


def c_startflow_keeps_score(ctx, t):
    """StartFlow events: the score computed from ALL written parameters may be rescaled, but not replaced by a comparison of the flow ids alone."""
    fn = find_function(t, "_compute_event_comparison_score")
    target = None
    for i in [x for x in ast.walk(fn) if isinstance(x, ast.If)]:
        if "START_FLOW" in src(i.test) and "InternalEvents.ALL" not in src(i.test):
            target = i
            break
    if target is None:
        raise AnalysisError("StartFlow branch of _compute_event_comparison_score not found", anchor=SM + "::_compute_event_comparison_score::START_FLOW")
    assigns = [a for st in target.body for a in ast.walk(st) if isinstance(a, ast.Assign) and src(a.targets[0]) == "match_score"]
    first = assigns[0] if assigns else None
    ok0 = first is not None and isinstance(first.value, ast.Call) and "_compute_arguments_dict_matching_score" in src(first.value.func)
    ctx.check("C04.c.startflow", SM, fn.name, "arguments scored", ok0, "the StartFlow branch scores all written parameters", line=target.lineno)
    for a in assigns[1:]:
        keeps = any(isinstance(x, ast.Name) and x.id == "match_score" for x in ast.walk(a.value))
        ctx.check("C04.c.startflow", SM, fn.name, first_line(a, 70), keeps,
                  "the later assignment derives the score from the computed one" if keeps else
                  "the score computed from all written parameters is REPLACED by `%s`: `match StartFlow(flow_id=\"a\", x=5)` advances on StartFlow(flow_id=\"a\", x=6)" % src(a.value)[:70], line=a.lineno)


def b_flow_reference_args(ctx, t):
    """`Parameters the statement does not mention never prevent a match`: the reference event for `match (flow ...).Finished()` is produced by a temporary
    instance of the flow; the defaults/None of all its DECLARED parameters must not become expected arguments."""
    fn = find_function(t, "get_event_from_element")
    if fn is None:
        raise AnalysisError("get_event_from_element not found", anchor=SM + "::get_event_from_element")
    temps = [a for a in ast.walk(fn) if isinstance(a, ast.Assign) and isinstance(a.value, ast.Call) and src(a.value.func) == "create_flow_instance" and isinstance(a.targets[0], ast.Name)]
    ctx.floor("C04.b.flow-reference-args", SM, "temporary flow instances that produce reference events", len(temps), 1)
    for a in temps:
        tv = a.targets[0].id
        blk = None
        p = getattr(a, "_parent", None)
        for f in ("body", "orelse"):
            if isinstance(getattr(p, f, None), list) and a in getattr(p, f):
                blk = getattr(p, f)
        uses = [c for st in (blk or []) for c in ast.walk(st) if isinstance(c, ast.Call) and src(c.func) == "%s.get_event" % tv]
        if not uses:
            continue
        clears = [x for st in (blk or []) for x in ast.walk(st) if isinstance(x, ast.Assign) and src(x.targets[0]) == "%s.arguments" % tv
                  and ((isinstance(x.value, ast.Dict) and not x.value.keys) or src(x.value) == "dict()") and x.lineno < uses[0].lineno]
        # an event_arguments={} creation gives every declared parameter its default / None
        ok = bool(clears)
        ctx.check("C04.b.flow-reference-args", SM, fn.name, first_line(a, 70), ok,
                  "the temporary instance's declared-parameter defaults are dropped before the reference event for a `match` is built" if ok else
                  "the reference event is built from a temporary instance created with no arguments: every DECLARED parameter appears in it with its default (or None), "
                  "so `match (user said \"hi\").Finished()` can never match a flow that has further parameters", line=a.lineno)
