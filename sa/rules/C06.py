"""C06 - Flow and action lifetimes are bounded by the parent flow."""
import ast
import re

from ..pycfg import CFG, walk_no_nested
from ..source import find_class, truth, side, atoms, conjuncts, linear, AnalysisError, find_function, first_line, src, functions, enclosing_function, qualname

SM = "nemoguardrails/colang/v2_x/runtime/statemachine.py"
RUNTIME_FILES = ["nemoguardrails/colang/v2_x/runtime/statemachine.py", "nemoguardrails/colang/v2_x/runtime/runtime.py",
                 "nemoguardrails/colang/v2_x/runtime/flows.py", "nemoguardrails/colang/v2_x/runtime/serialization.py"]
# who may write FlowState.activated (confirmed by reading)
ACTIVATED_WRITERS = {
    "initialize_state": "main flow is activated once at start",
    "_process_internal_events_without_default_matchers": "an `activate` of an already active reference instance increments the count",
    "_start_flow": "a started flow takes its activation from the StartFlow event",
    "_abort_flow": "deactivation decrements; children of a deactivated reference are zeroed",
    "_finish_flow": "deactivation decrements; children of a deactivated reference are zeroed",
}


def run(ctx):
    ctx.explanation = ("C06: typestate discipline of action Stop events at all emission sites, effect-set sibling check of _finish_flow/_abort_flow, "
                       "scope pairing on every exit of the expansion templates (emit2), and the activation bookkeeping writers.")
    ctx.decided = ["a: every Stop emission is guarded by status in {STARTING, STARTED}, the shared-count decrement reaching 0, and sets STOPPING before the emit",
                   "a': the life-cycle events that update Action.status are applied independently of the flow that created the action (shared actions)",
                   "b: _finish_flow and _abort_flow contain the same set of lifetime effects (children, actions, heads, parent unlink, status, event, restart)",
                   "c: scopes opened by an expansion template are closed on every exit of the template (emit2)",
                   "d: `activated` is written only by the start/deactivate paths; restart is guarded identically in both siblings"]
    ctx.not_decided = ["the lifetime invariant over all hierarchies x histories x late/early/never Finished events"]
    t = ctx.tree.ast(SM)
    a_stop_discipline(ctx, t)
    a_status_follows_events(ctx, t)
    a_action_status_machine(ctx)
    d_stop_and_start_of_activated(ctx, t)
    b_siblings(ctx, t)
    d_activation(ctx)
    e_start_under_live_parent(ctx, t)
    a_action_tracking(ctx, t)
    a_finished_actions_get_no_events(ctx, t)
    f_main_flow_siblings(ctx, t)
    f_main_queued_starts(ctx, t)
    f_remove_only_ended(ctx)
    f_failed_before_start_not_restarted(ctx, t)
    d_cleanup_keeps_reference(ctx, t)
    d_deactivation(ctx, t)
    try:
        from . import C12
        C12.scope_pairing(ctx, "C06.c.scopes")
    except ImportError:
        ctx.note("C06.c (scope pairing) not available: emit2 not built")


def _status_names(test):
    return sorted({n.attr for n in ast.walk(test) if isinstance(n, ast.Attribute) and isinstance(n.value, ast.Name) and n.value.id == "ActionStatus"})


def a_finished_actions_get_no_events(ctx, t):
    """`no Stop is ever sent for an action that ... already finished`: Action.process_event lets a Start event take a FINISHED action back to STARTING (a finished action object
    may be started again by its owner).  Events that merely ARRIVE for an action - the Start echo of an instant action that the integration feeds back after its Finished - must
    therefore not be delivered to a finished action, or it looks unfinished again and gets a Stop when its flow ends.  Decided: in _update_action_status_by_event no call of
    process_event is reachable for an action whose status is FINISHED."""
    from ..source import truth as _truth
    fn = find_function(t, "_update_action_status_by_event")
    if fn is None:
        raise AnalysisError("_update_action_status_by_event not found", anchor=SM + "::_update_action_status_by_event")
    cfg = CFG(fn)
    calls = [n for n in cfg.nodes if n.ast is not None and any(isinstance(c, ast.Call) and isinstance(c.func, ast.Attribute) and c.func.attr == "process_event" for c in walk_no_nested(n.ast))]
    ctx.floor("C06.a.finished-no-events", SM, "deliveries of an action event to an action object", len(calls), 1)
    fin = (lambda a: isinstance(a, ast.Compare) and len(a.ops) == 1 and isinstance(a.ops[0], (ast.Eq, ast.Is)) and ".status" in src(a.left) and src(a.comparators[0]).endswith("FINISHED"))
    nfin = (lambda a: isinstance(a, ast.Compare) and len(a.ops) == 1 and isinstance(a.ops[0], (ast.NotEq, ast.IsNot)) and ".status" in src(a.left) and src(a.comparators[0]).endswith("FINISHED"))
    reach = set()
    stack = [cfg.entry]
    while stack:
        x = stack.pop()
        if x in reach:
            continue
        reach.add(x)
        tv = _truth(x.ast, {fin: True, nfin: False}) if x.kind == "test" and isinstance(x.ast, ast.expr) else None
        stack.extend(m for m, lab in x.succ if not (tv is not None and lab in (True, False) and lab is not tv))
    # a status test must exist at all: without one, "reachable when FINISHED" is trivially true
    tested = any(n.kind == "test" and isinstance(n.ast, ast.expr) and any(fin(a) or nfin(a) for a in ast.walk(n.ast)) for n in cfg.nodes)
    leak = [n for n in calls if n in reach]
    ok = bool(calls) and tested and not leak
    ctx.check("C06.a.finished-no-events", SM, fn.name, "a finished action receives no further events", ok,
              "process_event is only reached for actions whose status is not FINISHED" if ok else
              "an event is delivered to an action that has already FINISHED: the Start echo of an instant action takes it back to STARTING, it counts as unfinished again and "
              "`Stop...Action` is sent for it when its flow ends - a Stop for an action that finished long ago", line=(leak[0].line if leak else fn.lineno))


RT2_ = "nemoguardrails/colang/v2_x/runtime/runtime.py"


def f_main_queued_starts(ctx, t):
    """`When a flow ends ... every flow it started is stopped`.  A start that the ended flow had QUEUED (`await a or b(...)`: one branch queues StartFlow(a), the other fails the
    flow in the same pass) must not be carried out afterwards.  For ordinary flows the dispatch ignores a StartFlow whose sender is done; an ended MAIN flow is not done but WAITING
    (it behaves like an activated flow), so that test does not cover it (F173): either both main-flow branches purge the queued starts of the instance, or the dispatch test
    itself knows the waiting main flow."""
    disp = find_function(t, "_process_internal_events_without_default_matchers")
    if disp is None:
        raise AnalysisError("dispatch of internal events not found", anchor=SM + "::_process_internal_events_without_default_matchers")
    ignore_tests = [i for i in ast.walk(disp) if isinstance(i, ast.If) and "_is_done_flow" in src(i.test) and "source_flow" in src(i.test)]
    ctx.floor("C06.f.main-queued-starts", SM, "the dispatch ignores the start of a flow whose sender has ended", len(ignore_tests), 1)
    in_dispatch = any(re.search(r"['\"]main['\"]|WAITING", src(i.test)) for i in ignore_tests)
    purgers = {f.name for f in ast.walk(t) if isinstance(f, ast.FunctionDef) and "START_FLOW" in src(f) and any(
        (isinstance(c, ast.Call) and isinstance(c.func, ast.Attribute) and c.func.attr == "remove" and src(c.func.value).endswith("internal_events")) or
        (isinstance(c, ast.Assign) and src(c.targets[0]).endswith("internal_events")) for c in ast.walk(f))}
    for name in ("_finish_flow", "_abort_flow"):
        fn = find_function(t, name)
        if fn is None:
            raise AnalysisError("%s not found" % name, anchor=SM + "::" + name)
        special = [i for i in ast.walk(fn) if isinstance(i, ast.If) and re.search(r"flow_id\s*==\s*['\"]main['\"]", src(i.test))
                   and any(isinstance(a, ast.Assign) and src(a.targets[0]).endswith(".status") and src(a.value).endswith("WAITING") for st in i.body for a in ast.walk(st))]
        if not special:
            continue    # reported by C06.f.main-flow-siblings
        purged = any(isinstance(c, ast.Call) and isinstance(c.func, ast.Name) and c.func.id in purgers for st in special[0].body for c in ast.walk(st)) or \
            any(isinstance(c, ast.Call) and isinstance(c.func, ast.Attribute) and c.func.attr == "remove" and src(c.func.value).endswith("internal_events") for st in special[0].body for c in ast.walk(st))
        ok = purged or in_dispatch
        ctx.check("C06.f.main-queued-starts", SM, name, "an ended main flow does not carry out its queued starts", ok,
                  "the starts that the ended main instance had queued are %s" % ("removed from the queue of internal events" if purged else "ignored by the dispatch") if ok else
                  "%s puts the ended main flow back to WAITING and leaves its queued StartFlow events in the queue; the dispatch only ignores starts of a sender that is DONE, so the flow "
                  "is started as a child of the main flow after the children and actions of the main flow were cleaned up - it keeps running (its action is never stopped)" % name,
                  line=special[0].lineno)


def f_main_flow_siblings(ctx, t):
    """`An activated flow is started again whenever its instance ends`: the main flow is created activated, and the runtime starts it again with the next call if it WAITS.
    _finish_flow and _abort_flow are the two ways an instance ends; both must put the main flow back into the waiting state with a fresh head (sibling agreement) - if only
    the finishing side does, a main flow that FAILS stays stopped and the bot never answers again (F160)."""
    n = 0
    for name in ("_finish_flow", "_abort_flow"):
        fn = find_function(t, name)
        if fn is None:
            raise AnalysisError("%s not found" % name, anchor=SM + "::" + name)
        n += 1
        special = [i for i in ast.walk(fn) if isinstance(i, ast.If) and re.search(r"flow_id\s*==\s*['\"]main['\"]", src(i.test))
                   and any(isinstance(a, ast.Assign) and src(a.targets[0]).endswith(".status") and src(a.value).endswith("WAITING") for st in i.body for a in ast.walk(st))
                   and any(isinstance(a, ast.Assign) and src(a.targets[0]).endswith(".heads") for st in i.body for a in ast.walk(st))]
        ok = bool(special)
        if ok and name == "_abort_flow":
            # the fresh head is put into the dispatch index by _flow_head_changed only for a flow that LISTENS: the status must be WAITING before the head is registered
            # (an aborted flow is STOPPING at this point)
            i0 = special[0]
            st_line = min(a.lineno for st in i0.body for a in ast.walk(st) if isinstance(a, ast.Assign) and src(a.targets[0]).endswith(".status") and src(a.value).endswith("WAITING"))
            regs_ = [c.lineno for st in i0.body for c in ast.walk(st) if isinstance(c, ast.Call) and src(c.func) == "_flow_head_changed"]
            if regs_ and min(regs_) < st_line:
                ok = False
                ctx.check("C06.f.main-flow-siblings", SM, name, "status WAITING before the new head is registered", False,
                          "the new head of the failed main flow is registered while the flow is still STOPPING: it is not put into the dispatch index, `match StartFlow(main)` is never "
                          "found and the main flow is not started again", line=min(regs_))
                continue
        ctx.check("C06.f.main-flow-siblings", SM, name, "the main flow goes back to WAITING with a fresh head", ok,
                  "an ended main flow is reset to WAITING (new head at the start)" if ok else
                  "%s has no special case for the main flow: a main flow that ends this way stays %s, process_events does not start it again, and every later event goes unanswered"
                  % (name, "STOPPED" if "abort" in name else "FINISHED"), line=fn.lineno)
    ctx.floor("C06.f.main-flow-siblings", SM, "ways a flow instance ends", n, 2)


def f_remove_only_ended(ctx):
    """RemoveFlowsAction deletes the instances and the config of a flow id.  Deleting a RUNNING instance orphans what it started: its child flows and unfinished actions are
    neither stopped nor owned by anybody afterwards.  Decided: the deletion is not reachable for a flow id one of whose instances is still listening."""
    if not ctx.tree.exists(RT2_):
        return
    t2 = ctx.tree.ast(RT2_)
    fn = find_function(t2, "_remove_flows_action")
    if fn is None:
        raise AnalysisError("_remove_flows_action not found", anchor=RT2_ + "::_remove_flows_action")
    cfg = CFG(fn)
    dels = [n for n in cfg.nodes if n.ast is not None and any(
        (isinstance(x, ast.Delete) and any("flow_states" in src(t_) or "flow_id_states" in src(t_) or "flow_configs" in src(t_) for t_ in x.targets)) or
        (isinstance(x, ast.Call) and isinstance(x.func, ast.Attribute) and x.func.attr in ("pop",) and re.search(r"flow_states|flow_id_states|flow_configs", src(x.func.value)))
        for x in walk_no_nested(n.ast))]
    ctx.floor("C06.f.remove-only-ended", RT2_, "deletions of flow instances / configs in RemoveFlowsAction", len(dels), 1)
    live = (lambda a: isinstance(a, ast.Call) and ((isinstance(a.func, ast.Name) and a.func.id == "any") or src(a.func) in ("is_listening_flow", "is_active_flow"))
            and re.search(r"is_listening_flow|is_active_flow", src(a)) is not None)
    reach = cfg.reachable_under([cfg.entry], {live: True})
    tested = any(n.kind == "test" and isinstance(n.ast, ast.expr) and any(live(a) for a in ast.walk(n.ast)) for n in cfg.nodes)
    leak = [n for n in dels if n in reach]
    ok = tested and not leak
    ctx.check("C06.f.remove-only-ended", RT2_, "RuntimeV2_x._remove_flows_action", "running instances are not deleted", ok,
              "a flow id with a listening instance is skipped" if ok else
              "`%s` is reached also when an instance of the flow is still running: the instance vanishes from the state while the child flows and actions it started keep running "
              "with no owner (never stopped)" % (first_line(leak[0].ast, 60) if leak else "the deletion"), line=(leak[0].line if leak else fn.lineno))


def f_failed_before_start_not_restarted(ctx, t):
    """An activated flow that is failed BEFORE it reached its first waiting statement must not be restarted (the new instance would be failed the same way: the round never
    ends).  _advance_head_front has that guard (C10.c.restart-guard); the same holds for every other place that fails a flow which may still be starting: a failing match, a
    failing action event, a failing internal event.  Decided: each of these calls of _abort_flow is preceded on every path by the guard helper."""
    guards = {f.name for f in functions(t) if any(isinstance(a, ast.Assign) and src(a.targets[0]).endswith(".new_instance_started") and src(a.value) == "True" for a in ast.walk(f))
              and "STARTING" in src(f) and f.name not in ("_abort_flow", "_finish_flow", "_advance_head_front")}
    ctx.floor("C06.f.failed-before-start", SM, "guard helpers (no restart of a flow that has not started)", len(guards), 1)
    sites = []
    for name in ("_fail_flow_of_head", "_fail_event_source_flow", "run_to_completion"):
        fn = find_function(t, name)
        if fn is None:
            continue
        cfg = CFG(fn)
        calls = [c for c in walk_no_nested(fn) if isinstance(c, ast.Call) and src(c.func) == "_abort_flow"]
        if name == "run_to_completion":
            # only the site that fails a flow whose match statement raised (the loop over the failing heads)
            calls = [c for c in calls if any(isinstance(p_, ast.For) and "fail" in src(p_.iter) for p_ in _anc(c, fn))]
        for c in calls:
            gn = [n for n in cfg.nodes if n.ast is not None and any(isinstance(x, ast.Call) and isinstance(x.func, ast.Name) and x.func.id in guards for x in walk_no_nested(n.ast))]
            ok = bool(gn) and cfg.must_pass(cfg.entry, cfg.node_of(c), gn)
            sites.append(ok)
            ctx.check("C06.f.failed-before-start", SM, name, first_line(c, 60), ok,
                      "the flow is marked as not to be restarted if it has not started yet, before it is failed" if ok else
                      "`%s` fails a flow that may still be STARTING without the no-restart guard: an activated flow that fails before its first waiting statement is restarted, fails "
                      "again, ... inside one round" % first_line(c, 50), line=c.lineno)
    ctx.floor("C06.f.failed-before-start", SM, "places that fail a flow outside _advance_head_front", len(sites), 3)


def a_stop_discipline(ctx, t):
    sites = []
    for rel in RUNTIME_FILES:
        if not ctx.tree.exists(rel):
            continue
        for c in ast.walk(ctx.tree.ast(rel)):
            if isinstance(c, ast.Call) and isinstance(c.func, ast.Attribute) and c.func.attr == "stop_event" and len(c.args) == 1:
                sites.append((rel, c))
    # every context that ends a flow / a scope must reach a Stop emission site (directly or through a helper)
    site_fns = {enclosing_function(c).name for r, c in sites if r == SM and enclosing_function(c) is not None}

    def reaches_site(fn, depth=0):
        if fn.name in site_fns:
            return True
        if depth >= 2:
            return False
        for c in walk_no_nested(fn):
            if isinstance(c, ast.Call) and isinstance(c.func, ast.Name) and c.func.id in site_fns:
                return True
        return False

    for ctxname in ("_abort_flow", "_finish_flow", "slide"):
        f = find_function(t, ctxname)
        ok = f is not None and reaches_site(f)
        ctx.check("C06.a.stop-contexts", SM, ctxname, "reaches a Stop emission site", ok,
                  "%s stops the unfinished actions of the flow/scope it ends (directly or through a helper)" % ctxname if ok else
                  "%s no longer reaches any action Stop emission: actions started by the ending flow/scope keep running" % ctxname, line=(f.lineno if f else 1))
    ctx.floor("C06.a.stop-discipline", SM, "action Stop emission sites", len(sites), 1, ["%s:%d" % (r, c.lineno) for r, c in sites])
    for rel, c in sites:
        fn = enclosing_function(c)
        unit = qualname(fn)
        av = src(c.func.value)
        anc = []
        p = getattr(c, "_parent", None)
        while p is not None and p is not fn:
            anc.append(p)
            p = getattr(p, "_parent", None)
        ifs = [a for a in anc if isinstance(a, ast.If)]
        # (1) status guard
        g1 = [i for i in ifs if ("%s.status" % av) in src(i.test) and "ActionStatus" in src(i.test)]
        ok1 = False
        if g1:
            tst = g1[0].test
            names = _status_names(tst)
            neg = any(isinstance(n, (ast.NotEq, ast.Not, ast.NotIn, ast.IsNot)) for n in ast.walk(tst))
            conj = isinstance(tst, ast.BoolOp) and isinstance(tst.op, ast.And)
            ok1 = names == ["STARTED", "STARTING"] and not neg and not conj
        ctx.check("C06.a.status-guard", rel, unit, "stop_event of %s" % av, ok1,
                  "the Stop event is created only when `%s.status` is STARTING or STARTED (found guard: %s): never for a never-started, stopping, stopped or finished action" % (
                      av, first_line(g1[0].test, 90) if g1 else None), line=c.lineno)
        # (2) shared count
        g2 = [i for i in ifs if re.sub(r"\s", "", src(i.test)) == "%s.flow_scope_count==0" % av]
        ok2 = False
        if g2:
            blk = getattr(g2[0], "_parent", None)
            body = _block_of(g2[0])
            idx = body.index(g2[0]) if body and g2[0] in body else -1
            decs = [s for s in (body[:idx] if idx >= 0 else []) if isinstance(s, ast.AugAssign) and isinstance(s.op, ast.Sub)
                    and src(s.target) == "%s.flow_scope_count" % av and isinstance(s.value, ast.Constant) and s.value.value == 1]
            ok2 = len(decs) == 1 and (not g1 or g2[0] in list(ast.walk(g1[0])))
        ctx.check("C06.a.shared-count", rel, unit, "stop_event of %s" % av, ok2,
                  "the action's flow_scope_count is decremented once and the Stop is sent only when it reaches 0 (an action shared with a still-running flow is not stopped)", line=c.lineno)
        # (3) STOPPING before emit, on every path
        cfg = CFG(fn)
        s_node = cfg.node_of(c)
        stopping = [n for n in cfg.nodes if n.kind == "stmt" and isinstance(n.ast, ast.Assign) and src(n.ast.targets[0]) == "%s.status" % av
                    and src(n.ast.value) == "ActionStatus.STOPPING"]
        ev_var = src(s_node.ast.targets[0]) if isinstance(s_node.ast, ast.Assign) else None
        emits = [n for n in cfg.nodes if n.kind == "stmt" and isinstance(n.ast, ast.Expr) and isinstance(n.ast.value, ast.Call)
                 and src(n.ast.value.func) == "_generate_umim_event" and ev_var is not None and src(n.ast.value.args[-1]) == ev_var]
        ok3 = bool(stopping) and bool(emits) and all(cfg.must_pass(s_node, e, stopping) or any(cfg.must_pass(s_node, x, [e]) for x in stopping) for e in emits) \
            and cfg.must_pass(s_node, cfg.exit, stopping)
        ctx.check("C06.a.stopping-state", rel, unit, "stop_event of %s" % av, ok3,
                  "after creating the Stop event the action is set to STOPPING on every path and the event is emitted once via _generate_umim_event (so the guard is false next time: exactly one Stop)",
                  line=c.lineno)


def a_status_follows_events(ctx, t):
    """`no Stop for an action that already finished` rests on Action.status following the action's life-cycle events.  The status is updated by
    `<action>.process_event(event)`; an action can be SHARED (flow_scope_count > 1), so whether the update is applied may depend on the flows that HOLD the action
    (`action_uids` of listening flows) - never on the one flow that created it (`Action.flow_uid`): when the creator ends first, the Finished event of the shared action
    would be dropped, the status stays STARTED and the last holder sends a Stop for a finished action."""
    fns = [f for f in functions(t) if any(isinstance(c, ast.Call) and isinstance(c.func, ast.Attribute) and c.func.attr == "process_event" for c in walk_no_nested(f))]
    ctx.floor("C06.a.status-follows-events", SM, "functions applying life-cycle events to actions (process_event)", len(fns), 1)
    for fn in fns:
        # names derived from the creator link
        tainted = set()
        changed = True
        while changed:
            changed = False
            for a in walk_no_nested(fn):
                if isinstance(a, ast.Assign) and len(a.targets) == 1 and isinstance(a.targets[0], ast.Name) and a.targets[0].id not in tainted:
                    if any((isinstance(x, ast.Attribute) and x.attr == "flow_uid") or (isinstance(x, ast.Name) and x.id in tainted) for x in ast.walk(a.value)):
                        tainted.add(a.targets[0].id)
                        changed = True
        for c in [c for c in walk_no_nested(fn) if isinstance(c, ast.Call) and isinstance(c.func, ast.Attribute) and c.func.attr == "process_event"]:
            # every test that decides whether this call runs: enclosing ifs/loops and earlier early-exits of the function
            tests = [p.test for p in _anc(c, fn) if isinstance(p, (ast.If, ast.While))]
            tests += [i.test for i in walk_no_nested(fn) if isinstance(i, ast.If) and i.lineno < c.lineno
                      and any(isinstance(x, (ast.Return, ast.Continue, ast.Break, ast.Raise)) for b in i.body + i.orelse for x in ast.walk(b))]
            bad = [tst for tst in tests if any((isinstance(x, ast.Attribute) and x.attr == "flow_uid") or (isinstance(x, ast.Name) and x.id in tainted) for x in ast.walk(tst))]
            ctx.check("C06.a.status-follows-events", SM, qualname(fn), "process_event on %s" % src(c.func.value), not bad,
                      "whether an action receives its life-cycle event does not depend on the flow that created it" if not bad else
                      "the life-cycle event is applied only under `%s`, which depends on the flow that CREATED the action (Action.flow_uid): a shared action whose creator has ended no "
                      "longer sees its Finished event, stays STARTED, and the last flow holding it sends a Stop for an action that already finished" % first_line(bad[0], 80),
                      line=c.lineno)


FLOWS2 = "nemoguardrails/colang/v2_x/runtime/flows.py"


def a_action_status_machine(ctx):
    """Action.process_event keeps the facts the Stop discipline relies on.  (i) Outgoing events are fed back as input; a `Start...Action` event that comes back for an action
    that is already running must not reset `flow_scope_count` to 1 - the shares added for co-winning flows would be lost and the action stopped when the FIRST sharing flow
    ends (F127).  (ii) A late `...ActionStarted` acknowledgement must not move a STOPPING action back to STARTED: the flow's end would send a second Stop (F129)."""
    t = ctx.tree.ast(FLOWS2)
    cls = find_class(t, "Action")
    pe = None
    for f in (cls.body if cls is not None else []):
        if isinstance(f, (ast.FunctionDef, ast.AsyncFunctionDef)) and f.name == "process_event":
            pe = f
    if pe is None:
        raise AnalysisError("Action.process_event not found", anchor=FLOWS2 + "::Action.process_event")
    resets = [a for a in ast.walk(pe) if isinstance(a, ast.Assign) and src(a.targets[0]) == "self.flow_scope_count" and isinstance(a.value, ast.Constant) and a.value.value == 1]
    ctx.floor("C06.a.action-status-machine", FLOWS2, "initialisation of the share count on Start", len(resets), 1)
    for a in resets:
        guarded = any(isinstance(p_, ast.If) and "self.status" in src(p_.test) for p_ in _anc(a, pe))
        ctx.check("C06.a.action-status-machine", FLOWS2, "Action.process_event", "share count initialised only for an action that is not running", guarded,
                  "`flow_scope_count = 1` is set only when the action is not running yet" if guarded else
                  "every `Start...` event sets `flow_scope_count = 1`, also the copy of the outgoing event that the runtime feeds back: the shares of co-winning flows are lost, and the "
                  "shared action is stopped when the first of the sharing flows ends", line=a.lineno)
    started = [a for a in ast.walk(pe) if isinstance(a, ast.Assign) and src(a.targets[0]) == "self.status" and src(a.value) == "ActionStatus.STARTED"]
    for a in started:
        guarded = any(isinstance(p_, ast.If) and "STOPPING" in src(p_.test) and "self.status" in src(p_.test) for p_ in _anc(a, pe))
        ctx.check("C06.a.action-status-machine", FLOWS2, "Action.process_event", "a stopping action stays stopping", guarded,
                  "`...ActionStarted` does not overwrite STOPPING" if guarded else
                  "`...ActionStarted` sets STARTED unconditionally: an action the flow has already stopped (`send $ref.Stop()`) becomes STARTED again when the late acknowledgement "
                  "arrives, and the end of the flow sends a second Stop for it", line=a.lineno)


def d_stop_and_start_of_activated(ctx, t):
    """(i) `StopFlow(flow_instance_uid=...)` stops ONE instance.  For an instance of an activated flow that is an ordinary end: the flow is started again while an activator
    runs.  Passing `deactivate_flow=<instance is activated>` to _abort_flow turns it into a deactivation - the flow never restarts although its activator is running (F126).
    (ii) The dispatch ignores a queued StartFlow whose sender has ended, except for the self-restart of an activated flow.  The exemption must be exactly that: an ended
    activated instance may restart ITSELF, a queued start of ANOTHER flow by it is ignored, otherwise the child is created under a stopped parent and nothing ever stops it (F125)."""
    disp = find_function(t, "_process_internal_events_without_default_matchers")
    if disp is None:
        raise AnalysisError("dispatch not found", anchor=SM + "::_process_internal_events_without_default_matchers")
    stops = [i for i in ast.walk(disp) if isinstance(i, ast.If) and "STOP_FLOW" in src(i.test)]
    n = 0
    for i in stops:
        for j in [x for x in ast.walk(i) if isinstance(x, ast.If) and "flow_instance_uid" in src(x.test)]:
            for c in [c for st in j.body for c in ast.walk(st) if isinstance(c, ast.Call) and src(c.func) == "_abort_flow"]:
                n += 1
                kw = [k for k in c.keywords if k.arg == "deactivate_flow"]
                bad = bool(kw) and "activated" in src(kw[0].value)
                ctx.check("C06.d.stop-instance-restarts", SM, disp.name, "StopFlow by instance uid", not bad,
                          "stopping an instance by its uid is an ordinary end of that instance" if not bad else
                          "`%s`: stopping one instance of an activated flow deactivates the flow - it is not started again although a flow that activated it is still running" % first_line(kw[0], 60),
                          line=c.lineno)
            break
    ctx.floor("C06.d.stop-instance-restarts", SM, "abort of a flow instance addressed by uid", n, 1)
    ign = [i for i in ast.walk(disp) if isinstance(i, ast.If) and "_is_done_flow(" in src(i.test) and "source" in src(i.test)]
    for i in ign[:1]:
        # an ended activated sender that starts ANOTHER flow: the start is ignored
        facts = {(lambda e: isinstance(e, ast.Call) and src(e.func) == "_is_done_flow"): True,
                 (lambda e: isinstance(e, ast.Compare) and "is not None" in src(e) or (isinstance(e, ast.Compare) and isinstance(e.ops[0], ast.IsNot))): True,
                 (lambda e: isinstance(e, ast.Compare) and ".activated" in src(e.left) and isinstance(e.ops[0], ast.Eq)): False,
                 (lambda e: isinstance(e, ast.Compare) and "flow_id" in src(e.left) and "flow_id" in src(e.comparators[0]) and isinstance(e.ops[0], ast.NotEq)): True,
                 (lambda e: isinstance(e, ast.Compare) and "flow_id" in src(e.left) and "flow_id" in src(e.comparators[0]) and isinstance(e.ops[0], ast.Eq)): False}
        v = truth(i.test, facts)
        ok = v is True
        ctx.check("C06.e.live-parent", SM, disp.name, "ended activated sender starting another flow", ok,
                  "only the self-restart of an ended activated instance is let through" if ok else
                  "every queued StartFlow of an ended instance with `activated > 0` is let through, not only its own restart: a flow it had queued is created as the child of a stopped "
                  "instance and is never stopped (it outlives its starter and the activator)", line=i.lineno)


def _block_of(stmt):
    p = getattr(stmt, "_parent", None)
    for f in ("body", "orelse", "finalbody"):
        b = getattr(p, f, None)
        if isinstance(b, list) and stmt in b:
            return b
    return None


# ---------------------------------------------------------------------------------
def _effects(fn, stop_helpers=None):
    """effect kind -> first line number (None when absent)"""
    fs = fn.args.args[1].arg  # flow_state
    eff = {}
    body_src = {}

    def first(pred):
        hits = []
        for n in walk_no_nested(fn):
            try:
                if pred(n):
                    hits.append(n)
            except Exception:
                pass
        return min(hits, key=lambda n: n.lineno) if hits else None

    n = first(lambda n: isinstance(n, ast.If) and "deactivate_flow" in src(n.test) and "_is_reference_activated_flow" in src(n.test)
              and any((isinstance(s, ast.Assign) and src(s.targets[0]) == "%s.activated" % fs and re.sub(r"\s", "", src(s.value)) == "%s.activated-1" % fs) or
                      (isinstance(s, ast.AugAssign) and src(s.target) == "%s.activated" % fs and isinstance(s.op, ast.Sub) and src(s.value) == "1") for s in n.body)
              and any(isinstance(x, ast.Return) for s in n.body for x in ast.walk(s)))
    eff["deactivate-refcount"] = n
    # a flow that is not listening any more is left alone: guard form (`if not listening: return`) or wrapping form (`if listening [and ...]: <everything else>`)
    def _early_out(n):
        call = "is_listening_flow(%s)" % fs
        if not isinstance(n, ast.If) or call not in src(n.test):
            return False
        v = truth(n.test, {call: True})       # where does a flow that is still listening go?
        if v is None:
            return False
        goes, other = side(n, v), side(n, not v)
        # the listening flow runs the rest (the terminal status is stored on its side); the other side does nothing but leave
        rest_here = any(isinstance(a, ast.Assign) and src(a.targets[0]) == "%s.status" % fs for st in goes for a in ast.walk(st))
        if rest_here:
            return not other or all(isinstance(x, (ast.Return, ast.Pass)) or (isinstance(x, ast.Expr) and "log." in src(x)) for x in other)
        # guard form: the other side returns and the rest follows the `if`
        return any(isinstance(x, ast.Return) for x in other) and not goes
    n = first(_early_out)
    eff["inactive-early-out"] = n
    n = first(lambda n: isinstance(n, ast.For) and "%s.child_flow_uids" % fs in src(n.iter)
              and any(isinstance(i, ast.If) and "not _is_child_activated_flow" in src(i.test)
                      and any(isinstance(c, ast.Call) and src(c.func) == "_abort_flow" for s in i.body for c in ast.walk(s)) for i in ast.walk(n)))
    eff["abort-children"] = n
    helpers = set(stop_helpers or ())
    n = first(lambda n: isinstance(n, ast.For) and "%s.action_uids" % fs in src(n.iter)
              and any(isinstance(c, ast.Call) and ((isinstance(c.func, ast.Attribute) and c.func.attr == "stop_event")
                                                   or (isinstance(c.func, ast.Name) and c.func.id in helpers)) for c in ast.walk(n)))
    if n is None:
        # the loop lives in a helper that is handed the flow's action list
        n = first(lambda n: isinstance(n, ast.Expr) and isinstance(n.value, ast.Call) and isinstance(n.value.func, ast.Name) and n.value.func.id in helpers
                  and any(src(a) == "%s.action_uids" % fs for a in n.value.args))
    eff["stop-actions"] = n
    n = first(lambda n: isinstance(n, ast.For) and "%s.heads" % fs in src(n.iter)
              and any(isinstance(c, ast.Call) and src(c.func) == "_remove_head_from_event_matching_structures" for c in ast.walk(n)))
    eff["deregister-heads"] = n
    n = first(lambda n: isinstance(n, ast.Expr) and src(n.value) == "%s.heads.clear()" % fs)
    eff["clear-heads"] = n
    n = first(lambda n: isinstance(n, ast.If) and "%s.activated == 0" % fs in src(n.test) and "%s.parent_uid" % fs in src(n.test)
              and any(".child_flow_uids.remove(%s.uid)" % fs in src(s) for s in n.body))
    eff["unlink-from-parent"] = n
    n = first(lambda n: isinstance(n, ast.Assign) and src(n.targets[0]) == "%s.status" % fs and src(n.value) in ("FlowStatus.STOPPED", "FlowStatus.FINISHED"))
    eff["terminal-status"] = n
    n = first(lambda n: isinstance(n, ast.Assign) and isinstance(n.value, ast.Call) and src(n.value.func) in ("%s.failed_event" % fs, "%s.finished_event" % fs))
    ev = n
    push = None
    if ev is not None:
        evn = src(ev.targets[0])
        push = first(lambda m: isinstance(m, ast.Expr) and isinstance(m.value, ast.Call) and src(m.value.func) == "_push_internal_event"
                     and src(m.value.args[-1]) == evn and m.lineno > ev.lineno)
    eff["terminal-event"] = push
    n = first(lambda n: isinstance(n, ast.If) and all(k in re.sub(r"\s+", " ", src(n.test)) for k in
                                                      ("not deactivate_flow", "%s.activated > 0" % fs, "not %s.new_instance_started" % fs))
              and any("_push_left_internal_event" in src(s) for s in n.body)
              and any(isinstance(s, ast.Assign) and src(s.targets[0]) == "%s.new_instance_started" % fs and src(s.value) == "True" for s in n.body))
    eff["guarded-restart"] = n
    return eff


def b_siblings(ctx, t):
    fa = find_function(t, "_abort_flow")
    ff = find_function(t, "_finish_flow")
    if fa is None or ff is None:
        raise AnalysisError("_abort_flow/_finish_flow not found", anchor=SM + "::_abort_flow/_finish_flow")
    helpers = {f.name for f in functions(t) if f.name not in ("_abort_flow", "_finish_flow", "slide")
               and any(isinstance(c, ast.Call) and isinstance(c.func, ast.Attribute) and c.func.attr == "stop_event" for c in ast.walk(f))}
    ea, ef = _effects(fa, helpers), _effects(ff, helpers)
    for k in ea:
        for name, e, fn in (("_abort_flow", ea, fa), ("_finish_flow", ef, ff)):
            ctx.check("C06.b.effects", SM, name, k, e[k] is not None,
                      "lifetime effect `%s` is present in %s%s" % (k, name, "" if e[k] is not None else
                                                                    " -- MISSING while its sibling %s it: flows/actions/heads outlive or leak when a flow ends this way" % (
                                                                        "has" if (ef if e is ea else ea)[k] is not None else "also lacks")),
                      line=(e[k].lineno if e[k] is not None else fn.lineno))
    for name, e in (("_abort_flow", ea), ("_finish_flow", ef)):
        if e["deregister-heads"] is not None and e["clear-heads"] is not None:
            ctx.check("C06.b.order", SM, name, "deregister before clear", e["deregister-heads"].lineno < e["clear-heads"].lineno,
                      "heads are removed from the matching index before `heads.clear()`", line=e["clear-heads"].lineno)
        if e["abort-children"] is not None and e["terminal-status"] is not None:
            ctx.check("C06.b.order", SM, name, "children before own status", e["abort-children"].lineno < e["terminal-status"].lineno,
                      "children are aborted before the flow's own terminal status is stored (by the time the FlowFinished/FlowFailed event is processed every child has stopped)",
                      line=e["terminal-status"].lineno)
        if e["stop-actions"] is not None and e["terminal-event"] is not None:
            ctx.check("C06.b.order", SM, name, "actions before terminal event", e["stop-actions"].lineno < e["terminal-event"].lineno,
                      "unfinished actions are stopped before the terminal event is pushed", line=e["terminal-event"].lineno)


def d_activation(ctx):
    writers = []
    for rel in RUNTIME_FILES:
        if not ctx.tree.exists(rel):
            continue
        for n in ast.walk(ctx.tree.ast(rel)):
            tg = None
            if isinstance(n, ast.Assign):
                tg = [x for x in n.targets if isinstance(x, ast.Attribute) and x.attr == "activated"]
            elif isinstance(n, ast.AugAssign) and isinstance(n.target, ast.Attribute) and n.target.attr == "activated":
                tg = [n.target]
            if tg:
                fn = enclosing_function(n)
                writers.append((rel, fn.name if fn else "<module>", n))
    ctx.floor("C06.d.activated-writers", SM, "stores to .activated", len(writers), 8)
    for rel, f, n in writers:
        ok = f in ACTIVATED_WRITERS and rel == SM
        ctx.check("C06.d.activated-writers", rel, f, first_line(n), ok,
                  ("allowed writer: " + ACTIVATED_WRITERS[f]) if ok else
                  "`activated` is written outside the start/deactivate code paths: the activation reference count no longer reflects the running activators", line=n.lineno)
    # one release per activation: every increment of the activation count registers the activated instance,
    # unconditionally, in the activator's child list (deactivation releases one count per child entry)
    n_inc = 0
    for rel, f, n in writers:
        v = n.value if isinstance(n, ast.Assign) else None
        inc_plain = v is not None and isinstance(v, ast.BinOp) and isinstance(v.op, ast.Add) and src(v.right) == "1"
        inc_aug = isinstance(n, ast.AugAssign) and isinstance(n.op, ast.Add) and src(n.value) == "1"
        if inc_plain or inc_aug:
            n_inc += 1
            inst = src(n.targets[0].value) if inc_plain else src(n.target.value)
            blk = _block_of(n) or []
            reg = [s for s in blk if isinstance(s, ast.Expr) and isinstance(s.value, ast.Call) and isinstance(s.value.func, ast.Attribute) and s.value.func.attr == "append"
                   and src(s.value.func.value).endswith(".child_flow_uids") and [src(a) for a in s.value.args] == ["%s.uid" % inst]]
            ctx.check("C06.d.activation-pairing", rel, f, first_line(n), len(reg) == 1,
                      "each additional activation of `%s` adds exactly one entry for it to the activator's child_flow_uids (one release per activation when the activator ends)" % inst if len(reg) == 1 else
                      "the activation count of `%s` is incremented without an unconditional child_flow_uids entry for the activator: when the activator ends only some of its activations are released and the activated flow keeps running after its last activator ended" % inst,
                      line=n.lineno)
    ctx.floor("C06.d.activation-pairing", SM, "increments of an activation count", n_inc, 1)
    # immediate-finish guard in _advance_head_front: an activated flow that finishes without ever waiting is not restarted
    t = ctx.tree.ast(SM)
    fn = find_function(t, "_advance_head_front")
    if fn is None:
        raise AnalysisError("_advance_head_front not found", anchor=SM + "::_advance_head_front")
    g = [n for n in ast.walk(fn) if isinstance(n, ast.If) and "flow_finished" in src(n.test) and ".activated > 0" in src(n.test)]
    ok = False
    if g:
        outer = [p for p in _anc(g[0], fn) if isinstance(p, ast.If)]
        resets = any(isinstance(s, ast.Assign) and src(s.targets[0]) == "flow_finished" and src(s.value) == "False" for s in g[0].body)
        starting = any("FlowStatus.STARTING" in src(p.test) and "==" in src(p.test) for p in outer)
        ok = resets and starting
    ctx.check("C06.d.immediate-finish", SM, "_advance_head_front", "flow_finished and activated > 0", ok,
              "an activated flow that reaches its end in the very step it was started (status STARTING) is not finished (`flow_finished = False`): it runs once and stays activated instead of restarting forever",
              line=(g[0].lineno if g else fn.lineno))


def _anc(node, stop):
    p = getattr(node, "_parent", None)
    while p is not None and p is not stop:
        yield p
        p = getattr(p, "_parent", None)


def e_start_under_live_parent(ctx, t):
    """A flow can only be bounded by its parent's lifetime if it is linked to a parent that is still
    running: the StartFlow event is processed later than it was sent, and the sender may have
    ended in between."""
    fn = find_function(t, "_start_flow")
    if fn is None:
        raise AnalysisError("_start_flow not found", anchor=SM + "::_start_flow")
    cfg = CFG(fn)
    links = [n for n in cfg.nodes if n.kind == "stmt" and isinstance(n.ast, ast.Expr) and isinstance(n.ast.value, ast.Call)
             and isinstance(n.ast.value.func, ast.Attribute) and n.ast.value.func.attr == "append" and src(n.ast.value.func.value).endswith(".child_flow_uids")]
    ctx.floor("C06.e.live-parent", SM, "parent links created in _start_flow", len(links), 1)
    # alternatively the StartFlow event is dropped where it is dispatched: every creation of the new instance lies in the else-part of a test that the sender has ended
    disp = find_function(t, "_process_internal_events_without_default_matchers")
    dispatch_guard = False
    if disp is not None:
        creations = [c for c in ast.walk(disp) if isinstance(c, ast.Call) and src(c.func) in ("add_new_flow_instance", "create_flow_instance")]
        srcvars = {a.targets[0].id for a in ast.walk(disp) if isinstance(a, ast.Assign) and isinstance(a.targets[0], ast.Name) and "source_flow_instance_uid" in src(a.value) and "flow_states" in src(a.value)}
        guards = [i for i in ast.walk(disp) if isinstance(i, ast.If) and re.search(r"_is_done_flow|is_listening_flow|is_active_flow|is_inactive_flow|\.status", src(i.test))
                  and any(v in src(i.test) for v in srcvars)]
        for g in guards:
            in_else = all(any(c is x for st in g.orelse for x in ast.walk(st)) for c in creations)
            in_body = any(any(c is x for st in g.body for x in ast.walk(st)) for c in creations)
            if creations and in_else and not in_body:
                dispatch_guard = True
    for l in links:
        parent = src(l.ast.value.func.value).rsplit(".", 1)[0]
        tests = [n for n in cfg.nodes if n.kind == "test" and cfg.dominates(n, l) and parent in src(n.ast)
                 and re.search(r"is_listening_flow|is_active_flow|is_inactive_flow|\.status", src(n.ast))]
        if dispatch_guard and not tests:
            tests = [True]
        ctx.check("C06.e.live-parent", SM, "_start_flow", first_line(l.ast), bool(tests),
                  "the new instance is linked to `%s` only after a liveness test of that parent" % parent if tests else
                  "the new instance is linked to `%s` without checking that this parent is still running: a StartFlow that is processed after its sender was stopped creates a child of a dead flow, which nobody stops any more" % parent,
                  line=l.line)


def a_action_tracking(ctx, t):
    """A flow stops exactly the actions listed in its action_uids when it ends.  An unfinished action may therefore never be taken off that list
    before the flow ends (the only permitted write besides append is the in-place redirect of a co-winner's uid, checked by C09.g)."""
    SHRINK = {"remove", "pop", "clear", "__delitem__"}
    sites = []
    appends = 0
    for fn in functions(t):
        for n in walk_no_nested(fn):
            if isinstance(n, ast.Call) and isinstance(n.func, ast.Attribute) and isinstance(n.func.value, ast.Attribute) and n.func.value.attr == "action_uids":
                if n.func.attr in SHRINK:
                    sites.append((fn, n, "`%s` takes an action off the list" % first_line(n, 70)))
                elif n.func.attr == "append":
                    appends += 1
            if isinstance(n, ast.Delete):
                for x in n.targets:
                    if isinstance(x, ast.Subscript) and isinstance(x.value, ast.Attribute) and x.value.attr == "action_uids":
                        sites.append((fn, n, "`%s` deletes from the list" % first_line(n, 70)))
            if isinstance(n, (ast.Assign, ast.AugAssign)):
                tg = n.targets if isinstance(n, ast.Assign) else [n.target]
                for x in tg:
                    if isinstance(x, ast.Attribute) and x.attr == "action_uids":
                        sites.append((fn, n, "`%s` replaces the list" % first_line(n, 70)))
                    if isinstance(x, ast.Subscript) and isinstance(x.slice, ast.Slice) and isinstance(x.value, ast.Attribute) and x.value.attr == "action_uids":
                        sites.append((fn, n, "`%s` replaces a slice of the list" % first_line(n, 70)))
    ctx.floor("C06.a.action-tracking", SM, "registrations of started actions (action_uids.append)", appends, 1)

    def _is_release(st):
        return (isinstance(st, ast.AugAssign) and isinstance(st.op, ast.Sub) and src(st.target).endswith(".flow_scope_count")) or \
            (isinstance(st, ast.Assign) and src(st.targets[0]).endswith(".flow_scope_count") and re.search(r"flow_scope_count\s*-\s*1", src(st.value)))

    def _block_of(node):
        st = node
        while st is not None and not isinstance(st, ast.stmt):
            st = getattr(st, "_parent", None)
        while st is not None:
            par = getattr(st, "_parent", None)
            for field in ("body", "orelse", "finalbody"):
                blk = getattr(par, field, None)
                if isinstance(blk, list) and any(x is st for x in blk):
                    return blk, st
            st = par
        return [], None
    # a removal that accompanies the release of the flow's share of that action (flow_scope_count decremented in the same block) is the release itself, not a loss
    paired = []
    for fn, n, why in list(sites):
        blk, st = _block_of(n)
        inner_blocks = [blk]
        up = st
        for _ in range(3):
            par = getattr(up, "_parent", None)
            if not isinstance(par, (ast.If, ast.While)):
                break
            b2, up = _block_of(par)
            inner_blocks.append(b2)
        if isinstance(n, ast.Call) and n.func.attr == "remove" and any(_is_release(x) for b in inner_blocks for x in b):
            paired.append((fn, n))
            sites.remove((fn, n, why))
    ctx.check("C06.a.action-tracking", SM, "<module>", "no removal from action_uids", not sites,
              "started actions are only ever appended to a flow's action_uids (%d registration site(s)); an action leaves the list only together with the release of the flow's share (%d site(s))" % (appends, len(paired)), line=1)
    # release once (F87): a flow's share of an action is released either when the flow ends (the loops over action_uids in _abort_flow/_finish_flow) or earlier, at the end
    # of the scope that started it - then the action must leave action_uids, otherwise the flow's end releases the share a second time and stops an action another flow shares
    END_FNS = ("_abort_flow", "_finish_flow")

    def _removes(blk):
        return any(isinstance(c, ast.Call) and isinstance(c.func, ast.Attribute) and c.func.attr == "remove" and isinstance(c.func.value, ast.Attribute) and c.func.value.attr == "action_uids"
                   for x in blk for c in ast.walk(x))
    allfns = list(functions(t))
    for fn in allfns:
        if fn.name in END_FNS:
            continue
        rel_sites = [st for st in walk_no_nested(fn) if _is_release(st)]
        if not rel_sites:
            continue
        # a helper that only releases: judged at its call sites
        call_sites = [(g, c) for g in allfns if g is not fn for c in walk_no_nested(g) if isinstance(c, ast.Call) and isinstance(c.func, ast.Name) and c.func.id == fn.name]
        if call_sites:
            for g, c in call_sites:
                if g.name in END_FNS:
                    continue
                blk, _ = _block_of(c)
                ok = _removes(blk) or _removes(fn.body)
                ctx.check("C06.a.release-once", SM, g.name, first_line(c, 60), ok,
                          "the early release (through `%s`) takes the action off the flow's action_uids" % fn.name if ok else
                          "`%s` releases the flow's share of the action before the flow ends but leaves it in action_uids: the flow's end releases it again and stops an action another "
                          "running flow still shares" % first_line(c, 50), line=c.lineno)
            continue
        for st in rel_sites:
            blk, _ = _block_of(st)
            removed = _removes(blk)
            ctx.check("C06.a.release-once", SM, fn.name, first_line(st, 60), removed,
                      "the early release of the flow's share takes the action off the flow's action_uids, so the flow's end cannot release it again" if removed else
                      "`%s` releases the flow's share of the action at the end of the scope but leaves it in action_uids: when the flow ends, _abort_flow/_finish_flow decrement the count "
                      "again and send Stop for an action that another running flow still shares and awaits" % first_line(st, 50), line=st.lineno)
    for fn, n, why in sites:
        ctx.check("C06.a.action-tracking", SM, fn.name, first_line(n, 70), False,
                  "%s: if that action has not finished, the flow's end no longer sends its Stop event and the action outlives the flow" % why, line=n.lineno)


def d_cleanup_keeps_reference(ctx, t, rule="C06.d.cleanup-keeps-reference"):
    """The ended first instance of an activated flow carries the activation counter and is the entry in its activator's child list; it must not be
    garbage-collected while activated > 0: `activated == 0` has to be a necessary condition of removal."""
    fn = find_function(t, "_clean_up_state")
    if fn is None:
        raise AnalysisError("_clean_up_state not found", anchor=SM + "::_clean_up_state")
    adds = [n for n in ast.walk(fn) if isinstance(n, ast.Call) and isinstance(n.func, ast.Attribute) and n.func.attr == "append" and "uid" in src(n) and "remove" in src(n.func.value)]
    comps = [n for n in ast.walk(fn) if isinstance(n, ast.Assign) and isinstance(n.value, ast.ListComp) and "remove" in src(n.targets[0]) and "flow_states" in src(n.value.generators[0].iter)
             and n.value.generators[0].ifs]
    if not adds and not comps:
        raise AnalysisError("collection of removable flow states not found in _clean_up_state", anchor=SM + "::_clean_up_state")
    for a in adds + comps:
        conj = []
        if isinstance(a, ast.Assign):
            for te in a.value.generators[0].ifs:
                conj += list(te.values) if isinstance(te, ast.BoolOp) and isinstance(te.op, ast.And) else [te]
        for p in _anc(a, fn):
            if isinstance(p, ast.If):
                te = p.test
                conj += list(te.values) if isinstance(te, ast.BoolOp) and isinstance(te.op, ast.And) else [te]
        ok = any(re.sub(r"\s", "", src(c)) in ("flow_state.activated==0", "notflow_state.activated", "flow_state.activated<=0", "flow_state.activated<1") for c in conj)
        # alternatively the clean-up never discards an instance that is still the parent of a kept instance: every restarted instance of an activated flow names the
        # reference instance as its parent, so the reference survives as long as the flow is alive
        protects = any(isinstance(i_, ast.If) and re.search(r"parent_uid\s+in\s+\w+", src(i_.test)) and any(
            isinstance(c_, ast.Call) and isinstance(c_.func, ast.Attribute) and c_.func.attr in ("discard", "remove") and isinstance(c_.func.value, ast.Name) for c_ in ast.walk(i_)) for i_ in ast.walk(fn))
        ok = ok or protects
        ctx.check(rule, SM, fn.name, first_line(a, 70), ok,
                  "a flow state is collected only if `activated == 0` (a necessary conjunct of the removal condition)" if ok else
                  "an ended flow state can be collected while `activated > 0`: the reference instance that carries the activation counter disappears, the activator's end no longer "
                  "deactivates the restarted instance, which runs and restarts forever", line=a.lineno)


def d_deactivation(ctx, t):
    """`deactivate x` is one of several possible releases of ONE activation.  Where StopFlow/FinishFlow are dispatched by flow id with `deactivate`:
    (i) only the reference instance (which carries the activation counter) may be asked to deactivate - the restarted instances are its children and are aborted by it when the
    counter reaches zero; aborting them directly (with restart suppressed) kills the flow while other activations remain;
    (ii) the activator's child-list entry for the reference instance is the activator's pending release - an explicit deactivation must consume it, otherwise the activator
    releases the same activation again when it ends."""
    disp = find_function(t, "_process_internal_events_without_default_matchers")
    if disp is None:
        raise AnalysisError("_process_internal_events_without_default_matchers not found", anchor=SM + "::dispatch")
    loops = []
    for l in ast.walk(disp):
        if isinstance(l, ast.For) and "flow_id_states" in src(l.iter):
            calls = [c for c in ast.walk(l) if isinstance(c, ast.Call) and src(c.func) in ("_abort_flow", "_finish_flow")
                     and any("deactivate" in src(a) for a in list(c.args) + [k.value for k in c.keywords])]
            if calls:
                loops.append((l, calls[0]))
    ctx.floor("C06.d.deactivate-by-id", SM, "flow-id dispatch loops that can deactivate", len(loops), 2)
    for l, call in loops:
        lv = l.target.id if isinstance(l.target, ast.Name) else None
        skips = [i for i in ast.walk(l) if isinstance(i, ast.If) and "_is_child_activated_flow" in src(i.test) and lv and lv in src(i.test)
                 and any(isinstance(x, ast.Continue) for x in i.body)]
        guarded = any(isinstance(p_, ast.If) and "_is_child_activated_flow" in src(p_.test) for p_ in _anc(call, l))
        ok = bool(skips) or guarded
        ctx.check("C06.d.deactivate-by-id", SM, disp.name, first_line(call, 40) + " in loop over flow_id_states", ok,
                  "a deactivation by flow id is applied to the reference instance only; restarted instances are left to it" if ok else
                  "every instance with the flow id is aborted/finished with deactivate=True: the restarted instance (child of the reference instance) is not covered by the activation counter, "
                  "so `deactivate x` by ONE of two activators kills the running instance without restart while the counter only drops to 1 - x stays `activated` with nothing running", line=call.lineno)
        # (ii) the sender's uid is kept and used to consume its child entry
        blk = getattr(l, "_parent", None)
        while blk is not None and not any(isinstance(a, (ast.Assign, ast.Expr)) and "source_flow_instance_uid" in src(a) for a in getattr(blk, "body", [])):
            blk = getattr(blk, "_parent", None)
        kept = None
        for a in getattr(blk, "body", []) if blk is not None else []:
            if isinstance(a, ast.Assign) and isinstance(a.targets[0], ast.Name) and "source_flow_instance_uid" in src(a.value):
                kept = a.targets[0].id
        used = kept is not None and any(isinstance(c, ast.Call) and any(isinstance(x, ast.Name) and x.id == kept for x in ast.walk(c)) for c in ast.walk(l))
        consumes = False
        if used:
            for c in ast.walk(l):
                if isinstance(c, ast.Call) and any(isinstance(x, ast.Name) and x.id == kept for x in ast.walk(c)):
                    if "child_flow_uids" in src(c):
                        consumes = True
                    h = find_function(t, src(c.func)) if isinstance(c.func, ast.Name) else None
                    if h is not None and any(isinstance(r, ast.Call) and isinstance(r.func, ast.Attribute) and r.func.attr == "remove" and "child_flow_uids" in src(r.func.value) for r in ast.walk(h)):
                        consumes = True
        ctx.check("C06.d.deactivate-consumes-entry", SM, disp.name, first_line(call, 40) + " in loop over flow_id_states", consumes,
                  "the explicit deactivation removes the sender's child entry for the reference instance (one release per activation)" if consumes else
                  "the uid of the flow that sent the deactivation is discarded: its child_flow_uids entry for the reference instance survives the explicit `deactivate`, so when that flow "
                  "ends it releases the same activation a second time - with two activators the counter reaches 0 and x stops although the other activator never gave it up", line=call.lineno)
