"""C18 - Streaming output does not depend on how the LLM text is chunked.

The property is an equation between strings over all chunkings of a stateful transducer; that equation is NOT decided here.  Decided are structural facts of
`StreamingHandler` (and of the one place that installs a stop sequence) each of which is a necessary condition of chunk-independence: break one and some chunking of some
text gives a different stream or a different `completion`."""
import ast
import re

from ..pycfg import CFG, walk_no_nested
from ..source import AnalysisError, find_class, first_line, src, atoms, atom_key, truth, side

STREAM = "nemoguardrails/streaming.py"
GEN1 = "nemoguardrails/actions/llm/generation.py"


def _method(cls, name):
    for f in cls.body:
        if isinstance(f, (ast.FunctionDef, ast.AsyncFunctionDef)) and f.name == name:
            return f
    return None


def _anc(node, stop):
    p = getattr(node, "_parent", None)
    while p is not None and p is not stop:
        yield p
        p = getattr(p, "_parent", None)


def run(ctx):
    ctx.explanation = ("C18: structural necessary conditions of chunk-independence of StreamingHandler: pattern tests look at the ACCUMULATED text, every proper prefix of a "
                       "suffix/stop sequence is held back, `completion` receives every delivered piece exactly once, the stop sequence is installed before buffered text is "
                       "flushed, data tokens cannot be mistaken for the end marker, and text that completes the prefix still passes the suffix/stop handling.")
    ctx.decided = ["a: prefix / suffix / stop tests read the accumulating buffers (`current_chunk`, `completion`), never the incoming chunk alone",
                   "a': the hold-back test ranges over every proper prefix of the suffix and of each stop sequence",
                   "b: within one `_process` invocation `completion` is extended once (no re-entry after it was extended); the stop sequence is set before `disable_buffering()`",
                   "c: only the explicit end of the LLM call ends the stream (empty data tokens are dropped on every call, the token text is used when no chunk object is given); "
                   "the end of the LLM call is honoured in buffering mode; the remainder of the token that completes the prefix goes through the suffix/stop handling"]
    ctx.not_decided = ["the equation itself: concatenation of delivered chunks == text with prefix and suffix removed, cut at the first stop sequence, for all texts and all chunkings",
                       "the choice among several stop sequences (order of the list vs. earliest position)", "timing of the piped handler (asyncio.create_task)"]
    t = ctx.tree.ast(STREAM)
    cls = find_class(t, "StreamingHandler")
    if cls is None:
        raise AnalysisError("class StreamingHandler not found", anchor=STREAM + "::StreamingHandler")
    push = _method(cls, "push_chunk")
    proc = _method(cls, "_process")
    tok = _method(cls, "on_llm_new_token")
    end = _method(cls, "on_llm_end")
    for name, f in (("push_chunk", push), ("_process", proc), ("on_llm_new_token", tok), ("on_llm_end", end)):
        if f is None:
            raise AnalysisError("StreamingHandler.%s not found" % name, anchor=STREAM + "::StreamingHandler." + name)
    a_buffered_matching(ctx, push, proc)
    a_holdback(ctx, push)
    b_completion_once(ctx, proc)
    b_stop_before_flush(ctx)
    c_end_marker(ctx, tok, push)
    c_end_in_buffering(ctx, end, proc)
    c_prefix_remainder(ctx, push)
    c_reentry_clean(ctx, push)
    b_pipe_in_order(ctx, proc)
    a_buffer_remainder_raw(ctx, cls)
    c_reentry_past_prefix(ctx, cls)
    a_unbuffer_nonempty(ctx, cls)


def a_buffered_matching(ctx, push, proc):
    """A pattern split over two chunks is only seen if the test looks at what has accumulated."""
    n = 0
    for fn in (push, proc):
        for c in walk_no_nested(fn):
            if isinstance(c, ast.Call) and isinstance(c.func, ast.Attribute) and c.func.attr in ("startswith", "endswith") and c.args \
                    and re.search(r"prefix|suffix|_chunk|stop", src(c.args[0])):
                n += 1
                recv = src(c.func.value)
                ok = recv in ("self.current_chunk", "self.completion", "self.buffer")
                ctx.check("C18.a.buffered-matching", STREAM, "StreamingHandler." + fn.name, "%s(%s)" % (c.func.attr, first_line(c.args[0], 30)), ok,
                          "the test reads the accumulated text `%s`" % recv if ok else
                          "the test reads `%s`, not the accumulated text: a prefix / suffix / stop sequence that is split over two chunks is never recognised" % recv, line=c.lineno)
            if isinstance(c, ast.Compare) and len(c.ops) == 1 and isinstance(c.ops[0], (ast.In, ast.NotIn)) and re.search(r"stop", src(c.left)):
                n += 1
                recv = src(c.comparators[0])
                ok = recv in ("self.completion", "self.current_chunk")
                ctx.check("C18.a.buffered-matching", STREAM, "StreamingHandler." + fn.name, "%s in ..." % src(c.left), ok,
                          "the stop test reads the accumulated text `%s`" % recv if ok else
                          "the stop test reads `%s`: a stop sequence split over two chunks is not found" % recv, line=c.lineno)
    ctx.floor("C18.a.buffered-matching", STREAM, "pattern tests of the handler", n, 3)
    # the accumulation precedes the test in the branches of push_chunk that test
    accs = [a for a in walk_no_nested(push) if isinstance(a, ast.AugAssign) and src(a.target) == "self.current_chunk" and isinstance(a.op, ast.Add)]
    ctx.check("C18.a.buffered-matching", STREAM, "StreamingHandler.push_chunk", "incoming text is appended to current_chunk", len(accs) >= 2,
              "both pattern branches append the incoming chunk to `current_chunk` (%d sites)" % len(accs), line=push.lineno)


def a_holdback(ctx, push):
    """While the accumulated text ends with a proper prefix of the suffix / a stop sequence, nothing is forwarded: the loop must try every prefix length."""
    class _Gen:          # a comprehension generator `for v in range(len(X))` presented like a For statement (the element expression is its body)
        def __init__(self, g, comp):
            self.target, self.iter, self.lineno, self._comp = g.target, g.iter, comp.lineno, comp
    loops = [l for l in ast.walk(push) if isinstance(l, ast.For) and isinstance(l.iter, ast.Call) and src(l.iter.func) == "range" and l.iter.args
             and isinstance(l.iter.args[-1], ast.Call) and src(l.iter.args[-1].func) == "len"]
    for comp in [c for c in ast.walk(push) if isinstance(c, (ast.GeneratorExp, ast.ListComp))]:
        for g in comp.generators:
            if isinstance(g.iter, ast.Call) and src(g.iter.func) == "range" and g.iter.args and isinstance(g.iter.args[-1], ast.Call) and src(g.iter.args[-1].func) == "len" and not g.ifs:
                loops.append(_Gen(g, comp))
    ctx.floor("C18.a.holdback", STREAM, "prefix-length loop of the hold-back test", len(loops), 1)
    for l in loops:
        v = src(l.target)
        seq = src(l.iter.args[-1].args[0])
        full_range = len(l.iter.args) == 1 or (len(l.iter.args) == 2 and src(l.iter.args[0]) == "0")
        scope = l._comp if isinstance(l, _Gen) else l
        slices = [s for s in ast.walk(scope) if isinstance(s, ast.Subscript) and src(s.value) == seq and isinstance(s.slice, ast.Slice)]
        ok = full_range and bool(slices) and all((s.slice.lower is None or src(s.slice.lower) == "0") and re.sub(r"\s", "", src(s.slice.upper or ast.Constant(value=None))) == "%s+1" % v
                                                 for s in slices)
        ends = [c for c in ast.walk(scope) if isinstance(c, ast.Call) and isinstance(c.func, ast.Attribute) and c.func.attr == "endswith" and src(c.func.value) == "self.current_chunk"]
        ok = ok and bool(ends)
        ctx.check("C18.a.holdback", STREAM, "StreamingHandler.push_chunk", "for %s in %s" % (v, first_line(l.iter, 40)), ok,
                  "every proper prefix `%s[0:k]`, k = 1..len, is tried against the end of the accumulated text" % seq if ok else
                  "the hold-back does not try every prefix length of `%s` against the end of the accumulated text: a suffix / stop sequence arriving in pieces of that length is "
                  "streamed to the user before it is recognised" % seq, line=l.lineno)


def b_completion_once(ctx, proc):
    """`completion` equals what was delivered: each delivered piece is appended once.  After `completion` was extended (or cut) in an invocation of `_process`, the same
    invocation must not hand text back into `push_chunk` / `_process` - that text would be appended again (F119: the piece in front of a stop sequence appears twice)."""
    cfg = CFG(proc)
    ext = [n for n in cfg.nodes if n.kind == "stmt" and isinstance(n.ast, (ast.AugAssign, ast.Assign))
           and src(n.ast.target if isinstance(n.ast, ast.AugAssign) else n.ast.targets[0]) == "self.completion"]
    ctx.floor("C18.b.completion-once", STREAM, "stores to completion in _process", len(ext), 1)
    reentry = [n for n in cfg.nodes if n.ast is not None and any(
        isinstance(c, ast.Call) and src(c.func) in ("self.push_chunk", "self._process") for c in walk_no_nested(n.ast))]
    # a re-entry is harmless when `completion` was put back to its value from before the extension on every path to it (the re-entered processing appends the piece once)
    prevs = {a.targets[0].id for a in ast.walk(proc) if isinstance(a, ast.Assign) and isinstance(a.targets[0], ast.Name) and src(a.value) == "self.completion"}
    prev_lines = {a.targets[0].id: a.lineno for a in ast.walk(proc) if isinstance(a, ast.Assign) and isinstance(a.targets[0], ast.Name) and src(a.value) == "self.completion"}
    first_grow = min([n.line for n in ext if not (isinstance(n.ast, ast.Assign) and isinstance(n.ast.value, ast.Name))] or [0])
    resets = [n for n in ext if isinstance(n.ast, ast.Assign) and isinstance(n.ast.value, ast.Name) and n.ast.value.id in prevs and prev_lines[n.ast.value.id] < first_grow]
    grow = [e for e in ext if e not in resets]
    bad = [r for r in reentry if any(r in cfg.reachable([e]) and not cfg.must_pass(e, r, resets) for e in grow)]
    ctx.check("C18.b.completion-once", STREAM, "StreamingHandler._process", "no re-entry after completion was extended", not bad,
              "within one invocation the text is appended to `completion` once and delivered directly" if not bad else
              "`%s` re-enters the chunk processing after `completion` already contains that text: the piece in front of a stop sequence is appended a second time - the streamed "
              "chunks are right, `completion` (and the bot message built from it) is not, depending on how the text was tokenised" % first_line(bad[0].ast, 50),
              line=(bad[0].line if bad else proc.lineno))


def b_stop_before_flush(ctx):
    """The stop sequence cuts what is delivered from the moment it is installed.  `disable_buffering()` flushes the whole buffer through `push_chunk`; installing the stop
    sequence after that call lets buffered text behind the stop sequence reach the user for some tokenisations (F120)."""
    if not ctx.tree.exists(GEN1):
        return
    t = ctx.tree.ast(GEN1)
    n = 0
    for fn in [f for f in ast.walk(t) if isinstance(f, (ast.FunctionDef, ast.AsyncFunctionDef))]:
        sets = [a for a in walk_no_nested(fn) if isinstance(a, ast.Assign) and isinstance(a.targets[0], ast.Attribute) and a.targets[0].attr == "stop"
                and "handler" in src(a.targets[0].value).lower()]
        flush = [c for c in walk_no_nested(fn) if isinstance(c, ast.Call) and isinstance(c.func, ast.Attribute) and c.func.attr == "disable_buffering"]
        if not sets or not flush:
            continue
        cfg = CFG(fn)
        for f_ in flush:
            n += 1
            fnode = cfg.node_of(f_)
            snodes = [cfg.node_of(a) for a in sets if src(a.targets[0].value) == src(f_.func.value)]
            ok = bool(snodes) and cfg.must_pass(cfg.entry, fnode, snodes)
            ctx.check("C18.b.stop-before-flush", GEN1, fn.name, "%s.disable_buffering()" % src(f_.func.value), ok,
                      "the stop sequence is installed before the buffered text is flushed" if ok else
                      "`%s.stop = ...` comes after `disable_buffering()`: the flush delivers the buffered text uncut, so text behind the closing quote reaches the user when the "
                      "whole line was already buffered, and does not when it arrives later - the stream depends on the tokenisation" % src(f_.func.value), line=f_.lineno)
    ctx.floor("C18.b.stop-before-flush", GEN1, "flushes of a buffered streaming handler that gets a stop sequence", n, 1)
    # the same for the destination: text flushed before the handler is piped to the main one goes to the inner handler's own queue and is never streamed
    m = 0
    for fn in [f for f in ast.walk(t) if isinstance(f, (ast.FunctionDef, ast.AsyncFunctionDef))]:
        pipes = [c for c in walk_no_nested(fn) if isinstance(c, ast.Call) and isinstance(c.func, ast.Attribute) and c.func.attr == "set_pipe_to"]
        flush = [c for c in walk_no_nested(fn) if isinstance(c, ast.Call) and isinstance(c.func, ast.Attribute) and c.func.attr == "disable_buffering"]
        if not pipes or not flush:
            continue
        cfg = CFG(fn)
        for f_ in flush:
            pn = [cfg.node_of(c) for c in pipes if src(c.func.value) == src(f_.func.value)]
            if not pn:
                continue
            m += 1
            ok = cfg.must_pass(cfg.entry, cfg.node_of(f_), pn)
            ctx.check("C18.b.pipe-before-flush", GEN1, fn.name, "%s.disable_buffering()" % src(f_.func.value), ok,
                      "the handler is piped to the main handler before the buffered text is flushed" if ok else
                      "`%s.set_pipe_to(...)` comes after `disable_buffering()`: the flush delivers the buffered beginning of the message into the inner handler's own queue, so it is "
                      "missing from the stream whenever it was already buffered (coarse tokens) and present when it arrives later" % src(f_.func.value), line=f_.lineno)
    ctx.floor("C18.b.pipe-before-flush", GEN1, "flushes of a buffered streaming handler that is piped to another one", m, 1)


def c_end_marker(ctx, tok, push):
    """`push_chunk` takes "" / None for the end of the stream.  So no DATA token may arrive there as "" or None: on_llm_new_token drops empty tokens on every call (not only the
    first) and falls back to the token text when the model passes no chunk object (F122)."""
    # path-sensitive: with an empty token no call of push_chunk is reachable (whatever else is tested on the way, e.g. a first-token flag)
    cfg = CFG(tok)
    push_nodes = [n for n in cfg.nodes if n.ast is not None and any(isinstance(c, ast.Call) and src(c.func) == "self.push_chunk" for c in walk_no_nested(n.ast))]
    reach = cfg.reachable_under([cfg.entry], {"token == ''": True})
    leak = [n for n in push_nodes if n in reach]
    ctx.check("C18.c.end-marker", STREAM, "StreamingHandler.on_llm_new_token", "empty data tokens are dropped", bool(push_nodes) and not leak,
              "an empty token never reaches push_chunk" if push_nodes and not leak else
              "an empty token can reach push_chunk (only a FIRST empty token is dropped): it arrives there as \"\" - the end marker - and ends the stream; the rest of the text is "
              "lost, depending on where the tokeniser emits empty tokens", line=(leak[0].line if leak else tok.lineno))
    pushes = [c for c in ast.walk(tok) if isinstance(c, ast.Call) and src(c.func) == "self.push_chunk" and c.args]
    uses_token = any(any(isinstance(x, ast.Name) and x.id == "token" for x in ast.walk(c.args[0])) for c in pushes) or any(
        isinstance(a, ast.Assign) and "chunk" in src(a.targets[0]) and any(isinstance(x, ast.Name) and x.id == "token" for x in ast.walk(a.value)) for a in ast.walk(tok))
    ctx.check("C18.c.end-marker", STREAM, "StreamingHandler.on_llm_new_token", "the token text is used when no chunk object is passed", uses_token,
              "a model that reports tokens without a chunk object is streamed from the token text" if uses_token else
              "`push_chunk(chunk)` is called with the optional `chunk` argument only: for models that call on_llm_new_token(token) without it, None is pushed - the end marker - and "
              "nothing is streamed", line=(pushes[0].lineno if pushes else tok.lineno))


def c_end_in_buffering(ctx, end, proc):
    """The end of the LLM call must end the stream also while the handler is still buffering (the whole answer arrived before the consumer switched buffering off): in buffering
    mode `_process` only appends to the buffer, so the end marker sent by on_llm_end is lost and prefix/suffix are reset before the buffered text is processed (F121)."""
    aware = "enable_buffer" in src(end)
    # or _process recognises the end marker in buffering mode
    buf_branch = [i for i in ast.walk(proc) if isinstance(i, ast.If) and "enable_buffer" in src(i.test)]
    handles = any(re.search(r"streaming_finished_event\.set\(\)|_llm_ended|finished", src(st)) for i in buf_branch for st in (side(i, True) if truth(i.test, {"self.enable_buffer": True}) is True else i.body)
                  if "chunk" in src(st) and ('""' in src(st) or "None" in src(st) or "not chunk" in src(st)))
    ok = aware or handles
    ctx.check("C18.c.end-in-buffering", STREAM, "StreamingHandler.on_llm_end", "end of the LLM call while buffering", ok,
              "the end of the LLM call is recorded / honoured in buffering mode" if ok else
              "on_llm_end ignores `enable_buffer`: its end marker is appended to the buffer and lost, prefix and suffix are reset although the buffered text was not processed yet - "
              "if the last token arrives before buffering is switched off the user gets the raw text (prefix, quotes) and the stream never ends; the same text in more tokens is fine",
              line=end.lineno)


def c_prefix_remainder(ctx, push):
    """The token that completes the prefix may carry more text (the whole answer in one token).  That remainder has to take the same way as any later text - through the
    suffix/stop hold-back - not straight into `_process` (F123)."""
    pres = [i for i in ast.walk(push) if isinstance(i, ast.If) and any(
        isinstance(c, ast.Call) and isinstance(c.func, ast.Attribute) and c.func.attr == "startswith" and "prefix" in src(c) for c in ast.walk(i.test))]
    ctx.floor("C18.c.prefix-remainder", STREAM, "prefix recognition in push_chunk", len(pres), 1)
    for i in pres:
        # the remainder is forwarded whenever it is NON-EMPTY: a test of its content (`rest.strip()`) drops a remainder made of blanks - text of the message
        for g in [x for st in i.body for x in ast.walk(st) if isinstance(x, ast.If) and any(
                isinstance(c, ast.Call) and src(c.func) in ("self.push_chunk", "self._process") for st2 in x.body for c in ast.walk(st2))]:
            calls_on = [c for c in ast.walk(g.test) if isinstance(c, ast.Call) and not (isinstance(c.func, ast.Name) and c.func.id == "len")]
            okg = not calls_on
            ctx.check("C18.c.prefix-remainder", STREAM, "StreamingHandler.push_chunk", "the remainder is forwarded whenever it is non-empty", okg,
                      "the remainder behind the prefix is forwarded unless it is empty" if okg else
                      "`if %s` decides by the CONTENT of the remainder: a remainder of blanks (the space after the opening quote arriving with the prefix) is dropped, the same text in "
                      "other tokens keeps it" % first_line(g.test, 40), line=g.lineno)
        direct = [c for st in i.body for c in ast.walk(st) if isinstance(c, ast.Call) and src(c.func) == "self._process"]
        ctx.check("C18.c.prefix-remainder", STREAM, "StreamingHandler.push_chunk", "text behind the prefix in the same token", not direct,
                  "the remainder is fed back through push_chunk (suffix / stop handling applies)" if not direct else
                  "`%s` forwards the remainder straight to _process: a suffix or stop sequence contained in the token that completes the prefix is not removed (a one-token answer "
                  "keeps its closing quote; with a stop sequence the stream and `completion` differ)" % first_line(direct[0], 50), line=(direct[0].lineno if direct else i.lineno))


def _clears_current(stmt):
    """statement stores "" into self.current_chunk (plain or as one member of a tuple assignment)"""
    if not isinstance(stmt, ast.Assign):
        return False
    for tg in stmt.targets:
        if src(tg) == "self.current_chunk" and isinstance(stmt.value, ast.Constant) and stmt.value.value == "":
            return True
        if isinstance(tg, ast.Tuple) and isinstance(stmt.value, ast.Tuple) and len(tg.elts) == len(stmt.value.elts):
            for a, b in zip(tg.elts, stmt.value.elts):
                if src(a) == "self.current_chunk" and isinstance(b, ast.Constant) and b.value == "":
                    return True
    return False


def c_reentry_clean(ctx, push):
    """push_chunk appends the incoming text to `current_chunk`.  A call of push_chunk from inside push_chunk (the remainder behind the prefix) therefore has to find
    `current_chunk` EMPTY: otherwise the remainder is appended to itself and delivered twice (or held back and wiped) - only for tokenisations in which the token that
    completes the prefix carries more text."""
    cfg = CFG(push)
    re_ = [n for n in cfg.nodes if n.ast is not None and any(isinstance(c, ast.Call) and src(c.func) == "self.push_chunk" for c in walk_no_nested(n.ast))]
    clears = [n for n in cfg.nodes if n.kind == "stmt" and _clears_current(n.ast)]
    stores = [n for n in cfg.nodes if n.kind == "stmt" and n not in clears and (
        (isinstance(n.ast, ast.AugAssign) and src(n.ast.target) == "self.current_chunk") or
        (isinstance(n.ast, ast.Assign) and any(src(x) == "self.current_chunk" for tg in n.ast.targets for x in ([tg] + (list(tg.elts) if isinstance(tg, ast.Tuple) else [])))))]
    for r in re_:
        ok = cfg.must_pass(cfg.entry, r, clears) and all(cfg.must_pass(s_, r, clears) for s_ in stores if r in cfg.reachable([s_]) and s_ is not r)
        ctx.check("C18.c.reentry-clean", STREAM, "StreamingHandler.push_chunk", "current_chunk is empty when push_chunk re-enters itself", ok,
                  "`current_chunk` is cleared on every path between its last store and the inner push_chunk call" if ok else
                  "`%s` re-enters push_chunk while `current_chunk` still holds the text that is being passed: the inner call appends it again, so the remainder of the token that completes "
                  "the prefix is delivered twice (or, ending with the suffix, held back and then wiped)" % first_line(r.ast, 50), line=r.line)
    ctx.stat("push_chunk_reentries", len(re_))


def c_reentry_past_prefix(ctx, cls):
    """push_chunk starts with the prefix gate: while `self.prefix` is set, the incoming text is only collected and compared with the prefix.  A call of push_chunk from inside the
    handler's own processing (the remainder behind the prefix; the text in front of a stop sequence, from _process) is meant to be PROCESSED - it must not run into the gate again,
    or the text is dropped: every such re-entry is preceded on every path by `self.prefix = None` (F171: _process is also reached from _finish with a prefix that never matched)."""
    n = 0
    for name in ("push_chunk", "_process"):
        fn = _method(cls, name)
        if fn is None:
            raise AnalysisError("StreamingHandler.%s not found" % name, anchor=STREAM + "::StreamingHandler." + name)
        cfg = CFG(fn)
        re_ = [x for x in cfg.nodes if x.ast is not None and x.kind == "stmt" and any(isinstance(c, ast.Call) and src(c.func) == "self.push_chunk" for c in walk_no_nested(x.ast))]
        clears = [x for x in cfg.nodes if x.kind == "stmt" and isinstance(x.ast, ast.Assign) and any(src(tg) == "self.prefix" for tg in x.ast.targets)
                  and isinstance(x.ast.value, ast.Constant) and not x.ast.value.value]
        for r in re_:
            n += 1
            ok = cfg.must_pass(cfg.entry, r, clears)
            ctx.check("C18.c.reentry-past-prefix", STREAM, "StreamingHandler." + name, "re-entry `%s`" % first_line(r.ast, 50), ok,
                      "the pending prefix is given up on every path before the handler re-enters push_chunk" if ok else
                      "`%s` re-enters push_chunk while `self.prefix` can still be set: the inner call only collects the text and compares it with the prefix, so the text that was to be "
                      "delivered is dropped (an LLM answer that does not start with the expected prefix but contains the stop sequence yields an EMPTY message, for every chunking)" % first_line(r.ast, 50),
                      line=r.line)
    ctx.floor("C18.c.reentry-past-prefix", STREAM, "re-entries of push_chunk from push_chunk / _process", n, 1)


def a_unbuffer_nonempty(ctx, cls):
    """An empty chunk is the end-of-stream marker of the handler.  disable_buffering pushes the buffer as a chunk: with an EMPTY buffer (called before the first token arrived)
    that would end the stream and every later token would be dropped - whether text is delivered would depend on when the first token arrives (F172)."""
    fn = _method(cls, "disable_buffering")
    if fn is None:
        raise AnalysisError("StreamingHandler.disable_buffering not found", anchor=STREAM + "::StreamingHandler.disable_buffering")
    cfg = CFG(fn)
    pushes = [x for x in cfg.nodes if x.ast is not None and x.kind == "stmt" and any(isinstance(c, ast.Call) and src(c.func) == "self.push_chunk" and c.args and src(c.args[0]) == "self.buffer"
                                                                                     for c in walk_no_nested(x.ast))]
    ctx.floor("C18.a.unbuffer-nonempty", STREAM, "pushes of the buffer in disable_buffering", len(pushes), 1)
    from ..source import truth
    for r in pushes:
        reach = cfg.reachable_under([cfg.entry], {"self.buffer": False, "self.buffer == ''": True, "len(self.buffer) > 0": False, "len(self.buffer) == 0": True})
        ok = r not in reach
        ctx.check("C18.a.unbuffer-nonempty", STREAM, "StreamingHandler.disable_buffering", "the buffer is pushed only when it holds text", ok,
                  "an empty buffer is not pushed (it would be read as the end of the stream)" if ok else
                  "`%s` is executed also when the buffer is empty: an empty chunk is the end-of-stream marker, so when buffering is switched off before the first token has arrived the "
                  "stream is finished and every later token is dropped" % first_line(r.ast, 50), line=r.line)


def a_buffer_remainder_raw(ctx, cls):
    """wait_top_k_nonempty_lines hands out the first k counted lines and leaves the REST of the buffer for streaming.  The rest must be the raw tail of the buffer: if it is rebuilt
    from the filtered lines, blank lines / '#' lines / the trailing newline that were already buffered vanish from the stream, while the same text arriving later is streamed intact."""
    fn = _method(cls, "wait_top_k_nonempty_lines")
    if fn is None:
        raise AnalysisError("StreamingHandler.wait_top_k_nonempty_lines not found", anchor=STREAM + "::StreamingHandler.wait_top_k_nonempty_lines")
    filtered = set()
    for n in ast.walk(fn):
        if isinstance(n, ast.Assign) and any(isinstance(c, (ast.ListComp, ast.GeneratorExp, ast.SetComp)) and any(g.ifs for g in c.generators) for c in ast.walk(n.value)) or \
                isinstance(n, ast.Assign) and any(isinstance(c, ast.Call) and src(c.func) == "filter" for c in ast.walk(n.value)):
            filtered |= {x.id for tg in n.targets for x in ast.walk(tg) if isinstance(x, ast.Name)}
        if isinstance(n, ast.If):
            for st in n.body + n.orelse:
                for c in ast.walk(st):
                    if isinstance(c, ast.Call) and isinstance(c.func, ast.Attribute) and c.func.attr in ("append", "extend", "add") and isinstance(c.func.value, ast.Name):
                        filtered.add(c.func.value.id)
    changed = True
    while changed:
        changed = False
        for n in ast.walk(fn):
            if isinstance(n, ast.Assign) and any(isinstance(x, ast.Name) and x.id in filtered for x in ast.walk(n.value)):
                for tg in n.targets:
                    for x in ast.walk(tg):
                        if isinstance(x, ast.Name) and x.id not in filtered:
                            filtered.add(x.id)
                            changed = True
    stores = [n for n in ast.walk(fn) if isinstance(n, ast.Assign) and any(src(tg) == "self.buffer" for tg in n.targets)]
    ctx.floor("C18.a.buffer-remainder-raw", STREAM, "stores of the remaining buffer in wait_top_k_nonempty_lines", len(stores), 1)
    # split and join must be inverse of each other: `X.split(SEP)` / `SEP.join(...)` with the same SEP; `splitlines()` drops a final newline (and \r), so the re-joined
    # rest differs from the raw tail exactly when the buffer ended with a line break
    seps = [src(c.args[0]) for c in ast.walk(fn) if isinstance(c, ast.Call) and isinstance(c.func, ast.Attribute) and c.func.attr == "split" and "buffer" in src(c.func.value) and c.args]
    lossy = [c for c in ast.walk(fn) if isinstance(c, ast.Call) and isinstance(c.func, ast.Attribute) and c.func.attr == "splitlines" and "buffer" in src(c.func.value)]
    joins = [src(c.func.value) for st in stores for c in ast.walk(st.value) if isinstance(c, ast.Call) and isinstance(c.func, ast.Attribute) and c.func.attr == "join"]
    inv = not lossy and (not joins or (bool(seps) and all(j in seps for j in joins)))
    ctx.check("C18.a.buffer-remainder-raw", STREAM, "StreamingHandler.wait_top_k_nonempty_lines", "split and join of the buffer are inverse", inv,
              "the buffer is split and re-joined with the same separator (%s)" % sorted(set(seps)) if inv else
              "the buffer is split with `%s` and the rest re-joined with %s: a line break at the very end of the buffered text is lost, so the stream differs depending on whether the "
              "newline had already arrived when the first lines were taken" % ("splitlines()" if lossy else seps, joins), line=fn.lineno)
    for st in stores:
        inline = any(isinstance(c, (ast.ListComp, ast.GeneratorExp)) and any(g.ifs for g in c.generators) for c in ast.walk(st.value))
        used = sorted({x.id for x in ast.walk(st.value) if isinstance(x, ast.Name) and x.id in filtered and not any(
            isinstance(p, ast.Slice) for p in _anc(x, st))})
        ok = not used and not inline
        ctx.check("C18.a.buffer-remainder-raw", STREAM, "StreamingHandler.wait_top_k_nonempty_lines", "the rest of the buffer is its raw tail", ok,
                  "the text left in the buffer is built from the unfiltered lines" if ok else
                  "the text left in the buffer is rebuilt from filtered lines (%s): blank lines, '#' lines and the newline already buffered disappear from the stream, the same text "
                  "arriving after the hand-over is streamed intact" % (", ".join(used) or "comprehension with a condition"), line=st.lineno)


def b_pipe_in_order(ctx, proc):
    """Chunks handed to the piped handler must arrive in the order they were processed and before the end of the stream is signalled: a push that is only SCHEDULED
    (`asyncio.create_task(self.pipe_to.push_chunk(chunk))`) runs after the caller went on - when the whole answer was already buffered, the consumer sees the end of the
    stream first and the text is lost; with later tokens it arrives.  The push is awaited."""
    calls = [c for c in walk_no_nested(proc) if isinstance(c, ast.Call) and isinstance(c.func, ast.Attribute) and c.func.attr == "push_chunk" and "pipe_to" in src(c.func.value)]
    ctx.floor("C18.b.pipe-in-order", STREAM, "pushes into the piped handler in _process", len(calls), 1)
    for c in calls:
        par = getattr(c, "_parent", None)
        ok = isinstance(par, ast.Await)
        ctx.check("C18.b.pipe-in-order", STREAM, "StreamingHandler._process", first_line(c, 60), ok,
                  "the push into the piped handler is awaited" if ok else
                  "`%s` is %s, not awaited: the piped chunk is delivered after the caller continued - text that was already buffered when the pipe was installed reaches the main "
                  "handler after its end marker and is lost" % (first_line(c, 50), "scheduled as a task" if isinstance(par, ast.Call) else "not awaited"), line=c.lineno)
