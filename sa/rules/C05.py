"""C05 - Competing flows: exactly one most-specific action wins per interaction loop."""
import ast
import re

from ..pycfg import CFG, walk_no_nested
from ..pyflow import ReachingDefs
from ..source import truth, linear, guard_walk, AnalysisError, find_function, find_class, first_line, src, functions

SM = "nemoguardrails/colang/v2_x/runtime/statemachine.py"
EMIT = "_generate_action_event_from_actionable_element"


def run(ctx):
    ctx.explanation = ("C05: path analysis of _resolve_action_conflicts: grouping key, exactly one action emission per interaction-loop group, "
                       "exactly one fate per competing head, winner drawn from the prefix of equal best scores, and the active-flow filter in run_to_completion.")
    ctx.decided = ["a: groups are keyed by the loop_id of the head's own flow and resolution iterates over the groups",
                   "b: one emission per group on every path, none for co-winners, one in the single-head shortcut",
                   "c: every other head gets exactly one of co-win / caught / abort on every path",
                   "d: descending sort by score list and winner from the tie prefix; the score chain travels with control (fork, merge, match)", "e: only heads of active flows with ACTIVE status enter resolution"]
    ctx.not_decided = ["the ordering over score vectors for all values", "fairness of the tie-break"]
    identity_predicate(ctx)
    loop_sources(ctx)
    e_live_heads_per_group(ctx)
    d_priority_zero(ctx)
    c_identity_by_instance(ctx)
    c_instance_registered(ctx)
    e_live_retry(ctx)
    c_abort_spares_winner(ctx)
    d_score_chain(ctx)
    t = ctx.tree.ast(SM)
    fn = find_function(t, "_resolve_action_conflicts")
    if fn is None:
        for f in functions(t):
            if "head_groups" in src(f) and EMIT in src(f):
                fn = f
    if fn is None:
        raise AnalysisError("_resolve_action_conflicts not found", anchor=SM + "::_resolve_action_conflicts")
    cfg = CFG(fn)
    unit = fn.name
    e_dead_heads_skipped_in_loop(ctx, fn)

    # the emission may be wrapped (a helper that calls the emitter once and reports success): calls of such a wrapper count as emissions
    EMITS = {EMIT} | {f.name for f in functions(t) if f is not fn and f.name != EMIT
                      and sum(1 for c in walk_no_nested(f) if isinstance(c, ast.Call) and isinstance(c.func, ast.Name) and c.func.id == EMIT) == 1}

    def is_emit(n):
        return n.ast is not None and n.kind in ("stmt", "test") and any(
            isinstance(c, ast.Call) and isinstance(c.func, ast.Name) and c.func.id in EMITS for c in walk_no_nested(n.ast))

    # ---- a: grouping ---------------------------------------------------------------
    fors = [n for n in ast.walk(fn) if isinstance(n, ast.For)]
    grouping = None
    groups_var = None
    for f in fors:
        if isinstance(f.target, ast.Name) and isinstance(f.iter, ast.Name):
            keys = []
            for x in ast.walk(f):
                if isinstance(x, ast.Subscript) and isinstance(x.value, ast.Name) and isinstance(getattr(x, "ctx", None), (ast.Load, ast.Store)) and "loop_id" in src(x.slice):
                    keys.append(x)
                if isinstance(x, ast.Call) and isinstance(x.func, ast.Attribute) and x.func.attr in ("update", "setdefault") and "loop_id" in src(x):
                    keys.append(x)
            if keys:
                grouping = f
                k0 = keys[0]
                groups_var = k0.value.id if isinstance(k0, ast.Subscript) else (k0.func.value.id if isinstance(k0.func.value, ast.Name) else None)
    if grouping is None:
        ctx.check("C05.a.grouping", SM, unit, "grouping loop", False, "no loop that partitions the actionable heads by loop_id was found", line=fn.lineno)
        return
    hv = grouping.target.id
    fs_defs = [s for s in grouping.body if isinstance(s, ast.Assign) and isinstance(s.value, ast.Call) and isinstance(s.value.func, ast.Name)
               and s.value.func.id == "get_flow_state_from_head" and any(isinstance(a, ast.Name) and a.id == hv for a in s.value.args)]
    fsv = fs_defs[0].targets[0].id if fs_defs else None
    key_exprs = set()
    for x in ast.walk(grouping):
        if isinstance(x, ast.Subscript) and isinstance(x.value, ast.Name) and x.value.id == groups_var:
            key_exprs.add(src(x.slice))
        if isinstance(x, ast.Compare) and any(isinstance(c, ast.Name) and c.id == groups_var for c in x.comparators):
            key_exprs.add(src(x.left))
        if isinstance(x, ast.Dict) and any("loop_id" in src(k) for k in x.keys if k is not None):
            key_exprs |= {src(k) for k in x.keys}
    ok = fsv is not None and key_exprs == {"%s.loop_id" % fsv}
    ctx.check("C05.a.grouping", SM, unit, "group key", ok,
              "heads are partitioned by `%s.loop_id` of the head's own flow (`%s = get_flow_state_from_head(state, %s)`); keys used: %s" % (fsv, fsv, hv, sorted(key_exprs)),
              line=grouping.lineno)
    stores_head = any(isinstance(x, ast.Call) and isinstance(x.func, ast.Attribute) and x.func.attr == "append" and [src(a) for a in x.args] == [hv] for x in ast.walk(grouping)) \
        and any(isinstance(x, (ast.List,)) and [src(e) for e in x.elts] == [hv] for x in ast.walk(grouping))
    ctx.check("C05.a.grouping", SM, unit, "group members", stores_head, "every head is put into the group of its key (new group `[head]`, existing group `.append(head)`)", line=grouping.lineno)
    group_loops = [f for f in fors if isinstance(f.iter, ast.Call) and isinstance(f.iter.func, ast.Attribute) and f.iter.func.attr in ("values", "items")
                   and isinstance(f.iter.func.value, ast.Name) and f.iter.func.value.id == groups_var]
    ctx.check("C05.a.grouping", SM, unit, "resolution iterates groups", len(group_loops) == 1, "conflict resolution iterates over `%s.values()`" % groups_var, line=fn.lineno)
    if len(group_loops) != 1:
        return
    gl = group_loops[0]
    gnode = cfg.node_of(gl.iter)

    def region(stmts):
        """the statements of one group iteration read as a sequence, including those of a retry loop (`while`: pick, try, pick again) but not of loops over the other heads"""
        out = []
        for s_ in linear(stmts):
            out.append(s_)
            if isinstance(s_, ast.While):
                out += inside(s_.body)
        return out

    def inside(stmts):
        out = []
        for s_ in stmts:
            out.append(s_)
            if isinstance(s_, (ast.If, ast.While)):
                out += inside(s_.body) + inside(s_.orelse)
            elif isinstance(s_, ast.Try):
                out += inside(s_.body) + inside(s_.orelse) + inside(s_.finalbody)
        return out
    gbody = region(gl.body)

    # ---- b: exactly one emission per group -------------------------------------------
    first = [m for m, lab in gnode.succ if lab is True]
    paths = []
    # the body of the inner loop over the other heads is summarised (no emission inside it is
    # a separate obligation below), so paths skip its iterations
    inner_first = set()
    for f in ast.walk(gl):
        if isinstance(f, ast.For) and f is not gl and any(f is s for s in gbody):
            inode0 = cfg.node_of(f.iter)
            inner_first |= {m for m, lab in inode0.succ if lab is True}
    for f0 in first:
        for p in cfg.paths(f0, gnode, max_paths=20000, back_limit=1, avoid=inner_first):
            paths.append(p)
    ctx.count(len(paths))
    # an iteration whose group is EMPTY (all its heads belong to flows that were aborted while an earlier loop was resolved) emits nothing, by definition
    gname = gl.target.id if isinstance(gl.target, ast.Name) else None

    def _empty_when(test):
        """True: the test holds exactly when the group is empty; False: exactly when it is non-empty; None: unrelated test."""
        if isinstance(test, ast.UnaryOp) and isinstance(test.op, ast.Not):
            r = _empty_when(test.operand)
            return None if r is None else (not r)
        txt = re.sub(r"\s", "", src(test))
        if gname and txt in ("len(%s)==0" % gname, "len(%s)<1" % gname, "0==len(%s)" % gname):
            return True
        if gname and txt in ("len(%s)>0" % gname, "len(%s)>=1" % gname, "len(%s)!=0" % gname, "len(%s)" % gname, gname):
            return False
        return None

    def _empty_group_exit(p):
        for n in p:
            if n.kind == "test" and n.ast is not None:
                e = _empty_when(n.ast)
                if e is None:
                    continue
                outs = {lab: m for m, lab in n.succ}
                nxt = p[p.index(n) + 1] if p.index(n) + 1 < len(p) else None
                if nxt is not None and outs.get(e) is nxt:
                    return True
                if nxt is None and e is False:
                    # the path ends at the test: the false edge leads straight back to the loop header
                    return True
        return False
    def _conditional_emit(n):
        """an emitter call in a later operand of `and` / `or` (or in a conditional expression) of the node's expression is evaluated only sometimes"""
        if not is_emit(n):
            return False
        for b in ast.walk(n.ast):
            later = []
            if isinstance(b, ast.BoolOp):
                later = b.values[1:]
            elif isinstance(b, ast.IfExp):
                later = [b.body, b.orelse]
            for v in later:
                if any(isinstance(c, ast.Call) and isinstance(c.func, ast.Name) and c.func.id in EMITS for c in ast.walk(v)):
                    return True
        return False
    from ..pycfg import feasible
    # a wrapper that REPORTS success (its call is the test of an `if`): the event exists only on the true edge; on the false edge the head's flow has failed alone
    inner_heads = [cfg.node_of(f.iter) for f in ast.walk(gl) if isinstance(f, ast.For) and f is not gl and any(f is s_ for s_ in gbody)]

    def _created_on_edge(test, edge):
        return created_on_edge(test, edge, lambda a_: isinstance(a_, ast.Call) and isinstance(a_.func, ast.Name) and a_.func.id in EMITS)

    counts = set()
    nfeasible = 0
    for p in paths:
        if _empty_group_exit(p) or not feasible(p, fn):
            continue
        nfeasible += 1
        k = failed = 0
        cond = False
        for i_, n in enumerate(p):
            if not is_emit(n):
                continue
            if n.kind == "test" and isinstance(n.ast, ast.expr) and i_ + 1 < len(p):
                labs = [lab for m, lab in n.succ if m is p[i_ + 1]]
                if len(labs) == 1 and labs[0] in (True, False):
                    # what does the edge taken say about the wrapper's result?  All truth assignments of the test's atoms are evaluated with short-circuit semantics
                    # (whatever way the test is written: `a and w()`, `not a or not w()`, ...): the event exists iff the wrapper was evaluated and returned True.
                    created = _created_on_edge(n.ast, labs[0])
                    if created == {True}:
                        k += 1
                        continue
                    if created == {False}:
                        failed += 1      # the wrapper reported failure (that flow failed alone) or was not tried
                        continue
                    if created == {True, False}:
                        k += 1
                        cond = True
                        continue
            k += 1
            cond = cond or _conditional_emit(n)
        if k == 0 and failed and not any(n in inner_heads for n in p):
            # every candidate failed to create its event (each failed alone) and the iteration ends without touching another head: nothing to proceed
            continue
        counts.add(k)
        if cond:
            counts.add(k - 1)
    counts = sorted(counts)
    ctx.stat("group_iteration_paths_feasible", nfeasible)
    ctx.check("C05.b.one-emission", SM, unit, "emissions per group iteration", counts == [1],
              "on every path through one group iteration exactly one action event is generated (counts over %d paths: %s)" % (len(paths), counts), line=gl.lineno)
    inner = [f for f in ast.walk(gl) if isinstance(f, ast.For) and f is not gl and any(f is s for s in gbody)]
    inner_emit = [c for f in inner for c in ast.walk(f) if isinstance(c, ast.Call) and isinstance(c.func, ast.Name) and c.func.id in EMITS]
    ctx.check("C05.b.one-emission", SM, unit, "no emission for co-winners", not inner_emit,
              "no action event is generated inside the loop over the other heads (co-winners share the winner's action)", line=gl.lineno)
    # emission argument is the picked head
    sorted_vars = [s.targets[0].id for s in gbody if isinstance(s, ast.Assign) and isinstance(s.value, ast.Call)
                   and isinstance(s.value.func, ast.Name) and s.value.func.id == "sorted" and isinstance(s.targets[0], ast.Name)]

    def _is_pick(v):
        if isinstance(v, ast.Call) and src(v.func) in ("random.choice", "choice") and v.args:
            return any(isinstance(n, ast.Name) and n.id in sorted_vars for n in ast.walk(v.args[0]))
        if isinstance(v, ast.Subscript) and isinstance(v.value, (ast.Name, ast.Subscript)):
            return any(isinstance(n, ast.Name) and n.id in sorted_vars for n in ast.walk(v.value)) and not isinstance(v.slice, ast.Slice)
        return False

    pick = [s for s in gbody if isinstance(s, ast.Assign) and isinstance(s.targets[0], ast.Name) and _is_pick(s.value)]
    pv0 = pick[0].targets[0].id if pick else None
    emits = [c for s in gbody if not isinstance(s, (ast.While, ast.For)) for c in walk_no_nested(s) if isinstance(c, ast.Call) and isinstance(c.func, ast.Name) and c.func.id in EMITS]
    emits += [c for s in gbody if isinstance(s, ast.While) for c in ast.walk(s.test) if isinstance(c, ast.Call) and isinstance(c.func, ast.Name) and c.func.id in EMITS]
    ctx.check("C05.b.one-emission", SM, unit, "emission for the picked head", bool(emits) and pv0 is not None and all(src(c.args[-1]) == pv0 for c in emits),
              "the generated action event is the picked head's (`%s`)" % pv0, line=gl.lineno)
    # the head that won may be kept under a second name once its event exists (`winner = candidate`): the loop over the other heads compares with that name
    pv = pv0
    if pv0 is not None:
        al = [s for s in gbody if isinstance(s, ast.Assign) and isinstance(s.targets[0], ast.Name) and isinstance(s.value, ast.Name) and s.value.id == pv0]
        if al and not any(isinstance(x, ast.Name) and x.id == pv0 for f in inner for x in ast.walk(f)):
            pv = al[0].targets[0].id
            # the second name is bound only after the event was created
            anode = cfg.node_of(al[0])
            enodes = [n for n in cfg.nodes if is_emit(n)]
            okw = all(cfg.must_pass(f0, anode, enodes, include_a=True) for f0 in first)
            ctx.check("C05.b.one-emission", SM, unit, "winner name bound after its event exists", okw,
                      "`%s = %s` is reached only through the creation of the head's event" % (pv, pv0), line=al[0].lineno)
    # single-head shortcut
    single = [n for n in ast.walk(fn) if isinstance(n, ast.If) and "len(" in src(n.test) and "== 1" in src(n.test)]
    if single:
        body_emits = [c for s in single[0].body for c in ast.walk(s) if isinstance(c, ast.Call) and isinstance(c.func, ast.Name) and c.func.id in EMITS]
        ctx.check("C05.b.one-emission", SM, unit, "single-head shortcut", len(body_emits) == 1 and not any(isinstance(x, (ast.For, ast.While)) for s in single[0].body for x in ast.walk(s)),
                  "with a single actionable head exactly one action event is generated", line=single[0].lineno)

    # ---- c: one fate per competing head ------------------------------------------------
    if len(inner) != 1:
        ctx.check("C05.c.one-fate", SM, unit, "loop over competing heads", False, "expected one loop over the other heads of the group, found %d" % len(inner), line=gl.lineno)
        return
    il = inner[0]
    ihv = il.target.id if isinstance(il.target, ast.Name) else None
    inode = cfg.node_of(il.iter)

    def fate(n):
        if n.kind != "stmt" or not isinstance(n.ast, ast.Expr) or not isinstance(n.ast.value, ast.Call):
            return None
        c = n.ast.value
        if isinstance(c.func, ast.Attribute) and c.func.attr == "append" and isinstance(c.func.value, ast.Name) and [src(a) for a in c.args] == [ihv]:
            return "advance"
        if isinstance(c.func, ast.Name) and c.func.id == "_abort_flow":
            return "abort"
        return None

    # wrappers that fail the head's flow ALONE and report it by their result: `v = wrapper(state, head)` followed by leaving through `v is None` / a false result is the fate
    # "abort" of that head (the abort happened inside the wrapper's handler)
    def _aborts(stmts, depth=1):
        for st in stmts:
            for c in ast.walk(st):
                if isinstance(c, ast.Call) and isinstance(c.func, ast.Name):
                    if c.func.id == "_abort_flow":
                        return True
                    g = next((f_ for f_ in functions(t) if f_.name == c.func.id), None)
                    if g is not None and depth > 0 and g is not fn and _aborts(g.body, depth - 1):
                        return True
        return False
    FAIL_ALONE = set()
    for f_ in functions(t):
        trs = [x for x in f_.body if isinstance(x, ast.Try)]
        if len(trs) == 1 and trs[0] is f_.body[-1] or (len(f_.body) == 2 and isinstance(f_.body[0], ast.Expr) and trs and trs[0] is f_.body[1]):
            tr_ = trs[0]
            hs = [h_ for h_ in tr_.handlers if h_.type is None or src(h_.type) in ("Exception", "BaseException")]
            if hs and _aborts(hs[0].body) and isinstance(hs[0].body[-1], ast.Return) and (hs[0].body[-1].value is None or src(hs[0].body[-1].value) in ("None", "False")) \
                    and not any(isinstance(r, ast.Return) and (r.value is None or src(r.value) in ("None", "False")) for st in tr_.body for r in ast.walk(st)):
                FAIL_ALONE.add(f_.name)
    ctx.stat("fail_alone_wrappers", sorted(FAIL_ALONE))

    def wrapper_abort(p):
        """the path takes the failure side of a fail-alone wrapper applied to the competing head"""
        held = {}
        for k_, n in enumerate(p):
            if n.kind == "stmt" and isinstance(n.ast, ast.Assign) and isinstance(n.ast.targets[0], ast.Name) and isinstance(n.ast.value, ast.Call) \
                    and isinstance(n.ast.value.func, ast.Name) and n.ast.value.func.id in FAIL_ALONE and any(src(a_) == ihv for a_ in n.ast.value.args):
                held[n.ast.targets[0].id] = True
            if n.kind == "test" and isinstance(n.ast, ast.expr) and k_ + 1 < len(p):
                labs = [lab for m, lab in n.succ if m is p[k_ + 1]]
                if len(labs) != 1 and not (k_ + 1 == len(p) - 1 and p[k_ + 1] is inode):
                    continue
                for v_ in held:
                    tv = truth(n.ast, {"%s is None" % v_: True, v_: False})
                    if tv is not None and labs and labs[0] is tv:
                        return True
                for c_ in (n.ast.values if isinstance(n.ast, ast.BoolOp) else [n.ast]):
                    if isinstance(c_, ast.Call) and isinstance(c_.func, ast.Name) and c_.func.id in FAIL_ALONE and any(src(a_) == ihv for a_ in c_.args) and labs == [False]:
                        return True
        return False

    ipaths = []
    for f0 in [m for m, lab in inode.succ if lab is True]:
        ipaths += cfg.paths(f0, inode, max_paths=20000, back_limit=1)
    ctx.count(len(ipaths))
    bad = []

    def _same_head_when(test):
        """True: the test holds exactly when the competing head IS the picked head; False: exactly when it is another head; None: unrelated."""
        if isinstance(test, ast.UnaryOp) and isinstance(test.op, ast.Not):
            r = _same_head_when(test.operand)
            return None if r is None else (not r)
        if isinstance(test, ast.Compare) and len(test.ops) == 1 and {src(test.left), src(test.comparators[0])} == {ihv, pv}:
            if isinstance(test.ops[0], (ast.Eq, ast.Is)):
                return True
            if isinstance(test.ops[0], (ast.NotEq, ast.IsNot)):
                return False
        return None

    def _exempt_outcomes(test):
        """truth values of a test that mean: this head needs no fate here - it IS the picked head, or its flow has been aborted meanwhile (while an earlier head of the
        group was resolved) / the head is no longer active.  Evaluated with the three-valued `truth`, so the test may combine these with `and` / `or` in any nesting."""
        outs = set()
        same = {"%s == %s" % (ihv, pv): True}
        v = truth(test, same)
        if v is not None:
            outs.add(v)
        dead1 = {(lambda e: isinstance(e, ast.Call) and src(e.func) in ("is_active_flow", "is_listening_flow")): False}
        v = truth(test, dead1)
        if v is not None:
            outs.add(v)
        dead2 = {(lambda e: isinstance(e, ast.Compare) and len(e.ops) == 1 and isinstance(e.ops[0], ast.Eq) and src(e.left).endswith(".status") and "ACTIVE" in src(e.comparators[0])): False}
        v = truth(test, dead2)
        if v is not None:
            outs.add(v)
        return outs

    def _is_picked_path(p):
        for k, n in enumerate(p):
            if n.kind == "test" and n.ast is not None and isinstance(n.ast, ast.expr):
                ex = _exempt_outcomes(n.ast)
                if not ex:
                    continue
                outs = {lab: m for m, lab in n.succ}
                nxt = p[k + 1] if k + 1 < len(p) else None
                for e in ex:
                    if nxt is not None and outs.get(e) is nxt:
                        return True
                    if nxt is None and (outs.get(e) is inode or outs.get(not e) is not inode):
                        return True
        return False

    for p in ipaths:
        fates = [fate(n) for n in p if fate(n)]
        if wrapper_abort(p):
            fates.append("abort")
        if _is_picked_path(p):
            # only the picked head is passed over, and nothing happens to it here
            if fates:
                bad.append((fates, p))
        elif any(n.kind == "stmt" and isinstance(n.ast, ast.Continue) for n in p) and not fates:
            bad.append(("skip", p))
        elif len(fates) != 1:
            bad.append((fates, p))
    ctx.check("C05.c.one-fate", SM, unit, "fates per competing head", not bad,
              "every path through the loop body for a head other than the picked one performs exactly one of {advance (co-win/caught), abort}; %d paths" % len(ipaths) if not bad else
              "a competing head gets %s fates on the path %s" % (bad[0][0], " > ".join(first_line(n.ast, 40) for n in bad[0][1] if n.ast is not None)[:600]), line=il.lineno)
    # advance only under is_equal or catch label (with the jump)
    for n in cfg.nodes:
        if fate(n) == "advance" and any(n.ast is x or any(n.ast is y for y in ast.walk(x)) for x in il.body):
            conds = []
            cond_nodes = []
            prev_child = n.ast
            p = getattr(n.ast, "_parent", None)
            while p is not None and p is not il:
                if isinstance(p, ast.If) and any(prev_child is s for s in p.body):
                    conds.append(src(p.test))
                    cond_nodes.append(p.test)
                prev_child = p
                p = getattr(p, "_parent", None)
            is_eq = any("is_equal" in c for c in conds) or any(_derives_from_is_equal(t_, fn) for t_ in cond_nodes)
            is_catch = any("catch_pattern_failure_label" in c for c in conds)
            ok = is_eq or is_catch
            if is_catch and not is_eq:
                blk = getattr(n.ast, "_parent", None)
                from ..source import inline_temporaries
                ok = any(isinstance(s, ast.Assign) and src(s.targets[0]) == "%s.position" % ihv and "element_labels" in inline_temporaries(s.value, fn, s.lineno) for s in blk.body)
            ctx.check("C05.c.advance-guard", SM, unit, first_line(n.ast) + " under " + (conds[0][:40] if conds else "nothing"), ok,
                      "a competing head proceeds only if its action is identical to the winner's (`is_equal`) or it jumps to its failure-catch label", line=n.line)
            if is_catch and not is_eq:
                # identical actions all proceed: the catch-label forward is for LOSERS only, so the identity test must have been taken (and failed) on every path to it
                eq_tests = [m for m in cfg.nodes if m.kind == "test" and m.ast is not None and ("is_equal" in src(m.ast) or _derives_from_is_equal(m.ast, fn))
                            and any(m.ast is y or any(m.ast is z for z in ast.walk(y)) for x in il.body for y in ast.walk(x) if isinstance(y, ast.If) and (y.test is m.ast))]
                starts = [m for m, lab in inode.succ if lab is True]
                okc = bool(eq_tests) and all(cfg.must_pass(st0, n, eq_tests, include_a=True) for st0 in starts)
                ctx.check("C05.c.one-fate", SM, unit, "catch-label forward only after the identity test", okc,
                          "a competing head is forwarded to its failure-catch label only after its action was compared with the winner's and found different" if okc else
                          "a competing head with a failure-catch label is forwarded to that label BEFORE its action is compared with the winner's: a head that starts the IDENTICAL action "
                          "(which must proceed, the action being started once) is treated as a loser and takes its failure path", line=n.line)
    aborts = [n for n in cfg.nodes if fate(n) == "abort" and any(n.ast is y for x in il.body for y in ast.walk(x))]
    ctx.check("C05.c.abort", SM, unit, "losers are aborted", len(aborts) >= 1 and all("get_flow_state_from_head" in src(fn) for _ in aborts),
              "heads that neither co-win nor catch are failed with _abort_flow (%d site)" % len(aborts), line=il.lineno)

    # ---- d: winner from the most specific ties -------------------------------------------
    sorts = [s for s in gbody if isinstance(s, ast.Assign) and isinstance(s.value, ast.Call) and isinstance(s.value.func, ast.Name) and s.value.func.id == "sorted"]
    okd, msg = False, "no `sorted(group, key=..., reverse=True)`"
    if sorts:
        c = sorts[0].value
        kw = {k.arg: k.value for k in c.keywords}
        ov = sorts[0].targets[0].id
        rev = isinstance(kw.get("reverse"), ast.Constant) and kw["reverse"].value is True
        key = kw.get("key")
        # key = scores padded with exact-match scores (1.0) to the longest chain of the group:
        # a shorter chain is an exact match and must not lose against a longer chain with the same prefix
        keyok = False
        if isinstance(key, ast.Lambda) and isinstance(key.body, ast.BinOp) and isinstance(key.body.op, ast.Add) and src(key.body.left).endswith(".matching_scores"):
            r = key.body.right
            if isinstance(r, ast.BinOp) and isinstance(r.op, ast.Mult) and src(r.left) == "[1.0]" and isinstance(r.right, ast.BinOp) and isinstance(r.right.op, ast.Sub) \
                    and src(r.right.right) == "len(%s)" % src(key.body.left):
                mx = src(r.right.left)
                mdef = [a for a in gbody if isinstance(a, ast.Assign) and isinstance(a.targets[0], ast.Name) and a.targets[0].id == mx]
                keyok = bool(mdef) and re.match(r"^max\(\(?len\(", src(mdef[0].value)) is not None and "matching_scores" in src(mdef[0].value) and src(c.args[0]) in src(mdef[0].value)
        src_group = src(c.args[0]) == (gl.target.id if isinstance(gl.target, ast.Name) else "")
        okd = rev and keyok and src_group
        msg = "heads of the group are sorted in descending order by their score chain padded with 1.0 to the longest chain (reverse=%s, padded key=%s)" % (rev, keyok)
        ctx.check("C05.d.order", SM, unit, "sort", okd, msg, line=sorts[0].lineno)
        # the tie prefix
        idx = [s for s in gbody if isinstance(s, ast.Assign) and isinstance(s.value, ast.Call) and isinstance(s.value.func, ast.Name) and s.value.func.id == "next"]
        # the order is re-used when the choice is repeated: every other store to the ordered list must be an order-preserving filter of itself
        for rs in [a for a in gbody if isinstance(a, ast.Assign) and isinstance(a.targets[0], ast.Name) and a.targets[0].id == ov and a is not sorts[0]]:
            v_ = rs.value
            okf = isinstance(v_, ast.ListComp) and len(v_.generators) == 1 and src(v_.generators[0].iter) == ov and isinstance(v_.elt, ast.Name) \
                and src(v_.elt) == src(v_.generators[0].target)
            ctx.check("C05.d.order", SM, unit, "re-filter keeps the order", okf,
                      "`%s` is only narrowed by a filter of itself (order kept)" % ov if okf else
                      "`%s` is rebuilt by `%s`: the descending order the tie prefix relies on is not evidently kept" % (ov, first_line(v_, 60)), line=rs.lineno)
        okp, msgp = False, "picked head is not drawn from the prefix of equal best scores"
        if pick:
            pe = pick[0].value
            if isinstance(pe, ast.Subscript) and src(pe.value) == ov and src(pe.slice) == "0":
                okp, msgp = True, "picked head is the first of the descending order"
            elif isinstance(pe, ast.Call) and src(pe.func) in ("random.choice", "choice") and isinstance(pe.args[0], ast.Subscript) \
                    and src(pe.args[0].value) == ov and isinstance(pe.args[0].slice, ast.Slice) and pe.args[0].slice.lower is None and idx \
                    and src(pe.args[0].slice.upper) == idx[0].targets[0].id:
                g = idx[0].value
                gen = g.args[0] if g.args else None
                dflt = g.args[1] if len(g.args) > 1 else None
                cmp_ok = isinstance(gen, ast.GeneratorExp) and any(
                    isinstance(i, ast.Compare) and isinstance(i.ops[0], ast.NotEq) and src(i.left).endswith(".matching_scores")
                    and src(i.comparators[0]) == "%s[0].matching_scores" % ov for g2 in gen.generators for i in g2.ifs) \
                    and isinstance(gen.elt, ast.Name) and "enumerate(%s)" % ov in src(gen.generators[0].iter)
                okp = cmp_ok and dflt is not None and src(dflt) == "len(%s)" % ov
                msgp = "picked head is drawn from `%s[:k]` with k = index of the first head whose scores differ from the best (default len): only exact ties of the most specific match can win" % ov
        ctx.check("C05.d.tie-prefix", SM, unit, "winner choice", okp, msgp, line=(pick[0].lineno if pick else gl.lineno))
    else:
        ctx.check("C05.d.order", SM, unit, "sort", False, msg, line=gl.lineno)

    # ---- e: filter in run_to_completion ---------------------------------------------------
    rtc = find_function(t, "run_to_completion")
    if rtc is None:
        raise AnalysisError("run_to_completion not found", anchor=SM + "::run_to_completion")
    rcfg = CFG(rtc)
    calls = [n for n in rcfg.nodes if n.kind == "stmt" and isinstance(n.ast, ast.Assign) and isinstance(n.ast.value, ast.Call)
             and isinstance(n.ast.value.func, ast.Name) and n.ast.value.func.id == fn.name]
    ctx.floor("C05.e.filter", SM, "calls of _resolve_action_conflicts", len(calls), 1)
    rd = ReachingDefs(rcfg)
    for c in calls:
        arg = c.ast.value.args[-1]
        v = rd.value_of(c, arg.id) if isinstance(arg, ast.Name) else None
        ok = isinstance(v, ast.ListComp) and any("is_active_flow" in src(i) for g in v.generators for i in g.ifs) \
            and any("FlowHeadStatus.ACTIVE" in src(i) and "==" in src(i) for g in v.generators for i in g.ifs)
        ctx.check("C05.e.filter", SM, "run_to_completion", first_line(c.ast), ok,
                  "the heads handed to conflict resolution are (on every path) the list filtered by is_active_flow(...) and status == ACTIVE: a flow that did not match or has ended is untouched",
                  line=c.line)


FLOWS = "nemoguardrails/colang/v2_x/runtime/flows.py"
FRESH = {"new_uuid", "new_readable_uuid"}


def e_dead_heads_skipped_in_loop(ctx, fn):
    """The heads of a group are filtered for liveness before the group is resolved - but resolving the group aborts flows (a loser, and with it its children).  A head of a flow
    that was aborted a moment ago is still in the list; treated as a co-winner it adds a share to the winner's action for a dead flow, and that action is never stopped when
    its real owner ends (F128).  The loop over the competing heads tests liveness again for every head."""
    inner = [l for l in ast.walk(fn) if isinstance(l, ast.For) and "ordered_heads" in src(l.iter) or (isinstance(l, ast.For) and "group" in src(l.iter) and any(
        isinstance(c, ast.Call) and src(c.func) == "_abort_flow" for c in ast.walk(l)) and not any(isinstance(x, ast.For) and x is not l and "ordered" in src(x.iter) for x in ast.walk(l)))]
    inner = [l for l in inner if any(isinstance(c, ast.Call) and src(c.func) == "_abort_flow" for c in ast.walk(l))]
    ctx.floor("C05.e.live-in-loop", SM, "loop over the competing heads of a group", len(inner), 1)
    for l in inner[:1]:
        tests = [i for i in ast.walk(l) if isinstance(i, ast.If) and any(isinstance(c, ast.Call) and src(c.func) in ("is_active_flow", "is_listening_flow") for c in ast.walk(i.test))]
        ctx.check("C05.e.live-in-loop", SM, fn.name, "liveness of each competing head is tested inside the loop", bool(tests),
                  "a head whose flow was aborted while an earlier head of the group was resolved is skipped" if tests else
                  "the competing heads are not re-tested inside the loop: a child of a losing flow that has just been aborted still co-wins and takes a share of the winner's action "
                  "- the action is not stopped when its real owner ends", line=l.lineno)


def d_score_chain(ctx):
    """`most specific wins` is decided on head.matching_scores, the chain of match scores since the external event.  The chain has to travel with control: a head
    created by a fork starts with a copy of the forking head's chain, the head that continues after a merge takes over the chain of the head that arrived, and a head
    that matches an event extends the event's chain by its own score.  Drop one of the three and a flow that reaches its action through an or-group / `when` competes
    with an empty chain (= padded with 1.0, an exact match) and beats more specific flows."""
    t = ctx.tree.ast(SM)
    sl = find_function(t, "slide")
    rtc = find_function(t, "run_to_completion")
    if sl is None or rtc is None:
        raise AnalysisError("slide / run_to_completion not found", anchor=SM + "::slide")
    hv = sl.args.args[2].arg if len(sl.args.args) > 2 else "head"
    cons = [c for c in walk_no_nested(sl) if isinstance(c, ast.Call) and src(c.func) == "FlowHead"]
    ctx.floor("C05.d.score-chain", SM, "heads created by a fork in slide()", len(cons), 1)
    for c in cons:
        kw = {k.arg: k.value for k in c.keywords}
        v = kw.get("matching_scores")
        ok = v is not None and any(isinstance(x, ast.Attribute) and x.attr == "matching_scores" for x in ast.walk(v))
        ctx.check("C05.d.score-chain", SM, "slide", "forked head starts with the forking head's score chain", ok,
                  "a head created by ForkHead is given (a copy of) the forking head's matching_scores" if ok else
                  "a head created by ForkHead does not inherit the score chain: every branch of an or-group / `when` competes as an exact match", line=c.lineno)
    # take-over: another head receives this head's position
    takes = [a for a in walk_no_nested(sl) if isinstance(a, ast.Assign) and isinstance(a.targets[0], ast.Attribute) and a.targets[0].attr == "position"
             and isinstance(a.targets[0].value, ast.Name) and a.targets[0].value.id != hv
             and any(isinstance(x, ast.Attribute) and x.attr == "position" for x in ast.walk(a.value))]
    ctx.floor("C05.d.score-chain", SM, "hand-over of control to another head (merge)", len(takes), 1)
    for a in takes:
        recv = a.targets[0].value.id
        blk = _block_of(a) or []
        ok = any(isinstance(s_, ast.Assign) and src(s_.targets[0]) == "%s.matching_scores" % recv
                 and any(isinstance(x, ast.Attribute) and x.attr == "matching_scores" for x in ast.walk(s_.value)) for s_ in blk)
        ctx.check("C05.d.score-chain", SM, "slide", "head continuing after a merge takes over the score chain", ok,
                  "`%s` continues with the matching_scores of the head that arrived at the merge" % recv if ok else
                  "`%s` continues after the merge with its own, stale score chain (empty after the per-event clean-up, i.e. padded to an exact match): the fuzzy score and the flow "
                  "priority of the match that led here are lost, and the flow wins against more specific competitors" % recv, line=a.lineno)
    ext = [a for a in walk_no_nested(rtc) if isinstance(a, ast.Assign) and isinstance(a.targets[0], ast.Attribute) and a.targets[0].attr == "matching_scores"
           and any(isinstance(x, ast.Attribute) and x.attr == "matching_scores" for x in ast.walk(a.value))]
    def _appends(a):
        return any(isinstance(c, ast.Call) and isinstance(c.func, ast.Attribute) and c.func.attr == "append" and src(c.func.value) == src(a.targets[0])
                   for s_ in (_block_of(a) or []) for c in ast.walk(s_))

    def _forwarded(a):
        return any(isinstance(s_, ast.Assign) and src(s_.targets[0]).endswith(".position") and "catch_pattern_failure_label" in src(s_.value) for s_ in (_block_of(a) or []))
    matched = [a for a in ext if not _forwarded(a)]
    ok = bool(matched) and all(_appends(a) for a in matched)
    ctx.check("C05.d.score-chain", SM, "run_to_completion", "matching head extends the event's score chain", ok,
              "a head that matches takes the event's chain and appends its own score", line=(ext[0].lineno if ext else rtc.lineno))
    # a head that the event FAILED and that continues at its failure label (the `else` of a `when`, an or-group) competes with the chain of that event too
    fwd = [s_ for s_ in walk_no_nested(rtc) if isinstance(s_, ast.Assign) and src(s_.targets[0]).endswith(".position") and "catch_pattern_failure_label" in src(s_.value)]
    for f_ in fwd:
        ok = any(_forwarded(a) and a in (_block_of(f_) or []) for a in ext)
        ctx.check("C05.d.score-chain", SM, "run_to_completion", "head forwarded to its failure label takes the event's score chain", ok,
                  "the forwarded head continues with the scores of the event that failed it" if ok else
                  "a head that continues at its failure label keeps its old score chain, which the per-event clean-up has emptied (= an exact match after padding): the `else` branch "
                  "of a `when` beats a flow whose own match was more specific", line=f_.lineno)


def _block_of(stmt):
    p = getattr(stmt, "_parent", None)
    for f in ("body", "orelse", "finalbody"):
        b = getattr(p, f, None)
        if isinstance(b, list) and stmt in b:
            return b
    return None


def identity_predicate(ctx):
    """`identical action` is decided by Event.is_equal: it must compare the name and the WHOLE argument sets of both sides."""
    t = ctx.tree.ast(FLOWS)
    fn = find_function(t, "is_equal", "Event")
    if fn is None:
        raise AnalysisError("Event.is_equal not found", anchor=FLOWS + "::Event.is_equal")
    body = src(fn)
    flat = re.sub(r"\s", "", body)
    whole = ("self.arguments==other.arguments" in flat or "other.arguments==self.arguments" in flat)
    name = ("self.name==other.name" in flat or "other.name==self.name" in flat or "self.name!=other.name" in flat or "other.name!=self.name" in flat)
    loops_self = [l for l in ast.walk(fn) if isinstance(l, ast.For) and "self.arguments" in src(l.iter)]
    loops_other = [l for l in ast.walk(fn) if isinstance(l, ast.For) and "other.arguments" in src(l.iter)]
    sizes = any(x in flat for x in ("len(self.arguments)==len(other.arguments)", "len(other.arguments)==len(self.arguments)", "len(self.arguments)!=len(other.arguments)",
                                    "len(other.arguments)!=len(self.arguments)", "self.arguments.keys()==other.arguments.keys()", "other.arguments.keys()==self.arguments.keys()",
                                    "self.arguments.keys()!=other.arguments.keys()", "set(self.arguments)==set(other.arguments)", "set(self.arguments)!=set(other.arguments)"))
    if whole:
        two_sided, how = True, "whole-dict equality of the arguments"
    elif loops_self and (loops_other or sizes):
        two_sided, how = True, "argument-wise comparison covering both sides"
    elif loops_other and (loops_self or sizes):
        two_sided, how = True, "argument-wise comparison covering both sides"
    elif loops_self or loops_other:
        two_sided, how = False, "only the arguments of %s are inspected" % ("self" if loops_self else "other")
    else:
        raise AnalysisError("Event.is_equal: comparison form not recognised", anchor=FLOWS + "::Event.is_equal")
    ctx.check("C05.c.identity", FLOWS, "Event.is_equal", "arguments compared on both sides", two_sided,
              "identical-action test: %s" % how if two_sided else
              "identical-action test is one-sided (%s): a competitor whose arguments are a superset/subset of the winner's counts as identical, proceeds, and its different action is silently dropped" % how,
              line=fn.lineno)
    ctx.check("C05.c.identity", FLOWS, "Event.is_equal", "name compared", name, "the event/action name is part of the identity", line=fn.lineno)
    # only return statements that depend on the comparison may say True
    lit_true = [r for r in ast.walk(fn) if isinstance(r, ast.Return) and isinstance(r.value, ast.Constant) and r.value.value is True]
    ok = all(any(isinstance(p, (ast.For, ast.If)) or True for p in [r]) for r in lit_true)
    # the resolver uses this predicate (not a weaker one) for co-winning
    sm = ctx.tree.ast(SM)
    rf = find_function(sm, "_resolve_action_conflicts")
    uses = [c for c in ast.walk(rf) if isinstance(c, ast.Call) and isinstance(c.func, ast.Attribute) and c.func.attr == "is_equal"] if rf else []
    ctx.check("C05.c.identity", SM, "_resolve_action_conflicts", "co-win uses the identity predicate", len(uses) >= 1,
              "a competing head co-wins only under `winning_event.is_equal(competing_event)` (%d use)" % len(uses), line=(uses[0].lineno if uses else 1))


def loop_sources(ctx):
    """Heads compete only inside their interaction loop, identified by FlowState.loop_id.  Every value that can reach a loop_id must be (1) a fresh
    id, (2) the instance's OWN declared named loop with the literal "NEW" excluded, or (3) the run-time loop id of another live instance (parent)."""
    sm = ctx.tree.ast(SM)
    sites = []
    for fn in functions(sm):
        for n in walk_no_nested(fn):
            if isinstance(n, ast.Assign) and isinstance(n.targets[0], ast.Attribute) and n.targets[0].attr == "loop_id":
                sites.append((fn, n, n.targets[0].value, n.value))
            if isinstance(n, ast.Call) and src(n.func) == "FlowState":
                for k in n.keywords:
                    if k.arg == "loop_id":
                        sites.append((fn, n, None, k.value))
    ctx.floor("C05.a.loop-source", SM, "stores into FlowState.loop_id", len(sites), 2)

    def bindings(fn, name):
        out = []
        for n in walk_no_nested(fn):
            if isinstance(n, ast.Assign) and any(isinstance(t, ast.Name) and t.id == name for t in n.targets):
                out.append(n)
            if isinstance(n, ast.AnnAssign) and isinstance(n.target, ast.Name) and n.target.id == name and n.value is not None:
                out.append(n)
        return out

    def kind_of_base(fn, b, own_flow_exprs):
        """classify the object whose .loop_id is read: ('instance',) | ('config', own?)"""
        txt = re.sub(r"\s", "", src(b))
        if re.match(r"state\.flow_states\[", txt):
            return ("instance", txt)
        m = re.match(r"state\.flow_configs\[(.*)\]$", txt)
        if m:
            return ("config", m.group(1) in own_flow_exprs)
        if isinstance(b, ast.Name):
            params = {a.arg: a for a in fn.args.args}
            if b.id in params:
                ann = src(params[b.id].annotation) if params[b.id].annotation is not None else ""
                if "FlowConfig" in ann:
                    return ("config", b.id in own_flow_exprs)
                if "FlowState" in ann:
                    return ("instance", b.id)
                return ("unknown", b.id)
            ks = [kind_of_base(fn, d.value, own_flow_exprs) for d in bindings(fn, b.id)]
            if ks and all(k[0] == "instance" for k in ks):
                return ("instance", b.id)
            if ks and all(k[0] == "config" for k in ks):
                return ("config", all(k[1] for k in ks))
        return ("unknown", txt)

    def classify(fn, e, own, seen=()):
        """-> set of source kinds"""
        if isinstance(e, ast.Constant) and e.value is None:
            return {"none"}
        if isinstance(e, ast.Call) and src(e.func) in FRESH:
            return {"fresh"}
        if isinstance(e, ast.BoolOp):
            out = set()
            for v in e.values:
                out |= classify(fn, v, own, seen)
            return out
        if isinstance(e, ast.IfExp):
            return classify(fn, e.body, own, seen) | classify(fn, e.orelse, own, seen)
        if isinstance(e, ast.Name):
            if e.id in seen:
                return set()
            ds = bindings(fn, e.id)
            if not ds:
                return {"other:%s" % e.id}
            out = set()
            for d in ds:
                out |= classify(fn, d.value, own, seen + (e.id,))
            return out
        if isinstance(e, ast.Attribute) and e.attr == "loop_id":
            k = kind_of_base(fn, e.value, own)
            if k[0] == "instance":
                return {"instance"}
            if k[0] == "config":
                return {"config-own" if k[1] else "config-other"}
            return {"other:%s" % src(e)}
        return {"other:%s" % src(e)[:40]}

    for fn, n, target_base, value in sites:
        # which expressions denote the flow id of the instance that receives the loop id
        own = set()
        if target_base is not None:
            tb = re.sub(r"\s", "", src(target_base))
            own.add(tb + ".flow_id")
            for d in bindings(fn, tb) if isinstance(target_base, ast.Name) else []:
                pass
            # main: `main_flow_config = state.flow_configs["main"]` and the target is created from it
            for d in [x for x in walk_no_nested(fn) if isinstance(x, ast.Assign) and isinstance(x.targets[0], ast.Name)]:
                if tb in src(d.targets[0]) or True:
                    pass
            if fn.name == "initialize_state":
                own |= {'"main"', "'main'", "main_flow_config"}
        else:
            # constructor: the config that also provides flow_id=<cfg>.id
            for k in n.keywords:
                if k.arg == "flow_id" and isinstance(k.value, ast.Attribute) and k.value.attr == "id":
                    own.add(src(k.value.value))
        # names bound to own config
        for d in [x for x in walk_no_nested(fn) if isinstance(x, ast.Assign) and isinstance(x.targets[0], ast.Name)]:
            m = re.match(r"state\.flow_configs\[(.*)\]$", re.sub(r"\s", "", src(d.value)))
            if m and m.group(1) in own:
                own.add(d.targets[0].id)
        kinds = classify(fn, value, own)
        bad = sorted(k for k in kinds if k.startswith("other") or k == "config-other")
        ok = not bad
        why = "sources: %s" % sorted(kinds)
        if ok and "config-own" in kinds and fn.name != "initialize_state":
            # the literal "NEW" must not be stored as a loop id: NEW-exclusion on the path
            text = re.sub(r"\s", "", src(fn))
            excl = bool(re.search(r"loop_type==InteractionLoopType\.NAMED", text)) or bool(re.search(r"loop_id==[\"']NEW[\"']", text))
            ok = excl
            why += "; the literal \"NEW\" is %s before the declared id is used" % ("excluded" if excl else "NOT excluded")
        ctx.check("C05.a.loop-source", SM, fn.name, first_line(n, 70) if target_base is not None else "FlowState(loop_id=%s)" % src(value), ok,
                  ("the loop id is a fresh id, the instance's own declared loop, or a live instance's run-time loop id (%s)" % why) if ok else
                  ("the loop id can come from %s: a DECLARED loop id of another flow (possibly the literal \"NEW\") puts unrelated instances into one interaction loop, where their actions compete (%s)"
                   % (bad or "an unguarded declared id", why)), line=n.lineno)


def e_live_heads_per_group(ctx):
    """The interaction loops are resolved one after the other, and aborting the losers of one loop can stop flows (children with their own @loop) whose heads sit in a
    group that is resolved LATER.  Before a group is resolved its heads must be re-checked for liveness, otherwise the action of an already stopped flow is started."""
    t = ctx.tree.ast(SM)
    fn = find_function(t, "_resolve_action_conflicts")
    gl = [l for l in ast.walk(fn) if isinstance(l, ast.For) and any(isinstance(c, ast.Call) and src(c.func) == "sorted" for st in l.body for c in ast.walk(st))
          and any(isinstance(c, ast.Call) and src(c.func) == "_abort_flow" for c in ast.walk(l))]
    if not gl:
        ctx.note("C05.e: no per-group resolution loop with aborts recognised")
        return
    l = gl[0]
    g = l.target.id if isinstance(l.target, ast.Name) else None
    if g is None:
        # the group is bound inside the loop body (e.g. `group = list(loop_heads)`): the variable that is sorted
        for st in l.body:
            for c in ast.walk(st):
                if isinstance(c, ast.Call) and src(c.func) == "sorted" and c.args and isinstance(c.args[0], ast.Name):
                    g = c.args[0].id
    first_use = None
    for st in l.body:
        if any(isinstance(c, ast.Call) and src(c.func) in ("sorted", "max", "random.choice") for c in ast.walk(st)):
            first_use = st
            break
    refilter = [st for st in l.body if isinstance(st, ast.Assign) and src(st.targets[0]) == g and "is_active_flow" in src(st.value) and (first_use is None or st.lineno < first_use.lineno)]
    aborts = any(isinstance(c, ast.Call) and src(c.func) == "_abort_flow" for c in ast.walk(l))
    ok = bool(refilter) or not aborts
    ctx.check("C05.e.filter", SM, fn.name, "heads re-checked for liveness per group", ok,
              "before a group is ordered its heads are filtered by is_active_flow (flows stopped by the resolution of an earlier loop no longer compete)" if ok else
              "a group resolved after another loop's losers were aborted still contains the heads of flows that the abort has stopped (a child flow with its own @loop): such a head is picked, "
              "its action is started for a STOPPED flow and never stopped", line=l.lineno)


def d_priority_zero(ctx):
    """`scaled by a declared flow priority`: every declared priority - including the allowed value 0.0 - scales the score, and a scaled match stays a match (> 0)."""
    t = ctx.tree.ast(SM)
    fn = find_function(t, "_compute_event_comparison_score")
    scal = []
    for n in ast.walk(fn):
        if isinstance(n, ast.AugAssign) and isinstance(n.op, ast.Mult) and src(n.target) == "match_score" and "priority" in src(n.value):
            scal.append(n)
        if isinstance(n, ast.Assign) and src(n.targets[0]) == "match_score" and any(isinstance(b, ast.BinOp) and isinstance(b.op, ast.Mult) and "priority" in src(b) for b in ast.walk(n.value)):
            scal.append(n)
    if not scal:
        raise AnalysisError("priority scaling not found", anchor=SM + "::_compute_event_comparison_score::priority")
    for n in scal:
        par = getattr(n, "_parent", None)
        test = re.sub(r"\s", "", src(par.test)) if isinstance(par, ast.If) else ""
        skips_zero = test in ("priority", "priority>0", "priority>0.0", "priorityandpriority>0") or "priority>0" in test
        floored = isinstance(n, ast.Assign) and isinstance(n.value, ast.Call) and src(n.value.func) == "max"
        ok = not skips_zero and floored
        ctx.check("C05.d.priority-zero", SM, fn.name, first_line(n, 70), ok,
                  "every declared priority scales the score and the result keeps a positive floor" if ok else
                  ("the scaling is guarded by `%s`, which skips the allowed priority 0.0: such a flow competes with its FULL score and beats flows with priority 0.5 or 0.99" % src(par.test) if skips_zero else
                   "the scaled score has no positive floor: priority 0.0 turns a match into score 0.0 = no match"), line=n.lineno)



def _derives_from_is_equal(test, fn):
    """The condition is an `is_equal` test, or a flag that is first assigned from `is_equal(...)` and afterwards only narrowed (re-assigned under `if <flag> and ...`)."""
    if "is_equal" in src(test):
        return True
    names = [n.id for n in ast.walk(test) if isinstance(n, ast.Name)]
    for nm in names:
        assigns = sorted([a for a in ast.walk(fn) if isinstance(a, ast.Assign) and any(isinstance(t_, ast.Name) and t_.id == nm for t_ in a.targets)], key=lambda a: a.lineno)
        if not assigns or "is_equal" not in src(assigns[0].value):
            continue
        ok = True
        for a in assigns[1:]:
            par = getattr(a, "_parent", None)
            narrowed = False
            while par is not None and par is not fn:
                if isinstance(par, ast.If):
                    te = par.test
                    conj = te.values if isinstance(te, ast.BoolOp) and isinstance(te.op, ast.And) else [te]
                    if any(isinstance(c, ast.Name) and c.id == nm for c in conj):
                        narrowed = True
                par = getattr(par, "_parent", None)
            ok = ok and narrowed
        if ok:
            return True
    return False


def created_on_edge(test, edge, is_wrapper):
    import itertools
    ats = []

    def collect(e):
        if isinstance(e, ast.BoolOp):
            for v in e.values:
                collect(v)
        elif isinstance(e, ast.UnaryOp) and isinstance(e.op, ast.Not):
            collect(e.operand)
        else:
            ats.append(e)
    collect(test)
    if len(ats) > 10:
        return {True, False}
    is_e = [bool(is_wrapper(a)) for a in ats]
    out = set()
    for vals in itertools.product((False, True), repeat=len(ats)):
        env = {id(a): v for a, v in zip(ats, vals)}
        made = [False]

        def ev(e):
            if isinstance(e, ast.BoolOp):
                if isinstance(e.op, ast.And):
                    for v in e.values:
                        if not ev(v):
                            return False
                    return True
                for v in e.values:
                    if ev(v):
                        return True
                return False
            if isinstance(e, ast.UnaryOp) and isinstance(e.op, ast.Not):
                return not ev(e.operand)
            if is_e[[id(a) for a in ats].index(id(e))] and env[id(e)]:
                made[0] = True
            return env[id(e)]
        if ev(test) is edge:
            out.add(made[0])
    return out


def e_live_retry(ctx):
    """When the best head cannot create its event its flow is aborted - and _abort_flow also aborts that flow's children, whose heads can be candidates of the same group.
    Before the choice is repeated, the candidates are filtered for liveness again: otherwise a head of a flow that has just been aborted can win, its action is started
    although its flow has failed, and the live competitors are aborted as losers."""
    t = ctx.tree.ast(SM)
    fn = find_function(t, "_resolve_action_conflicts")
    whiles = [w for w in ast.walk(fn) if isinstance(w, ast.While) and any(isinstance(c, ast.Call) and src(c.func) in ("random.choice", "choice") for c in ast.walk(w))]
    if not whiles:
        ctx.note("C05.e.live-retry: the winner is chosen once (no retry loop); nothing to decide")
        return
    w = whiles[0]
    cfg = CFG(fn)
    picks = [cfg.node_of(a) for a in ast.walk(w) if isinstance(a, ast.Assign) and isinstance(a.value, ast.Call) and src(a.value.func) in ("random.choice", "choice")]
    emit_tests = [n for n in cfg.nodes if n.kind == "test" and isinstance(n.ast, ast.expr) and any(
        isinstance(c, ast.Call) and isinstance(c.func, ast.Name) and c.func.id.startswith("_try_") for c in ast.walk(n.ast)) and any(n.ast is x for x in ast.walk(w))]
    live = [n for n in cfg.nodes if n.kind == "stmt" and isinstance(n.ast, ast.Assign) and any(
        isinstance(c, ast.Call) and src(c.func) in ("is_active_flow", "is_listening_flow") for c in ast.walk(n.ast.value))
        and any(isinstance(c, ast.Compare) and "status" in src(c) and "ACTIVE" in src(c) for c in ast.walk(n.ast.value)) and any(n.ast is x for x in ast.walk(w))]
    ctx.floor("C05.e.live-retry", SM, "attempts to create the winner's event inside the retry loop", len(emit_tests), 1)
    ok = True
    is_w = (lambda a_: isinstance(a_, ast.Call) and isinstance(a_.func, ast.Name) and a_.func.id.startswith("_try_"))
    for et in emit_tests:
        for m, lab in et.succ:
            # edges on which the attempt cannot have succeeded (whatever the polarity / spelling of the test)
            if lab in (True, False) and True not in created_on_edge(et.ast, lab, is_w):
                for pk in picks:
                    if pk in cfg.reachable([m]) and not cfg.must_pass(m, pk, live, include_a=True):
                        ok = False
    ctx.check("C05.e.live-retry", SM, fn.name, "candidates are filtered for liveness before the choice is repeated", ok,
              "after a failed attempt the remaining candidates are narrowed to heads of active flows with ACTIVE status before the next pick" if ok else
              "after the winner failed to create its event the choice is repeated over candidates that were not filtered for liveness: the failed flow's abort also aborted its child "
              "flows, and a head of such a dead flow can be picked - its action is started although its flow has failed and the live competitors are aborted", line=w.lineno)


def c_identity_by_instance(ctx):
    """`identical action`: for events that refer to an EXISTING action instance (Stop/Change of a running action) identity includes the instance.  Event.is_equal compares
    name and arguments only, so the co-win branch must also compare the action uids before it merges the two actions."""
    t = ctx.tree.ast(SM)
    fn = find_function(t, "_resolve_action_conflicts")
    eqs = [i for i in ast.walk(fn) if isinstance(i, ast.If) and _derives_from_is_equal(i.test, fn)
           and any(isinstance(c, ast.Call) and isinstance(c.func, ast.Attribute) and c.func.attr == "append" for st in i.body for c in ast.walk(st))]
    if not eqs:
        ctx.check("C05.c.identity-instance", SM, fn.name, "co-win test", False, "no `is_equal` test decides which competing heads co-win", line=fn.lineno)
        return
    i = eqs[0]
    # the uid comparison may sit in the branch or in the computation of the flag the branch tests
    scope_nodes = list(ast.walk(i))
    for nm in [n.id for n in ast.walk(i.test) if isinstance(n, ast.Name)]:
        for a in ast.walk(fn):
            if isinstance(a, ast.Assign) and any(isinstance(t_, ast.Name) and t_.id == nm for t_ in a.targets):
                scope_nodes += list(ast.walk(a))
                par = getattr(a, "_parent", None)
                if isinstance(par, ast.If):
                    scope_nodes += list(ast.walk(par.test))
                    for nm2 in [n.id for n in ast.walk(par.test) if isinstance(n, ast.Name)]:
                        for a2 in ast.walk(fn):
                            if isinstance(a2, ast.Assign) and any(isinstance(t_, ast.Name) and t_.id == nm2 for t_ in a2.targets):
                                scope_nodes += list(ast.walk(a2))
    uid_cmp = [c for c in scope_nodes if isinstance(c, ast.Compare) and any(isinstance(o, (ast.Eq, ast.NotEq)) for o in c.ops)
               and re.search(r"winning\w*\.action_uid", src(c)) and re.search(r"competing\w*\.action_uid", src(c))]
    dels = [d for d in ast.walk(i) if isinstance(d, ast.Delete) and "state.actions" in src(d)]
    ok = bool(uid_cmp) or not dels
    ctx.check("C05.c.identity-instance", SM, fn.name, first_line(i.test, 60), ok,
              "events of existing action instances co-win only for the same instance" if ok else
              "two competing events are `identical` by name+arguments alone and the branch then merges the actions (`del state.actions[...]`): two flows that each `send $ref.Stop()` on DIFFERENT running actions "
              "emit one Stop, both proceed, the other action is never stopped and is deleted from state.actions (a later clean-up raises KeyError)", line=i.lineno)


def c_instance_registered(ctx):
    """get_event_from_element builds a helper `Action(...)` for `send Action(args).Start()` on EVERY evaluation and does not register it: the uids of two such events differ
    although the events are the identical action.  So a difference of the action uids may only count as "another instance" when both uids belong to registered actions -
    otherwise flows that send the identical event never co-win (one is aborted)."""
    t = ctx.tree.ast(SM)
    fn = find_function(t, "_resolve_action_conflicts")
    ge = find_function(t, "get_event_from_element")
    if ge is None:
        raise AnalysisError("get_event_from_element not found", anchor=SM + "::get_event_from_element")
    helper = [c for c in ast.walk(ge) if isinstance(c, ast.Call) and src(c.func) == "Action"]
    registers = any(isinstance(x, ast.Subscript) and src(x.value) == "state.actions" and isinstance(x.ctx, ast.Store) for x in ast.walk(ge)) or \
        any(isinstance(c, ast.Call) and src(c.func) in ("state.actions.update", "state.actions.setdefault") for c in ast.walk(ge))
    if not helper or registers:
        ctx.note("C05.c.instance-registered: get_event_from_element builds no unregistered helper action; the rule has no premise")
        return
    cmps = [c for c in ast.walk(fn) if isinstance(c, ast.Compare) and len(c.ops) == 1 and isinstance(c.ops[0], (ast.NotEq, ast.Eq))
            and re.search(r"\.action_uid$", src(c.left)) and re.search(r"\.action_uid$", src(c.comparators[0]))]
    ctx.floor("C05.c.instance-registered", SM, "comparisons of two action uids in conflict resolution", len(cmps), 1)
    for c in cmps:
        sides = {src(c.left), src(c.comparators[0])}
        # the conjunction (or the flag definition) the comparison belongs to
        top = c
        while isinstance(getattr(top, "_parent", None), (ast.BoolOp, ast.UnaryOp)):
            top = top._parent
        member = {src(m.left) for m in ast.walk(top) if isinstance(m, ast.Compare) and len(m.ops) == 1 and isinstance(m.ops[0], ast.In) and src(m.comparators[0]) == "state.actions"}
        conj_ok = isinstance(top, ast.BoolOp) and isinstance(top.op, ast.And)
        ok = conj_ok and sides <= member
        ctx.check("C05.c.instance-registered", SM, fn.name, "action uids differ", ok,
                  "a difference of the action uids counts only when both uids are registered actions (%s)" % sorted(member) if ok else
                  "`%s` alone decides that the two events belong to different action instances, but get_event_from_element gives every evaluation of `send Action(args).Start()` a "
                  "fresh, unregistered uid: two flows sending the IDENTICAL event do not co-win, one of them is aborted as a loser" % first_line(c, 80), line=c.lineno)


def c_abort_spares_winner(ctx):
    """`exactly one of them proceeds`: the loser is failed with _abort_flow, which also aborts all children of the loser.  If the winner is a descendant of the loser
    (child flow with the more specific match), aborting the loser aborts the winner: zero flows proceed."""
    t = ctx.tree.ast(SM)
    fn = find_function(t, "_resolve_action_conflicts")
    ab = find_function(t, "_abort_flow")
    aborts = [c for c in ast.walk(fn) if isinstance(c, ast.Call) and src(c.func) == "_abort_flow"]
    cascades = ab is not None and any(isinstance(c, ast.Call) and src(c.func) == "_abort_flow" for c in ast.walk(ab)) and "child_flow_uids" in src(ab)
    spares = any(k in src(fn) for k in ("_get_flow_state_hierarchy", "spare", "is_descendant", "ancestor"))
    ok = not (aborts and cascades) or spares
    ctx.check("C05.c.abort-spares-winner", SM, fn.name, "abort of a loser vs. a winner among its descendants", ok,
              "aborting a loser cannot reach the winning head" if ok else
              "a loser is failed with _abort_flow, which recursively aborts its child flows, and nothing excludes the branch that holds the winning head: when a child wins against its own parent "
              "(more specific match) the parent's abort stops the child too - the winning action is started and stopped in the same round and no flow proceeds", line=(aborts[0].lineno if aborts else fn.lineno))
