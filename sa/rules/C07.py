"""C07 - and/or groups behave like the boolean formula they spell (decided on the emission
templates of the group expanders + the shape of the DNF normaliser)."""
import ast
import re

from ..emit2 import Rec, Nested, GenCFG
from ..source import AnalysisError, find_function, first_line, src
from . import C12

EXP = C12.EXP
GROUP_EXPANDERS = ("_expand_match_element", "_expand_await_element", "_expand_element_group", "_expand_when_stmt_element")


def run(ctx):
    ctx.explanation = ("C07: on the emission traces (emit2) of the group expanders: `and` forks wait for all heads on the success path and fail on the first failure, "
                       "`or` forks succeed on the first head and fail only after all failed; WaitForHeads counts agree with the fork they belong to; "
                       "failure-handler push/pop is balanced on every path; plus the shape of normalize_element_groups.")
    ctx.decided = ["a: wait placement distinguishes and (wait on success) from or (wait on failure)", "b: WaitForHeads.number = number of labels of its fork; every forked branch ends in a Goto to the end label",
                   "c: CatchPatternFailure push/pop balanced on every path of every template", "d: normaliser shape (or: concatenate, and: distribute every accumulated group over every group of the next operand)"]
    ctx.not_decided = ["equivalence of normalize_element_groups with the formula for all formulas", "the head-merge dynamics at run time (which event arrives when)"]
    names, temps = C12.templates(ctx)
    a_b_wait(ctx, temps)
    c_catch(ctx, names, temps)
    d_normaliser(ctx)


def _segment_after(elems, g, st, start, stop_cls=("MergeHeads", "Abort")):
    """Linear walk from `start` following unconditional flow until one of stop_cls; returns the Recs passed."""
    out = []
    i = start
    seen = set()
    while 0 <= i < len(elems) and i not in seen:
        seen.add(i)
        e = elems[i]
        if isinstance(e, Rec):
            out.append(e)
            if e.cls in stop_cls:
                break
            if e.cls == "Goto" and e.fields.get("expression") in (None, "True") and e.fields.get("label") in g.labels:
                i = g.labels[e.fields.get("label")]
                continue
        i += 1
    return out


def a_b_wait(ctx, temps):
    mod = ctx.tree.ast(EXP)
    verdicts = {}

    def rec(fn, what, ok, msg, line):
        v = verdicts.setdefault((fn, what), [True, msg, line, 0])
        v[3] += 1
        if not ok and v[0]:
            v[0], v[1] = False, msg

    n_forks = 0
    for fn, sizes, oracle, elems in temps:
        if fn not in GROUP_EXPANDERS:
            continue
        A, B, Cn = sizes["or_coll"], sizes["and_coll"], sizes["cases"]
        forks = [(i, e) for i, e in enumerate(elems) if isinstance(e, Rec) and e.cls == "ForkHead"]
        if not forks:
            continue
        g = GenCFG(elems)
        st, _ = g.catch_states()
        for fi, (i, f) in enumerate(forks):
            labels = f.fields.get("labels") or []
            n = len(labels)
            n_forks += 1
            if fn == "_expand_when_stmt_element":
                kind = "cases" if fi == 0 else "or"
            elif fn == "_expand_match_element" and A == 1:
                kind = "and"
            else:
                kind = "or"
            if len({A, B, Cn}) == 3 or fn != "_expand_when_stmt_element":
                expect_n = {"and": B, "or": A, "cases": Cn}[kind]
                rec(fn, "%s fork has one label per member" % kind, n == expect_n,
                    "the %s fork has %d labels but its group has %d members (witness %s)" % (kind, n, expect_n, C12._sz(sizes)), f.line)
            # the handler label active at the fork = failure continuation
            fstate = st.get(i, ())
            if kind != "cases":
                if not fstate:
                    rec(fn, "%s fork under a failure handler" % kind, False, "the %s fork is not preceded by CatchPatternFailure(label): a failing member fails the whole flow instead of the group logic" % kind, f.line)
                    continue
                fail_label = fstate[-1]
                fail_seg = _segment_after(elems, g, st, g.labels.get(fail_label, len(elems)))
                # end label: target of the Goto that ends the first branch
                first_branch = _segment_after(elems, g, st, g.labels[labels[0]], stop_cls=("Goto",)) if labels and labels[0] in g.labels else []
                end_goto = [e for e in first_branch if e.cls == "Goto"]
                end_label = end_goto[-1].fields.get("label") if end_goto else None
                ok_goto = True
                for l in labels:
                    seg = _segment_after(elems, g, st, g.labels[l], stop_cls=("Goto",)) if l in g.labels else []
                    if not seg or seg[-1].cls != "Goto" or seg[-1].fields.get("label") != end_label:
                        ok_goto = False
                rec(fn, "%s fork: every branch ends in Goto(end label)" % kind, ok_goto and end_label is not None,
                    "a forked branch of %s does not end with a Goto to the common end label (witness %s)" % (fn, C12._sz(sizes)), f.line)
                succ_seg = _segment_after(elems, g, st, g.labels.get(end_label, len(elems))) if end_label else []
                w_succ = [e for e in succ_seg if e.cls == "WaitForHeads"]
                w_fail = [e for e in fail_seg if e.cls == "WaitForHeads"]
                if fn == "_expand_when_stmt_element":
                    # per-case group fork: success goes straight to the case label (merge of the cases fork); failure waits for all groups of the case
                    rec(fn, "or fork (case groups): success does not wait", not w_succ or all(e.fields.get("number") != n for e in w_succ[:0]), "", f.line)
                    okf = bool(w_fail) and w_fail[0].fields.get("number") == n
                    rec(fn, "or fork (case groups): failure waits for all groups of the case", okf,
                        "a `when` case is given up before all of its %d or-groups failed: WaitForHeads on the failure path has number %s (witness %s)" % (
                            n, w_fail[0].fields.get("number") if w_fail else None, C12._sz(sizes)), f.line)
                    continue
                if kind == "and":
                    ok = bool(w_succ) and w_succ[0].fields.get("number") == n and not w_fail
                    rec(fn, "and fork: wait for all on success, fail on first failure", ok,
                        "the and-group template must wait for all %d heads on the success path (found %s) and must NOT wait on the failure path (found %s): otherwise `and` completes on the first event / never fails (witness %s)" % (
                            n, [e.fields.get("number") for e in w_succ], [e.fields.get("number") for e in w_fail], C12._sz(sizes)), f.line)
                else:
                    ok = (not w_succ) and bool(w_fail) and w_fail[0].fields.get("number") == n
                    rec(fn, "or fork: succeed on first head, fail after all failed", ok,
                        "the or-group template must NOT wait on the success path (found %s) and must wait for all %d heads on the failure path (found %s): otherwise `or` waits for every alternative / fails on the first failing alternative (witness %s)" % (
                            [e.fields.get("number") for e in w_succ], n, [e.fields.get("number") for e in w_fail], C12._sz(sizes)), f.line)
                # success and failure paths merge the fork they belong to
                for seg, nm in ((succ_seg, "success"), (fail_seg, "failure")):
                    m = [e for e in seg if e.cls == "MergeHeads"]
                    if nm == "failure" and fn == "_expand_await_element":
                        continue  # documented note: the await-or failure path ends the scope and aborts without an explicit merge
                    rec(fn, "%s fork: %s path merges this fork" % (kind, nm), bool(m) and m[0].fields.get("fork_uid") == f.fields.get("fork_uid"),
                        "the %s path of the %s fork does not merge the fork it belongs to" % (nm, kind), f.line)
            else:
                # cases fork of `when`: the else label waits for all cases
                waits = [e for e in elems if isinstance(e, Rec) and e.cls == "WaitForHeads"]
                else_lab = [l for l in g.labels if str(l).startswith("when_else_label")]
                ok = False
                if else_lab:
                    seg = _segment_after(elems, g, st, g.labels[else_lab[0]], stop_cls=("Abort", "Goto"))
                    w = [e for e in seg if e.cls == "WaitForHeads"]
                    ok = bool(w) and w[0].fields.get("number") == n
                rec(fn, "cases fork: else waits for all cases", ok,
                    "the else branch of `when` must wait until all %d cases failed (witness %s)" % (n, C12._sz(sizes)), f.line)
    ctx.stat("forks_analysed", n_forks)
    ctx.floor("C07.a.wait-placement", EXP, "fork templates analysed", n_forks, 20)
    for (fn, what), (ok, msg, line, cnt) in sorted(verdicts.items()):
        rule = "C07.b.count" if ("label per member" in what or "Goto(end label)" in what) else "C07.a.wait-placement"
        ctx.check(rule, EXP, fn, what, ok, ("holds on all %d template instances" % cnt) if ok else msg, line=line)


def c_catch(ctx, names, temps):
    per = {}
    for fn, sizes, oracle, elems in temps:
        g = GenCFG(elems)
        st, problems = g.catch_states()
        p = per.setdefault(fn, [0, None])
        p[0] += 1
        if problems and p[1] is None:
            i, what = problems[0]
            p[1] = "%s at %s (witness %s, choices %s)" % (what, C12._generalise(repr(elems[i]))[:60] if 0 <= i < len(elems) else i, C12._sz(sizes), C12._orc(oracle))
    for fn in names:
        if fn not in per:
            continue
        n, bad = per[fn]
        ctx.check("C07.c.catch-balance", EXP, fn, "failure-handler push/pop", bad is None,
                  "on every path of every instance (%d) each CatchPatternFailure(label) is popped by a CatchPatternFailure(None) and the template ends with the handler stack it started with" % n if bad is None else
                  "failure-handler protocol unbalanced: %s. A later failure would jump to a label of this finished statement" % bad)


def d_normaliser(ctx):
    mod = ctx.tree.ast(EXP)
    fn = find_function(mod, "normalize_element_groups")
    if fn is None:
        raise AnalysisError("normalize_element_groups not found", anchor=EXP + "::normalize_element_groups")
    ors = [n for n in ast.walk(fn) if isinstance(n, ast.If) and "spec_or" in src(n.test)]
    ok = False
    if ors:
        body = ors[0].body
        rets = [r for s in body for r in ast.walk(s) if isinstance(r, ast.Return)]
        ok = bool(rets) and "flatten_or_group" in src(rets[0].value) and any(isinstance(lc, ast.ListComp) and "normalize_element_groups(elem)" in src(lc) and src(lc.generators[0].iter) == "group['elements']"
                                                                              for lc in ast.walk(rets[0].value))
    ctx.check("C07.d.normaliser", EXP, fn.name, "or case", ok, "`or`: the normalised children are concatenated (flattened) into one or-level, one entry per child", line=fn.lineno)
    ands = [n for n in ast.walk(fn) if isinstance(n, ast.If) and "spec_and" in src(n.test) and n not in ors]
    ands = [n for n in ast.walk(fn) if isinstance(n, ast.If) and re.search(r"==\s*'spec_and'", src(n.test))]
    ok = False
    if ands:
        b = ands[0]
        inits = [a for a in ast.walk(b) if isinstance(a, ast.Assign) and src(a.targets[0]) == "results" and isinstance(a.value, ast.List) and len(a.value.elts) == 1
                 and "'elements': []" in src(a.value)]
        outer = [f for f in ast.walk(b) if isinstance(f, ast.For) and src(f.iter) == "group['elements']"]
        dist = False
        for o in outer:
            for f1 in [x for x in ast.walk(o) if isinstance(x, ast.For) and src(x.iter) == "results"]:
                for f2 in [x for x in ast.walk(f1) if isinstance(x, ast.For) and src(x.iter) == "normalized['elements']"]:
                    cat = any(isinstance(d, ast.BinOp) and isinstance(d.op, ast.Add) and src(d.left) == "%s['elements']" % src(f1.target) and src(d.right) == "%s['elements']" % src(f2.target)
                              for d in ast.walk(f2))
                    app = any(isinstance(c, ast.Call) and isinstance(c.func, ast.Attribute) and c.func.attr == "append" for c in ast.walk(f2))
                    dist = cat and app
            reassign = any(isinstance(a, ast.Assign) and src(a.targets[0]) == "results" and isinstance(a.value, ast.Name) for a in o.body)
            dist = dist and reassign
        ok = bool(inits) and dist
    ctx.check("C07.d.normaliser", EXP, fn.name, "and case", ok,
              "`and`: starting from one empty and-group, every accumulated group is combined with every group of the next operand by concatenating their members (distribution)", line=fn.lineno)
    single = any(isinstance(n, ast.If) and "isinstance(group, Spec)" in src(n.test) for n in ast.walk(fn))
    ctx.check("C07.d.normaliser", EXP, fn.name, "single spec", single, "a single spec is wrapped into a one-member and-group", line=fn.lineno)
