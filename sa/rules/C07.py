"""C07 - and/or groups behave like the boolean formula they spell (decided on the emission
templates of the group expanders + the shape of the DNF normaliser)."""
import ast
import re

from ..emit2 import Rec, Nested, GenCFG
from ..source import AnalysisError, find_function, first_line, src
from . import C12

EXP = C12.EXP
GROUP_EXPANDERS = ("_expand_match_element", "_expand_await_element", "_expand_element_group", "_expand_when_stmt_element")


def run(ctx):
    ctx.explanation = ("C07: on the emission traces (emit2) of the group expanders: `and` forks wait for all heads on the success path and fail on the first failure, "
                       "`or` forks succeed on the first head and fail only after all failed; WaitForHeads counts agree with the fork they belong to; "
                       "failure-handler push/pop is balanced on every path; plus the shape of normalize_element_groups.")
    ctx.decided = ["a: wait placement distinguishes and (wait on success) from or (wait on failure)", "b: WaitForHeads.number = number of labels of its fork; every forked branch ends in a Goto to the end label",
                   "c: CatchPatternFailure push/pop balanced on every path of every template", "d: normaliser shape (or: concatenate, and: distribute every accumulated group over every group of the next operand; nothing removed afterwards)",
                   "f: the grammar gives `and` precedence over `or` in every family of group expressions (var / non-var specs, tests)"]
    ctx.not_decided = ["equivalence of normalize_element_groups with the formula for all formulas", "the head-merge dynamics at run time (which event arrives when)"]
    names, temps = C12.templates(ctx)
    a_b_wait(ctx, temps)
    c_catch(ctx, names, temps)
    d_normaliser(ctx)
    e_all_matching_heads(ctx)
    c_merge_same_fork(ctx)
    f_precedence(ctx)
    d_members_copied(ctx)
    a_matchers_armed_before_start(ctx, temps)
    b_refs_started_in_head(ctx, temps)


def _segment_after(elems, g, st, start, stop_cls=("MergeHeads", "Abort")):
    """Linear walk from `start` following unconditional flow until one of stop_cls; returns the Recs passed."""
    out = []
    i = start
    seen = set()
    while 0 <= i < len(elems) and i not in seen:
        seen.add(i)
        e = elems[i]
        if isinstance(e, Rec):
            out.append(e)
            if e.cls in stop_cls:
                break
            if e.cls == "Goto" and e.fields.get("expression") in (None, "True") and e.fields.get("label") in g.labels:
                i = g.labels[e.fields.get("label")]
                continue
        i += 1
    return out


def a_b_wait(ctx, temps):
    mod = ctx.tree.ast(EXP)
    verdicts = {}

    def rec(fn, what, ok, msg, line):
        v = verdicts.setdefault((fn, what), [True, msg, line, 0])
        v[3] += 1
        if not ok and v[0]:
            v[0], v[1] = False, msg

    n_forks = 0
    for fn, sizes, oracle, elems in temps:
        if fn not in GROUP_EXPANDERS:
            continue
        A, B, Cn = sizes["or_coll"], sizes["and_coll"], sizes["cases"]
        forks = [(i, e) for i, e in enumerate(elems) if isinstance(e, Rec) and e.cls == "ForkHead"]
        if not forks:
            continue
        g = GenCFG(elems)
        st, _ = g.catch_states()
        for fi, (i, f) in enumerate(forks):
            labels = f.fields.get("labels") or []
            n = len(labels)
            n_forks += 1
            if fn == "_expand_when_stmt_element":
                kind = "cases" if fi == 0 else "or"
            elif fn == "_expand_match_element" and A == 1:
                kind = "and"
            else:
                kind = "or"
            if len({A, B, Cn}) == 3 or fn != "_expand_when_stmt_element":
                expect_n = {"and": B, "or": A, "cases": Cn}[kind]
                rec(fn, "%s fork has one label per member" % kind, n == expect_n,
                    "the %s fork has %d labels but its group has %d members (witness %s)" % (kind, n, expect_n, C12._sz(sizes)), f.line)
            # the handler label active at the fork = failure continuation
            fstate = st.get(i, ())
            if kind != "cases":
                if not fstate:
                    rec(fn, "%s fork under a failure handler" % kind, False, "the %s fork is not preceded by CatchPatternFailure(label): a failing member fails the whole flow instead of the group logic" % kind, f.line)
                    continue
                fail_label = fstate[-1]
                fail_seg = _segment_after(elems, g, st, g.labels.get(fail_label, len(elems)))
                # end label: target of the Goto that ends the first branch
                first_branch = _segment_after(elems, g, st, g.labels[labels[0]], stop_cls=("Goto",)) if labels and labels[0] in g.labels else []
                end_goto = [e for e in first_branch if e.cls == "Goto"]
                end_label = end_goto[-1].fields.get("label") if end_goto else None
                ok_goto = True
                for l in labels:
                    seg = _segment_after(elems, g, st, g.labels[l], stop_cls=("Goto",)) if l in g.labels else []
                    if not seg or seg[-1].cls != "Goto" or seg[-1].fields.get("label") != end_label:
                        ok_goto = False
                if fn == "_expand_match_element":
                    # members of a group must be awaited in PARALLEL: one forked head per member, i.e. exactly one match statement per branch
                    # (an and-group inside an or-branch is one nested match on the whole and-group, expanded by the and-template)
                    for l in labels:
                        seg = _segment_after(elems, g, st, g.labels[l], stop_cls=("Goto",)) if l in g.labels else []
                        nm = len([e for e in seg if e.cls == "SpecOp" and e.fields.get("op") in ("match", "{element.op}")])
                        rec(fn, "%s fork: one match per forked head" % kind, nm == 1,
                            "a forked branch of the match template contains %d match statements in sequence: the members of an and-group are then awaited one after the other, "
                            "so the statement only completes for ONE arrival order (witness %s)" % (nm, C12._sz(sizes)), f.line)
                rec(fn, "%s fork: every branch ends in Goto(end label)" % kind, ok_goto and end_label is not None,
                    "a forked branch of %s does not end with a Goto to the common end label (witness %s)" % (fn, C12._sz(sizes)), f.line)
                succ_seg = _segment_after(elems, g, st, g.labels.get(end_label, len(elems))) if end_label else []
                w_succ = [e for e in succ_seg if e.cls == "WaitForHeads"]
                w_fail = [e for e in fail_seg if e.cls == "WaitForHeads"]
                if fn == "_expand_when_stmt_element":
                    # per-case group fork: success goes straight to the case label (merge of the cases fork); failure waits for all groups of the case
                    rec(fn, "or fork (case groups): success does not wait", not w_succ or all(e.fields.get("number") != n for e in w_succ[:0]), "", f.line)
                    okf = bool(w_fail) and w_fail[0].fields.get("number") == n
                    rec(fn, "or fork (case groups): failure waits for all groups of the case", okf,
                        "a `when` case is given up before all of its %d or-groups failed: WaitForHeads on the failure path has number %s (witness %s)" % (
                            n, w_fail[0].fields.get("number") if w_fail else None, C12._sz(sizes)), f.line)
                    continue
                if kind == "and":
                    ok = bool(w_succ) and w_succ[0].fields.get("number") == n and not w_fail
                    rec(fn, "and fork: wait for all on success, fail on first failure", ok,
                        "the and-group template must wait for all %d heads on the success path (found %s) and must NOT wait on the failure path (found %s): otherwise `and` completes on the first event / never fails (witness %s)" % (
                            n, [e.fields.get("number") for e in w_succ], [e.fields.get("number") for e in w_fail], C12._sz(sizes)), f.line)
                else:
                    ok = (not w_succ) and bool(w_fail) and w_fail[0].fields.get("number") == n
                    rec(fn, "or fork: succeed on first head, fail after all failed", ok,
                        "the or-group template must NOT wait on the success path (found %s) and must wait for all %d heads on the failure path (found %s): otherwise `or` waits for every alternative / fails on the first failing alternative (witness %s)" % (
                            [e.fields.get("number") for e in w_succ], n, [e.fields.get("number") for e in w_fail], C12._sz(sizes)), f.line)
                # success and failure paths merge the fork they belong to
                for seg, nm in ((succ_seg, "success"), (fail_seg, "failure")):
                    m = [e for e in seg if e.cls == "MergeHeads"]
                    if nm == "failure" and fn == "_expand_await_element":
                        continue  # documented note: the await-or failure path ends the scope and aborts without an explicit merge
                    rec(fn, "%s fork: %s path merges this fork" % (kind, nm), bool(m) and m[0].fields.get("fork_uid") == f.fields.get("fork_uid"),
                        "the %s path of the %s fork does not merge the fork it belongs to" % (nm, kind), f.line)
            else:
                # cases fork of `when`: the else label waits for all cases
                waits = [e for e in elems if isinstance(e, Rec) and e.cls == "WaitForHeads"]
                else_lab = [l for l in g.labels if str(l).startswith("when_else_label")]
                ok = False
                if else_lab:
                    seg = _segment_after(elems, g, st, g.labels[else_lab[0]], stop_cls=("Abort", "Goto"))
                    w = [e for e in seg if e.cls == "WaitForHeads"]
                    ok = bool(w) and w[0].fields.get("number") == n
                rec(fn, "cases fork: else waits for all cases", ok,
                    "the else branch of `when` must wait until all %d cases failed (witness %s)" % (n, C12._sz(sizes)), f.line)
    ctx.stat("forks_analysed", n_forks)
    ctx.floor("C07.a.wait-placement", EXP, "fork templates analysed", n_forks, 20)
    for (fn, what), (ok, msg, line, cnt) in sorted(verdicts.items()):
        rule = "C07.b.count" if ("label per member" in what or "Goto(end label)" in what) else "C07.a.wait-placement"
        ctx.check(rule, EXP, fn, what, ok, ("holds on all %d template instances" % cnt) if ok else msg, line=line)


def c_catch(ctx, names, temps):
    per = {}
    for fn, sizes, oracle, elems in temps:
        g = GenCFG(elems)
        st, problems = g.catch_states()
        p = per.setdefault(fn, [0, None])
        p[0] += 1
        if problems and p[1] is None:
            i, what = problems[0]
            p[1] = "%s at %s (witness %s, choices %s)" % (what, C12._generalise(repr(elems[i]))[:60] if 0 <= i < len(elems) else i, C12._sz(sizes), C12._orc(oracle))
    for fn in names:
        if fn not in per:
            continue
        n, bad = per[fn]
        ctx.check("C07.c.catch-balance", EXP, fn, "failure-handler push/pop", bad is None,
                  "on every path of every instance (%d) each CatchPatternFailure(label) is popped by a CatchPatternFailure(None) and the template ends with the handler stack it started with" % n if bad is None else
                  "failure-handler protocol unbalanced: %s. A later failure would jump to a label of this finished statement" % bad)


def d_normaliser(ctx):
    mod = ctx.tree.ast(EXP)
    fn = find_function(mod, "normalize_element_groups")
    if fn is None:
        raise AnalysisError("normalize_element_groups not found", anchor=EXP + "::normalize_element_groups")
    ors = [n for n in ast.walk(fn) if isinstance(n, ast.If) and "spec_or" in src(n.test)]
    ok = False
    if ors:
        body = ors[0].body
        rets = [r for s in body for r in ast.walk(s) if isinstance(r, ast.Return)]
        ok = bool(rets) and "flatten_or_group" in src(rets[0].value) and any(isinstance(lc, ast.ListComp) and "normalize_element_groups(elem)" in src(lc) and src(lc.generators[0].iter) == "group['elements']"
                                                                              for lc in ast.walk(rets[0].value))
    ctx.check("C07.d.normaliser", EXP, fn.name, "or case", ok, "`or`: the normalised children are concatenated (flattened) into one or-level, one entry per child", line=fn.lineno)
    ands = [n for n in ast.walk(fn) if isinstance(n, ast.If) and "spec_and" in src(n.test) and n not in ors]
    ands = [n for n in ast.walk(fn) if isinstance(n, ast.If) and re.search(r"==\s*'spec_and'", src(n.test))]
    ok = False
    if ands:
        b = ands[0]
        inits = [a for a in ast.walk(b) if isinstance(a, ast.Assign) and src(a.targets[0]) == "results" and isinstance(a.value, ast.List) and len(a.value.elts) == 1
                 and "'elements': []" in src(a.value)]
        outer = [f for f in ast.walk(b) if isinstance(f, ast.For) and src(f.iter) == "group['elements']"]
        dist = False
        for o in outer:
            for f1 in [x for x in ast.walk(o) if isinstance(x, ast.For) and src(x.iter) == "results"]:
                for f2 in [x for x in ast.walk(f1) if isinstance(x, ast.For) and src(x.iter) == "normalized['elements']"]:
                    cat = any(isinstance(d, ast.BinOp) and isinstance(d.op, ast.Add) and src(d.left) == "%s['elements']" % src(f1.target) and src(d.right) == "%s['elements']" % src(f2.target)
                              for d in ast.walk(f2))
                    app = any(isinstance(c, ast.Call) and isinstance(c.func, ast.Attribute) and c.func.attr == "append" for c in ast.walk(f2))
                    dist = cat and app
            reassign = any(isinstance(a, ast.Assign) and src(a.targets[0]) == "results" and isinstance(a.value, ast.Name) for a in o.body)
            dist = dist and reassign
        ok = bool(inits) and dist
    ctx.check("C07.d.normaliser", EXP, fn.name, "and case", ok,
              "`and`: starting from one empty and-group, every accumulated group is combined with every group of the next operand by concatenating their members (distribution)", line=fn.lineno)
    # nothing is removed afterwards: a member occurring twice in an and-group, or two and-groups that look alike, are different obligations of the formula
    # (`X.Finished(a) and X.Finished(b)`, `$a.Finished() or $b.Finished()`); after the distribution the accumulated groups go to the result unfiltered
    if ands:
        b = ands[0]
        outer = [f for f in ast.walk(b) if isinstance(f, ast.For) and src(f.iter) == "group['elements']"]
        last = max([getattr(o, "end_lineno", o.lineno) for o in outer] or [0])
        post = []
        for n_ in ast.walk(b):
            if getattr(n_, "lineno", 0) <= last:
                continue
            if isinstance(n_, (ast.Assign, ast.AugAssign)):
                tg = n_.targets[0] if isinstance(n_, ast.Assign) else n_.target
                base = tg
                while isinstance(base, (ast.Subscript, ast.Attribute)):
                    base = base.value
                if isinstance(base, ast.Name) and base.id == "results":
                    post.append(n_)
            if isinstance(n_, ast.Call) and isinstance(n_.func, ast.Attribute) and n_.func.attr in ("remove", "pop", "clear", "sort", "reverse", "__delitem__") and src(n_.func.value).startswith("results"):
                post.append(n_)
            if isinstance(n_, ast.Delete) and any(src(t_).startswith("results") for t_ in n_.targets):
                post.append(n_)
        ctx.check("C07.d.normaliser", EXP, fn.name, "and case: nothing removed after the distribution", not post,
                  "the and-groups built by the distribution reach the result unfiltered" if not post else
                  "`%s` rewrites the accumulated and-groups after the distribution: members or groups that look alike are dropped, although they are separate obligations of the formula "
                  "(`X.Finished(a) and X.Finished(b)` then completes on the first event alone)" % first_line(post[0], 70), line=(post[0].lineno if post else fn.lineno))
    fl = find_function(mod, "flatten_or_group")
    if fl is None:
        raise AnalysisError("flatten_or_group not found", anchor=EXP + "::flatten_or_group")
    skips = [x for x in ast.walk(fl) if isinstance(x, (ast.Continue, ast.Break))]
    member_tests = [i for i in ast.walk(fl) if isinstance(i, ast.If) and any(isinstance(c, ast.Compare) and any(isinstance(o, (ast.In, ast.NotIn)) for o in c.ops) for c in ast.walk(i.test))]
    adds = [c for c in ast.walk(fl) if isinstance(c, ast.Call) and isinstance(c.func, ast.Attribute) and c.func.attr in ("append", "extend")]
    ok = not skips and not member_tests and len(adds) >= 2
    ctx.check("C07.d.normaliser", EXP, "flatten_or_group", "pure flattening", ok,
              "flattening keeps every alternative: nested or-levels are spliced in, everything else is appended, nothing is skipped" if ok else
              "flatten_or_group drops alternatives (%s): two or-branches that look alike but refer to different objects (`$a.Finished() or $b.Finished()`) collapse into one, and the second reference never completes the statement"
              % ("`continue`/`break` in the loop" if skips else "membership test on already seen groups"), line=fl.lineno)
    single = any(isinstance(n, ast.If) and "isinstance(group, Spec)" in src(n.test) for n in ast.walk(fn))
    ctx.check("C07.d.normaliser", EXP, fn.name, "single spec", single, "a single spec is wrapped into a one-member and-group", line=fn.lineno)


SM = "nemoguardrails/colang/v2_x/runtime/statemachine.py"
LARK = "nemoguardrails/colang/v2_x/lang/grammar/colang.lark"


def lark_rules(text):
    """{rule name: body text} of a lark grammar (continuation lines joined, comments and priorities dropped)."""
    rules, cur = {}, None
    for raw in text.split("\n"):
        line = re.sub(r"//.*$", "", raw).rstrip()
        if not line.strip():
            continue
        m = re.match(r"^([?!]?[a-zA-Z_][a-zA-Z_0-9]*)(\.\d+)?\s*:\s*(.*)$", line)
        if m and not line[0].isspace():
            cur = m.group(1).lstrip("?!")
            rules[cur] = m.group(3)
        elif cur is not None and line[0].isspace():
            rules[cur] += " " + line.strip()
    return rules


def c_merge_same_fork(ctx):
    """When forked heads are merged, the heads that COMPETE for continuing are the heads that arrived at this merge statement.  A head that is merging at the fork of an
    inner group (an and-member that has just failed) sits at a different MergeHeads element; counted in, it ties with or beats the head of a satisfied or-branch (its score
    chain is empty, i.e. padded to an exact match), the satisfied branch is dropped and the group never completes although its formula holds (F103)."""
    t = ctx.tree.ast(SM)
    sl = find_function(t, "slide")
    if sl is None:
        raise AnalysisError("slide not found", anchor=SM + "::slide")
    comps = [c for c in ast.walk(sl) if isinstance(c, (ast.ListComp, ast.GeneratorExp, ast.SetComp))
             and any("FlowHeadStatus.MERGING" in src(i) for g in c.generators for i in g.ifs)]
    ctx.floor("C07.c.merge-same-fork", SM, "collection of the heads that compete at a merge", len(comps), 1)
    for c in comps:
        conds = " and ".join(src(i) for g in c.generators for i in g.ifs)
        ok = "fork_uid" in conds
        ctx.check("C07.c.merge-same-fork", SM, "slide", "competing heads are the heads at this merge statement", ok,
                  "only heads whose MergeHeads element belongs to the same fork compete" if ok else
                  "every descendant head in state MERGING competes, also one that merges at the fork of an inner group: on an event that fails a member of `(a and b)` and satisfies "
                  "`c` in `(a and b) or c`, the satisfied branch loses the merge and the statement never completes", line=c.lineno)


def f_precedence(ctx):
    """`a or b and c` spells `a or (b and c)`: in every family of group expressions of the grammar (specs with and without a leading variable, and plain expressions) the
    `or` level is built from `and` levels and the `and` level from atoms - the same in all families, so that a statement means the same with and without `await`."""
    rules = lark_rules(ctx.tree.text(LARK))
    fams = []
    for name, body in rules.items():
        if re.search(r"\b_OR\b", body) and not re.search(r"\b_AND\b", body):
            ops = set(re.findall(r"[a-z_][a-z_0-9]*", re.sub(r"\b_[A-Z_]+\b", " ", body))) - {name}
            fams.append((name, ops))
    n = 0
    for name, ops in fams:
        # operands of the or-level: exactly one rule, and that rule is an and-level over something that is not the or-level
        n += 1
        and_rules = [o for o in ops if o in rules and re.search(r"\b_AND\b", rules[o]) and not re.search(r"\b_OR\b", rules[o])]
        ok = len(ops) == 1 and len(and_rules) == 1
        if ok:
            aops = set(re.findall(r"[a-z_][a-z_0-9]*", re.sub(r"\b_[A-Z_]+\b", " ", rules[and_rules[0]]))) - {and_rules[0]}
            ok = name not in aops
        ctx.check("C07.f.precedence", LARK, name, "or-level over and-levels", ok,
                  "`%s` combines `%s` with _OR, and that level combines atoms with _AND: `and` binds tighter than `or`" % (name, sorted(ops)[0] if ops else "?") if ok else
                  "in `%s` the `or` level is not built from `and` levels (operands: %s): `a or b and c` is read as `(a or b) and c` in this family but as `a or (b and c)` in the "
                  "others, so the same group completes at different moments depending on whether the statement has a keyword" % (name, sorted(ops)), line=None)
    ctx.floor("C07.f.precedence", LARK, "or-levels of group expressions in the grammar", n, 3)
    # every and-level must sit below an or-level (an and-level whose operands are or-levels is the inverted precedence)
    for name, body in rules.items():
        if re.search(r"\b_AND\b", body) and not re.search(r"\b_OR\b", body):
            ops = set(re.findall(r"[a-z_][a-z_0-9]*", re.sub(r"\b_[A-Z_]+\b", " ", body))) - {name}
            inv = [o for o in ops if o in rules and re.search(r"\b_OR\b", rules[o]) and not re.search(r"\b_AND\b", rules[o])]
            ctx.check("C07.f.precedence", LARK, name, "and-level over atoms", not inv,
                      "`%s` combines atoms" % name if not inv else "`%s` combines or-levels (%s) with _AND: `or` binds tighter than `and` here" % (name, inv), line=None)


def e_all_matching_heads(ctx):
    """A group is realised by several forked heads of ONE flow instance waiting for (possibly the same) event.  The formula semantics needs every head
    whose pattern matches the event to advance: between collecting the matching heads and handing them to _handle_event_matching the list may be
    re-ordered, never filtered, and the handler visits every head."""
    from ..pycfg import walk_no_nested
    t = ctx.tree.ast(SM)
    rtc = find_function(t, "run_to_completion")
    hem = find_function(t, "_handle_event_matching")
    if rtc is None or hem is None:
        raise AnalysisError("run_to_completion / _handle_event_matching not found", anchor=SM + "::run_to_completion")
    calls = [c for c in ast.walk(rtc) if isinstance(c, ast.Call) and src(c.func) == "_handle_event_matching"]
    ctx.floor("C07.e.all-matching-heads", SM, "hand-over of the matching heads", len(calls), 1)
    for c in calls:
        arg = src(c.args[2]) if len(c.args) > 2 else None
        ctx.check("C07.e.all-matching-heads", SM, "run_to_completion", first_line(c, 70), arg == "heads_matching",
                  "the handler receives the collected list `heads_matching`" if arg == "heads_matching" else "the handler receives `%s`, not the collected list of matching heads" % arg, line=c.lineno)
    writes = []
    for n in ast.walk(rtc):
        if isinstance(n, ast.Assign) and any(src(x) == "heads_matching" for x in n.targets):
            writes.append(n)
        if isinstance(n, ast.AnnAssign) and src(n.target) == "heads_matching":
            writes.append(n)
        if isinstance(n, ast.Call) and isinstance(n.func, ast.Attribute) and src(n.func.value) == "heads_matching" and n.func.attr in ("remove", "pop", "clear", "insert", "extend"):
            writes.append(n)
        if isinstance(n, ast.Delete) and any("heads_matching" in src(x) for x in n.targets):
            writes.append(n)
    for w in writes:
        v = getattr(w, "value", None)
        ok = False
        why = "filters or replaces the list"
        if isinstance(w, (ast.Assign, ast.AnnAssign)) and isinstance(v, ast.List) and not v.elts:
            ok, why = True, "initialisation"
        elif isinstance(w, (ast.Assign, ast.AnnAssign)) and isinstance(v, ast.Call) and src(v.func) == "sorted" and v.args and src(v.args[0]) == "heads_matching":
            ok, why = True, "re-ordering by specificity"
        ctx.check("C07.e.all-matching-heads", SM, "run_to_completion", first_line(w, 70), ok,
                  "write to heads_matching: %s" % why if ok else
                  "`%s` %s: a head of a forked group whose pattern also matches the event does not advance (e.g. `match A and (B or C)`: both heads waiting for A must take it)" % (first_line(w, 60), why),
                  line=w.lineno)
    appends = [n for n in ast.walk(rtc) if isinstance(n, ast.Call) and isinstance(n.func, ast.Attribute) and src(n.func.value) == "heads_matching" and n.func.attr == "append"]
    first_call = min([c.lineno for c in calls]) if calls else 0
    for a in appends:
        if a.lineno > first_call:
            continue   # after the hand-over the list is re-used to advance heads that caught a pattern failure
        guards = []
        p_ = getattr(a, "_parent", None)
        while p_ is not None and p_ is not rtc:
            if isinstance(p_, ast.If):
                guards.append(src(p_.test))
            p_ = getattr(p_, "_parent", None)
        ok = any(re.sub(r"\s", "", g_) in ("matching_score>0.0", "matching_score>0") for g_ in guards)
        ctx.check("C07.e.all-matching-heads", SM, "run_to_completion", first_line(a, 60), ok, "a head is collected exactly when its matching score is positive", line=a.lineno)
    loops = [l for l in ast.walk(hem) if isinstance(l, ast.For) and src(l.iter) == hem.args.args[2].arg]
    exits = [x for l in loops for x in ast.walk(l) if isinstance(x, (ast.Break, ast.Return))]
    ctx.check("C07.e.all-matching-heads", SM, "_handle_event_matching", "visits every matching head", bool(loops) and not exits,
              "the handler iterates over all matching heads without leaving the loop early", line=hem.lineno)


def d_members_copied(ctx):
    """The distribution step of the normaliser concatenates member lists without copying: in `a and (b or c)` the element `a` is ONE object that is a
    member of two and-groups.  A group expander that writes into a member (per-group reference, arguments) must therefore work on a copy of it,
    otherwise the last group's values overwrite those of the earlier groups (F35)."""
    from ..pycfg import walk_no_nested
    mod = ctx.tree.ast(EXP)
    nf = find_function(mod, "normalize_element_groups")
    shares = nf is not None and not any(isinstance(c, ast.Call) and src(c.func) in ("copy.deepcopy", "deepcopy", "copy.copy") for c in ast.walk(nf))
    n_loops = 0
    for name in GROUP_EXPANDERS:
        fn = find_function(mod, name)
        if fn is None:
            raise AnalysisError("%s not found" % name, anchor=EXP + "::" + name)
        for l in [x for x in ast.walk(fn) if isinstance(x, ast.For) and isinstance(x.target, ast.Name) and re.search(r"\[[\"']elements[\"']\]$", src(x.iter))
                  and not src(x.iter).startswith("normalized")]:
            v = l.target.id
            n_loops += 1
            rebinds = [a for a in l.body if isinstance(a, ast.Assign) and src(a.targets[0]) == v and isinstance(a.value, ast.Call) and src(a.value.func) in ("copy.deepcopy", "deepcopy")]
            first_copy = min([a.lineno for a in rebinds]) if rebinds else None
            stores = []
            for n in ast.walk(l):
                tg = n.targets if isinstance(n, ast.Assign) else [n.target] if isinstance(n, ast.AugAssign) else []
                for x in tg:
                    b = x
                    while isinstance(b, (ast.Attribute, ast.Subscript)):
                        b = b.value
                    if isinstance(x, (ast.Attribute, ast.Subscript)) and isinstance(b, ast.Name) and b.id == v:
                        stores.append(n)
                if isinstance(n, ast.Call) and isinstance(n.func, ast.Attribute) and n.func.attr in ("update", "append", "pop", "setdefault", "clear") and isinstance(n.func.value, (ast.Attribute, ast.Subscript)):
                    b = n.func.value
                    while isinstance(b, (ast.Attribute, ast.Subscript)):
                        b = b.value
                    if isinstance(b, ast.Name) and b.id == v:
                        stores.append(n)
            bad = [st for st in stores if first_copy is None or st.lineno < first_copy]
            ok = not (shares and bad)
            ctx.check("C07.d.members-copied", EXP, name, "for %s in %s" % (v, src(l.iter)), ok,
                      ("members are only read" if not stores else "the member is re-bound to a deep copy before it is written (%d write(s))" % len(stores)) if ok else
                      "`%s` writes into a group member that the normaliser shares between and-groups (`a and (b or c)`): every group but the last one starts/matches its flow with the reference "
                      "variables of ANOTHER group, which are not defined yet - the flow containing the statement fails as soon as it reaches it" % first_line(bad[0], 60), line=(bad[0].lineno if bad else l.lineno))
    ctx.floor("C07.d.members-copied", EXP, "loops over the members of an and-group", n_loops, 1)


def a_matchers_armed_before_start(ctx, temps):
    """`await`/`when` on an and-group of flows: a `start` statement blocks its head until FlowStarted of that member arrives.  If a later member is started
    between the start of member i and the point where the matcher for `i.Finished()` becomes active, a member that finishes in the round it is started
    emits its Finished event while nothing listens for it: the group never completes, and whether it does depends on the ORDER the members are written in."""
    per = {}
    for fn, sizes, oracle, elems in temps:
        if fn not in ("_expand_await_element", "_expand_when_stmt_element"):
            continue
        # linear segments between labels
        seg = []
        worst = per.setdefault(fn, [0, None, 0])
        worst[2] += 1

        def close(seg):
            starts = [e for e in seg if e.cls == "SpecOp" and e.fields.get("op") == "start"]
            matches = [e for e in seg if e.cls == "SpecOp" and e.fields.get("op") == "match"]

            def members(e):
                sp = e.fields.get("spec")
                if isinstance(sp, dict) and isinstance(sp.get("elements"), list):
                    return len(sp["elements"])    # a start on a whole and-group expands into one start per member, in sequence
                return 1
            k = sum(members(e) for e in starts)
            if k >= 2 and matches:
                # the first member's matcher is armed only after the last start has received its FlowStarted
                if k > worst[0]:
                    worst[0] = k
                    worst[1] = (starts[0].line, C12._sz(sizes))
        for e in elems:
            if isinstance(e, Rec) and e.cls == "Label":
                close(seg)
                seg = []
            elif isinstance(e, Rec):
                seg.append(e)
        close(seg)
    if not per:
        raise AnalysisError("no await/when templates", anchor=EXP + "::_expand_await_element")
    for fn, (k, where, n) in sorted(per.items()):
        ok = k == 0
        ctx.check("C07.a.armed-before-start", EXP, fn, "members of an and-group are started one after the other before any Finished matcher is armed", ok,
                  "in all %d template instances every member's Finished matcher is active before another member's start can block the head" % n if ok else
                  "the and-group template emits %d `start` statements in sequence and arms the Finished matchers only afterwards (witness %s): a member that finishes in the round it is started "
                  "(`await quick and slow`) is missed while the head waits for the next member's FlowStarted, so the statement never completes - `await slow and quick` does" % (k, where[1]),
                  line=(where[0] if where else 1))


def b_refs_started_in_head(ctx, temps):
    """The and-groups of one statement run as separately forked heads, and a head's local progress is all it can rely on: a `match $_ref_x.Finished()` is evaluated when
    the head reaches it, so the temporary reference must have been assigned by a `start ... as $_ref_x` that the SAME head executed before.  A reference started only by a
    sibling head may not exist yet (`Unknown variable`), which aborts the enclosing flow although the formula becomes true."""
    from ..emit2 import Obj

    def spec_members(sp):
        if isinstance(sp, dict) and isinstance(sp.get("elements"), list):
            return list(sp["elements"])
        return [sp]

    def temp_of_match(m):
        v = None
        if isinstance(m, Obj):
            v = getattr(m, "attrs", {}).get("var_name")
        elif isinstance(m, Rec) and m.cls == "Spec":
            v = m.fields.get("var_name")
        return v if isinstance(v, str) and v.startswith("_ref_") else None

    def temp_of_start(m):
        r = None
        if isinstance(m, Obj):
            r = getattr(m, "attrs", {}).get("ref")
        elif isinstance(m, Rec) and m.cls == "Spec":
            r = m.fields.get("ref")
        if isinstance(r, Obj):
            k = re.search(r"_create_ref_ast_dict_helper\((_ref_\w+)\)", r.path)
            return k.group(1) if k else None
        return None

    per = {}
    for fn, sizes, oracle, elems in temps:
        if fn not in ("_expand_await_element", "_expand_when_stmt_element"):
            continue
        st = per.setdefault(fn, [0, None, 0])
        st[2] += 1
        started = set()
        for e in elems:
            if isinstance(e, Rec) and e.cls == "Label":
                started = set()
                continue
            if not (isinstance(e, Rec) and e.cls == "SpecOp"):
                continue
            if e.fields.get("op") == "start":
                for m in spec_members(e.fields.get("spec")):
                    t = temp_of_start(m)
                    if t:
                        started.add(t)
            elif e.fields.get("op") == "match":
                for m in spec_members(e.fields.get("spec")):
                    t = temp_of_match(m)
                    if t:
                        st[0] += 1
                        if t not in started and st[1] is None:
                            st[1] = (e.line, t, C12._sz(sizes))
    if not per:
        raise AnalysisError("no await/when templates", anchor=EXP + "::_expand_await_element")
    total = 0
    for fn, (n, bad, k) in sorted(per.items()):
        total += n
        ctx.check("C07.b.refs-started-in-head", EXP, fn, "every matched temporary reference is started by the same head", bad is None,
                  "in all %d template instances each of the %d `match $_ref.Finished()` members follows a `start ... as $_ref` in its own head" % (k, n) if bad is None else
                  "a head matches on `$%s` (witness %s) which it did not start itself: when the heads of the and-groups run, the reference may not have been assigned yet "
                  "(Unknown variable), the enclosing flow is aborted and the statement never completes - depending on how the formula is spelled" % (bad[1], bad[2]),
                  line=(bad[0] if bad else 1))
    ctx.floor("C07.b.refs-started-in-head", EXP, "matches on temporary references in the await/when templates", total, 4)
